#!/bin/sh
# Confirm a seeded change independently in a scratch worktree of /repo:
#   tools/verify_seed.sh <dir with patch.diff + demo_test.rs|demo.sh>
# prints: APPLY ok|fail, SUITE pass|fail, DEMO_WITH fail|pass, DEMO_WITHOUT pass|fail
D=$(cd "$1" && pwd)
WT=/tmp/seedwt-$$
git -C /repo worktree add -q --detach "$WT" HEAD || exit 2
cd "$WT" || exit 2
export CARGO_NET_OFFLINE=true CARGO_TARGET_DIR=/tmp/seedwt-target
if git apply "$D/patch.diff" 2>/tmp/seed-apply.err; then echo "APPLY ok"; else echo "APPLY fail: $(head -2 /tmp/seed-apply.err)"; cd /; git -C /repo worktree remove --force "$WT"; exit 1; fi
if cargo test --workspace --no-fail-fast --offline >/tmp/seed-suite.log 2>&1; then echo "SUITE pass ($(grep -c '^test .* ok$' /tmp/seed-suite.log) ok)"; else echo "SUITE FAIL: $(grep -E 'FAILED|failed|error' /tmp/seed-suite.log | head -3)"; fi
run_demo() {
  if [ -f "$D/demo_test.rs" ]; then
    cp "$D/demo_test.rs" tests/zz_demo_test.rs
    [ -d "$D/demo_inputs" ] && cp -r "$D/demo_inputs" tests/ 2>/dev/null
    cargo test --test zz_demo_test --offline >/tmp/seed-demo.log 2>&1
  else
    sh "$D/demo.sh" "$WT" >/tmp/seed-demo.log 2>&1
  fi
}
if run_demo; then echo "DEMO_WITH pass (BAD: the demo should fail with the change)"; else echo "DEMO_WITH fail (as wanted): $(grep -E 'panicked|assert|FAILED' /tmp/seed-demo.log | head -2 | cut -c1-200)"; fi
git apply -R "$D/patch.diff"
if run_demo; then echo "DEMO_WITHOUT pass (as wanted)"; else echo "DEMO_WITHOUT FAIL (BAD): $(grep -E 'panicked|assert|FAILED|error' /tmp/seed-demo.log | head -3 | cut -c1-200)"; fi
cd /; git -C /repo worktree remove --force "$WT"; git -C /repo worktree prune
