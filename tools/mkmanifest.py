#!/usr/bin/env python3
"""Regenerates /verif/MANIFEST.json from the table below (one row per property)."""
import json, os, sys
ROOT = os.path.dirname(os.path.dirname(os.path.abspath(__file__)))

CHECKS = {
 "C05": dict(
   level="exploration", technique="bounded-exhaustive enumeration + proptest random trees; oracle = denotational model vs parsed output",
   text="Every constructor chain to depth 2 (quick) / 3 (thorough) over 12 contexts x 20 leaves, plus random full trees, is translated at all five sites in both modes; the emitted text is parsed by a real TypeScript-subset grammar (Zod schemas through an `infer` model) and its normal form must equal the serde JSON shape D(T). Exhaustive within the stated depth, sampled beyond.",
   note="Trusted: the harness's TypeScript-subset parser/normal form and Zod `infer` model (no tsc/Zod in the image); D() follows the README table; generated Rust is parsed by syn, never compiled.",
   design="DESIGN.md §3 C05"),
}

NOT_YET = {}

def main():
    props = [json.loads(l) for l in open(os.path.join(ROOT, "properties.jsonl"))]
    checks = []
    na = []
    for p in props:
        pid = p["id"]
        c = CHECKS.get(pid)
        if not c:
            na.append({"property_id": pid, "reason": NOT_YET.get(pid, "check not built yet in this round (planned in DESIGN.md §3); nothing is claimed for it")})
            continue
        checks.append({
            "property_id": pid,
            "quick_cmd": f"./check {pid} quick",
            "thorough_cmd": f"./check {pid} thorough",
            "evidence_file": f"/verif/evidence/{pid}.json",
            "replay_cmd_template": "./check --replay {path}",
            "engine": "ttgv",
            "level_claimed": {"category": c["level"], "text": c["text"], "design_ref": c["design"]},
            "level_note": c["note"],
            "technique": c["technique"],
        })
    m = {
        "version": 1,
        "setup_cmd": "./check --build",
        "hooks": {
            "guard": "tauri_typegen_verif",
            "enable": "no hook is needed: checks use the public API, the real binaries and the file system (guard name reserved, unused)",
            "baseline_off_cmd": "cd /repo && cargo test --workspace --no-fail-fast --offline",
            "source_commits": [],
            "add_only": True,
        },
        "engines": [
            {"name": "ttgv", "path": "/verif/harness", "serves_properties": [c["property_id"] for c in checks],
             "kind_free_text": "Rust harness (path-dependency on /repo): choice-tape generators driven by proptest TestRunner (seeded, shrinking), bounded-exhaustive enumerations, TypeScript-subset parser, Zod model, subprocess driver for the real CLI / build-script path; cargo-fuzz targets under harness/fuzz"},
        ],
        "checks": checks,
        "not_applicable": na,
        "notes": "All checks: ./check <Cxx> quick|thorough (cwd /verif). Exit 0 held / 1 VIOLATION / 2 inconclusive (build failure, harness bug, timeout). VERIF_SEED seeds every generated choice. Known findings: /verif/known_findings.json.",
    }
    json.dump(m, open(os.path.join(ROOT, "MANIFEST.json"), "w"), indent=1)
    print("MANIFEST.json:", len(checks), "checks,", len(na), "not_applicable")

if __name__ == "__main__":
    main()
