#!/bin/sh
# Apply each own mutant of mutants/INDEX.json to /repo in turn, run the quick tier of the owning
# checks, expect a VIOLATION, restore /repo. Never run while other checks are running.
cd "$(dirname "$0")/.." || exit 2
[ -z "$(git -C /repo status --short)" ] || { echo "/repo is dirty"; exit 2; }
python3 - "$@" <<'PY'
import json, subprocess, sys
idx = json.load(open('mutants/INDEX.json'))
only = set(sys.argv[1:])
bad = 0
for m in idx:
    if only and m['file'] not in only: continue
    r = subprocess.run(['git', '-C', '/repo', 'apply', f"/verif/mutants/{m['file']}"], capture_output=True, text=True)
    if r.returncode != 0:
        print('DOES-NOT-APPLY', m['file']); bad += 1; continue
    try:
        caught = []
        for c in m['property']:
            out = subprocess.run(['./check', c, 'quick'], capture_output=True, text=True).stdout
            if 'VIOLATION property=' + c in out: caught.append(c)
        print(('CAUGHT ' if caught else 'MISSED ') + m['file'], caught)
        if not caught: bad += 1
    finally:
        subprocess.run(['git', '-C', '/repo', 'checkout', '--', '.'])
sys.exit(1 if bad else 0)
PY
