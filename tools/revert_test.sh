#!/bin/sh
# sensitivity: revert one fix commit in /repo's working tree, run the listed checks, restore.
#   tools/revert_test.sh <sha> <Cxx> [<Cxx>...]
sha=$1; shift
cd /repo || exit 2
[ -z "$(git status --short)" ] || { echo "REPO-DIRTY before $sha"; exit 2; }
if ! git show "$sha" | git apply -R 2>/dev/null; then echo "REVERT-FAILED $sha (later commits touch the same lines)"; git reset -q --hard HEAD; exit 0; fi
for c in "$@"; do
  out=$(cd /verif && ./check "$c" quick 2>&1)
  code=$?
  echo "revert $sha $c exit=$code $(echo "$out" | grep -c '^VIOLATION') violations; first: $(echo "$out" | grep -m1 -A1 '^VIOLATION' | tail -1 | cut -c1-200)"
done
git reset -q --hard HEAD
[ -z "$(git status --short)" ] || echo "REPO-DIRTY after $sha"
