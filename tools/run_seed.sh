#!/bin/sh
# Apply a seeded change to /repo, run the given checks, undo it straight afterwards.
#   tools/run_seed.sh <patch.diff> <quick|thorough> <Cxx> [<Cxx>...]
P=$(readlink -f "$1"); TIER=$2; shift 2
cd /repo || exit 2
[ -z "$(git status --short)" ] || { echo "REPO-DIRTY"; exit 2; }
git apply "$P" || { echo "APPLY-FAILED"; exit 2; }
for c in "$@"; do
  out=$(cd /verif && ./check "$c" "$TIER" 2>&1); code=$?
  echo "seed $(basename $(dirname $P)) $c $TIER exit=$code violations=$(echo "$out" | grep -c '^VIOLATION') :: $(echo "$out" | grep -m1 -A3 '^VIOLATION' | sed -n '2,4p' | tr '\n' ' ' | cut -c1-420)"
done
git checkout -- . ; git status --short | head -3
