#!/bin/sh
# dev helper: run the harness against another checkout of the code under test
#   tools/against.sh <repo_dir> <Cxx> <quick|thorough>   (env such as TTGV_SURVEY is passed through)
# Works on a scratch copy of the harness under /tmp/hx-<name>; nothing registered depends on it.
set -e
REPO=$(cd "$1" && pwd); shift
NAME=$(echo "$REPO" | tr '/' '_')
HX=/tmp/hx$NAME
mkdir -p "$HX"
rsync -a --delete --exclude target /verif/harness "$HX/"
cp /verif/known_findings.json "$HX/" 2>/dev/null || true
sed -i "s#path = \"/repo\"#path = \"$REPO\"#" "$HX/harness/Cargo.toml" "$HX/harness/fuzz/Cargo.toml"
cd "$HX/harness"
CARGO_NET_OFFLINE=true cargo build --release --offline 2>&1 | grep -E "^(error|warning: unused)" -A 8 | head -30
if [ ! -x "$HX/harness/target/repo/release/cargo-tauri-typegen" ] || [ -n "$(find "$REPO/src" -newer "$HX/harness/target/repo/release/cargo-tauri-typegen" -print -quit 2>/dev/null)" ]; then
  CARGO_NET_OFFLINE=true cargo build --release --offline --manifest-path "$REPO/Cargo.toml" --bin cargo-tauri-typegen --target-dir "$HX/harness/target/repo" 2>&1 | grep -E "^error" -A 8 | head -20
fi
VERIF_ROOT="$HX" exec "$HX/harness/target/release/ttgv" "$@"
