#!/usr/bin/env python3
"""Rebuild regress/ after generator changes: every revertable fix commit and every seeded change
is applied to /repo's working tree in turn, the owning checks are run under a few seeds, and the
shrunk failures they report are stored as regression cases. /repo is restored after each step."""
import json, glob, os, shutil, subprocess, sys, collections
V='/verif'
def sh(cmd, cwd=None): return subprocess.run(cmd, shell=True, cwd=cwd, capture_output=True, text=True)
def clean_repo():
    sh('git reset -q --hard HEAD', '/repo')
    assert sh('git status --short', '/repo').stdout.strip()=='' , 'repo dirty'
kf=json.load(open(f'{V}/known_findings.json'))
fix_props=collections.OrderedDict()
for e in kf:
    if e['status']=='fixed':
        fix_props.setdefault(e['commit'],[])
        if e['property'] not in fix_props[e['commit']]: fix_props[e['commit']].append(e['property'])
jobs=[]
for sha,props in fix_props.items(): jobs.append(('revert',sha,props))
for d in sorted(glob.glob(f'{V}/seeded/C*')):
    if not os.path.exists(d+'/patch.diff'): continue   # superseded by a later fix
    m=json.load(open(d+'/meta.json')); jobs.append(('seed',d,[m['breaks_property']]))
extra={'C02b':['C12'],'C13b':['C12'],'C10b':['C04'],'C01b':['C05'],'C02d':['C01'],'C01d':['C11'],'C10c':['C07'],'C08f':['C17'],'C08g':['C14'],'C10e':['C18'],'C18g':['C05']}
for m in json.load(open(f'{V}/mutants/INDEX.json')):
    if m['file'].startswith('own-'): jobs.append(('mutant',f"{V}/mutants/{m['file']}",m['property']))
only=set(sys.argv[1:])
keep_manual=glob.glob(f'{V}/regress/C08/manual-*.json')
manual={os.path.basename(f):open(f).read() for f in keep_manual}
if only:
    for c in only:
        for f in glob.glob(f'{V}/regress/{c}/*.json'):
            if not os.path.basename(f).startswith('manual-'): os.remove(f)
else:
    shutil.rmtree(f'{V}/regress',ignore_errors=True)
os.makedirs(f'{V}/regress/C08',exist_ok=True)
for n,t in manual.items(): open(f'{V}/regress/C08/{n}','w').write(t)
seen=set()
clean_repo()
for kind,what,props in jobs:
    if kind=='revert':
        r=sh(f'git show {what} | git apply -R','/repo')
        if r.returncode!=0 and os.path.exists(f'{V}/mutants/revert-{what}.diff'):
            # a later fix touched the same hunks: use the hand-made equivalent of the revert
            sh('git reset -q --hard HEAD','/repo')
            r=sh(f'git apply {V}/mutants/revert-{what}.diff','/repo')
        label=f'revert-{what}'
    elif kind=='mutant':
        r=sh(f'git apply {what}','/repo')
        label='mutant-'+os.path.basename(what)[:-5]
    else:
        r=sh(f'git apply {what}/patch.diff','/repo')
        label='seed-'+os.path.basename(what)
        props=props+extra.get(os.path.basename(what),[])
    if r.returncode!=0:
        print('SKIP (does not apply)',label); clean_repo(); continue
    for c in props:
        if only and c not in only: continue
        n=0
        for seed in (1,2):
            shutil.rmtree(f'{V}/replays',ignore_errors=True)
            sh(f'VERIF_SEED={seed} ./check {c} quick',V)
            for f in sorted(glob.glob(f'{V}/replays/{c}-*.json')):
                d=json.load(open(f))
                fl=d['failure']
                if any(t.startswith('regress_file=') or t.startswith('regression_of=') for t in fl['tags']): continue
                key=(c,d['check'],fl['kind'],tuple(t for t in fl['tags'] if not t.startswith(('ident=','name=','files=','types=','cmd_files=','events=','mappings='))))
                if key in seen: continue
                seen.add(key)
                d['origin']=label
                os.makedirs(f'{V}/regress/{c}',exist_ok=True)
                json.dump(d,open(f'{V}/regress/{c}/{label}-{os.path.basename(f)}','w'),indent=1,ensure_ascii=False)
                n+=1
        print(label,c,'new regress cases:',n,flush=True)
    clean_repo()
shutil.rmtree(f'{V}/replays',ignore_errors=True)
print('total',len(glob.glob(f'{V}/regress/*/*.json')))
