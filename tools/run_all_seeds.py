#!/usr/bin/env python3
"""Apply every seeded change (seeded/*/patch.diff) and every own mutant (mutants/INDEX.json) to
/repo in turn, run the quick tier of the check(s) named in its meta (`detected_by`), record whether a
VIOLATION for that property is printed, restore /repo. Writes seeded/RESULTS.json.
Never run while other checks are running (the patch is applied to /repo's working tree)."""
import json, glob, os, re, subprocess, sys, time
V='/verif'
def sh(cmd, cwd=None): return subprocess.run(cmd, shell=True, cwd=cwd, capture_output=True, text=True)
assert sh('git status --short','/repo').stdout.strip()=='', '/repo is dirty'
only=set(sys.argv[1:])
jobs=[]
for d in sorted(glob.glob(f'{V}/seeded/C*')):
    if not os.path.exists(d+'/patch.diff'): continue   # superseded by a later fix (see meta.json)
    m=json.load(open(d+'/meta.json'))
    checks=re.findall(r'C\d\d', m.get('detected_by','')) or [m['breaks_property']]
    own=m['breaks_property']
    if own not in checks: checks.append(own)
    jobs.append((os.path.basename(d), d+'/patch.diff', own, checks))
for m in json.load(open(f'{V}/mutants/INDEX.json')):
    jobs.append((m['file'][:-5], f"{V}/mutants/{m['file']}", m['property'][0], m['property']))
res=[]
for name,patch,own,checks in jobs:
    if only and name not in only: continue
    r=sh(f'git apply {patch}','/repo')
    if r.returncode!=0:
        res.append({'id':name,'applies':False}); print(name,'DOES NOT APPLY'); sh('git checkout -- .','/repo'); continue
    row={'id':name,'applies':True,'property':own,'checks':{}}
    try:
        for c in checks:
            t=time.time()
            out=sh(f'./check {c} quick',V).stdout
            v=[l for l in out.splitlines() if l.startswith(f'VIOLATION property={c}')]
            first=''
            for i,l in enumerate(out.splitlines()):
                if l.startswith('VIOLATION'):
                    first=' '.join(out.splitlines()[i+1:i+2]).strip()[:200]; break
            row['checks'][c]={'violations':len(v),'first':first,'wall_s':round(time.time()-t,1)}
    finally:
        sh('git checkout -- .','/repo')
    row['caught_by']=[c for c,x in row['checks'].items() if x['violations']>0]
    row['caught_by_owning_check']= own in row['caught_by']
    res.append(row)
    print(name, 'caught by', row['caught_by'] or 'NOTHING', flush=True)
if not only:
    json.dump({'repo_head':sh('git rev-parse --short HEAD','/repo').stdout.strip(),'results':res},open(f'{V}/seeded/RESULTS.json','w'),indent=1)
missed=[r['id'] for r in res if r.get('applies') and not r['caught_by']]
print('total',len(res),'missed',missed)
