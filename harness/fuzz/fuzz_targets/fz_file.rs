#![no_main]
// bytes -> one UTF-8 .rs file -> generate_from_config in both modes; a panic is a crash.
use libfuzzer_sys::fuzz_target;
mod common;

fuzz_target!(|data: &[u8]| {
    let Ok(text) = std::str::from_utf8(data) else { return };
    if common::too_deep(text) {
        return;
    }
    let files = vec![("src/lib.rs".to_string(), text.to_string())];
    common::guarded(|| {
        for mode in ["none", "zod"] {
            let dir = ttgv::tool::fresh_dir("fz");
            ttgv::tool::write_project(&dir.join("proj"), &files);
            let cfg = ttgv::tool::make_config(&dir.join("proj"), &dir.join("out"), &ttgv::tool::Cfg::mode(mode));
            let _ = tauri_typegen::generate_from_config(&cfg);
            let _ = std::fs::remove_dir_all(&dir);
        }
    });
});
