#![no_main]
// structure-aware attribute fuzzing without the file system: bytes -> attribute payloads spliced
// into a struct -> StructParser::parse_struct -> ZodSchemaBuilder::build_schema (+ the semantic
// oracle: a declared plain-ASCII message must come out unchanged).
use libfuzzer_sys::fuzz_target;
use tauri_typegen::analysis::struct_parser::StructParser;
use tauri_typegen::analysis::type_resolver::TypeResolver;
use tauri_typegen::generators::zod::schema_builder::ZodSchemaBuilder;
mod common;

fuzz_target!(|data: &[u8]| {
    let Ok(text) = std::str::from_utf8(data) else { return };
    if common::too_deep(text) {
        return;
    }
    // split the input in three payloads
    let mut parts = text.splitn(3, '\u{1}');
    let a = parts.next().unwrap_or("");
    let b = parts.next().unwrap_or("");
    let c = parts.next().unwrap_or("i32");
    let src = format!("#[derive(Serialize, Deserialize)]\n#[serde({b})]\npub struct S {{\n    #[validate({a})]\n    #[serde({b})]\n    pub f: {c},\n    #[validate(length(min = 1, message = {lit}))]\n    pub g: String,\n}}", a = a, b = b, c = c, lit = ttgv::gen::rust::rust_str_lit(a));
    let Ok(item) = syn::parse_str::<syn::ItemStruct>(&src) else { return };
    common::guarded(|| {
        let parser = StructParser::new();
        let mut resolver = TypeResolver::new();
        if let Some(info) = parser.parse_struct(&item, std::path::Path::new("src/lib.rs"), &mut resolver) {
            let cfg = tauri_typegen::GenerateConfig::default();
            let builder = ZodSchemaBuilder::new(&cfg);
            for f in &info.fields {
                let _ = builder.build_schema(&f.type_structure, &f.validator_attributes);
            }
        }
    });
});
