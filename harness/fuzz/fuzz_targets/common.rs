// shared by the fuzz targets: run code under test, tolerate allow-listed (known) panic sites so
// that a campaign continues past them, abort on anything else.
use std::sync::Once;
static INIT: Once = Once::new();

pub fn allowed_sites() -> Vec<String> {
    std::env::var("TTGV_FUZZ_ALLOW").unwrap_or_default().split(',').filter(|s| !s.is_empty()).map(String::from).collect()
}

pub fn guarded(f: impl FnOnce()) {
    INIT.call_once(|| {
        // keep libFuzzer's own abort-on-panic hook out of the way: we decide below
        std::panic::set_hook(Box::new(|_| {}));
    });
    match ttgv::tool::guarded(f) {
        Ok(()) => {}
        Err(p) => {
            let site = p.rsplit(" at ").next().unwrap_or("").rsplit('/').next().unwrap_or("").to_string();
            if allowed_sites().iter().any(|a| *a == site) {
                return; // known finding: skip, the campaign goes on
            }
            eprintln!("PANIC in code under test: {}", p);
            std::process::abort();
        }
    }
}

/// Inputs whose nesting would exhaust the stack of the *instrumented* build (ASan frames are
/// several times larger than those of the shipped binary) inside syn's recursive-descent parser:
/// a run of more than 48 nesting-introducing characters (`||||…`, `((((…`, `!!!!…`). The shipped
/// binary parses such input; the campaign skips it so that it is not ended by its own build.
#[allow(dead_code)]
pub fn too_deep(text: &str) -> bool {
    let mut run = 0usize;
    for c in text.chars() {
        if matches!(c, '|' | '(' | '[' | '{' | '<' | '!' | '&' | '*' | '-' | '~') || c.is_whitespace() && run > 0 {
            if !c.is_whitespace() {
                run += 1;
            }
            if run > 48 {
                return true;
            }
        } else {
            run = 0;
        }
    }
    false
}
