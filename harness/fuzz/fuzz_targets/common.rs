// shared by the fuzz targets: run code under test, tolerate allow-listed (known) panic sites so
// that a campaign continues past them, abort on anything else.
use std::sync::Once;
static INIT: Once = Once::new();

pub fn allowed_sites() -> Vec<String> {
    std::env::var("TTGV_FUZZ_ALLOW").unwrap_or_default().split(',').filter(|s| !s.is_empty()).map(String::from).collect()
}

pub fn guarded(f: impl FnOnce()) {
    INIT.call_once(|| {
        // keep libFuzzer's own abort-on-panic hook out of the way: we decide below
        std::panic::set_hook(Box::new(|_| {}));
    });
    match ttgv::tool::guarded(f) {
        Ok(()) => {}
        Err(p) => {
            let site = p.rsplit(" at ").next().unwrap_or("").rsplit('/').next().unwrap_or("").to_string();
            if allowed_sites().iter().any(|a| *a == site) {
                return; // known finding: skip, the campaign goes on
            }
            eprintln!("PANIC in code under test: {}", p);
            std::process::abort();
        }
    }
}
