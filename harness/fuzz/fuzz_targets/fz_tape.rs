#![no_main]
// coverage-guided drive of the structured project generator: bytes are read as a choice tape,
// the C01 oracle (every generated file parses) runs inside the target.
use libfuzzer_sys::fuzz_target;
mod common;

fuzz_target!(|data: &[u8]| {
    let mut tape = ttgv::tape::Tape::from_bytes(data);
    let mut avoided = 0;
    let strict = std::env::var("TTGV_FUZZ_STRICT").is_ok();
    let proj = ttgv::gen::project::random_project(&mut tape, !strict, &mut avoided);
    common::guarded(|| {
        let mut stats = ttgv::run::Stats::default();
        let fails = ttgv::props::c01::check_project(&proj, &mut stats);
        if let Some(f) = fails.first() {
            if strict {
                eprintln!("C01 failure: {} {:?}\n{}", f.kind, f.tags, f.observed);
                std::process::abort();
            }
        }
    });
});
