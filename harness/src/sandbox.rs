//! Sandboxes for the process-level checks (C08, C13, C14, C16, C17, C19): directory snapshots and
//! diffs, declaration maps of generated files, and a few ready-made projects.

use crate::tsx;
use std::collections::BTreeMap;
use std::os::unix::fs::MetadataExt;
use std::path::{Path, PathBuf};

#[derive(Clone, Debug, PartialEq, Eq)]
pub enum Entry {
    Dir,
    /// content hash, length, mtime (ns), inode
    File { hash: u64, len: u64, mtime_ns: i128, ino: u64 },
    Symlink(String),
    Other,
}

impl Entry {
    /// same kind and same content (mtime / inode ignored)
    pub fn same_content(&self, other: &Entry) -> bool {
        match (self, other) {
            (Entry::File { hash: a, len: la, .. }, Entry::File { hash: b, len: lb, .. }) => a == b && la == lb,
            (a, b) => a == b,
        }
    }
}

pub type Snapshot = BTreeMap<String, Entry>;

fn hash_bytes(b: &[u8]) -> u64 {
    crate::run::stable_hash(&b)
}

/// recursive snapshot of `root` (paths relative to it); symlinks are not followed
pub fn snapshot(root: &Path) -> Snapshot {
    let mut out = Snapshot::new();
    fn walk(root: &Path, dir: &Path, out: &mut Snapshot) {
        let Ok(rd) = std::fs::read_dir(dir) else { return };
        for e in rd.flatten() {
            let p = e.path();
            let rel = p.strip_prefix(root).unwrap().to_string_lossy().to_string();
            let Ok(md) = std::fs::symlink_metadata(&p) else { continue };
            let ft = md.file_type();
            if ft.is_symlink() {
                out.insert(rel, Entry::Symlink(std::fs::read_link(&p).map(|t| t.to_string_lossy().to_string()).unwrap_or_default()));
            } else if ft.is_dir() {
                out.insert(rel, Entry::Dir);
                walk(root, &p, out);
            } else if ft.is_file() {
                let bytes = std::fs::read(&p).unwrap_or_default();
                out.insert(rel, Entry::File { hash: hash_bytes(&bytes), len: md.len(), mtime_ns: md.mtime() as i128 * 1_000_000_000 + md.mtime_nsec() as i128, ino: md.ino() });
            } else {
                out.insert(rel, Entry::Other);
            }
        }
    }
    walk(root, root, &mut out);
    out
}

#[derive(Clone, Debug, PartialEq, Eq)]
pub enum Change {
    Created(String),
    Deleted(String),
    /// content or kind changed
    Modified(String),
    /// same bytes, but rewritten (mtime or inode differs)
    Touched(String),
}

impl Change {
    pub fn path(&self) -> &str {
        match self {
            Change::Created(p) | Change::Deleted(p) | Change::Modified(p) | Change::Touched(p) => p,
        }
    }
}

pub fn diff(before: &Snapshot, after: &Snapshot) -> Vec<Change> {
    let mut out = vec![];
    for (p, a) in after {
        match before.get(p) {
            None => out.push(Change::Created(p.clone())),
            Some(b) => {
                if !a.same_content(b) {
                    out.push(Change::Modified(p.clone()));
                } else if a != b {
                    out.push(Change::Touched(p.clone()));
                }
            }
        }
    }
    for p in before.keys() {
        if !after.contains_key(p) {
            out.push(Change::Deleted(p.clone()));
        }
    }
    out
}

/// The reserved generated-file predicate quoted in property C16.
pub fn is_reserved_generated_name(name: &str) -> bool {
    const EXACT: &[&str] = &[
        "types.ts", "types.d.ts", "commands.ts", "commands.d.ts", "events.ts", "events.d.ts", "index.ts", "index.d.ts", "schemas.ts", "schemas.d.ts", "models.ts", "models.d.ts", "bindings.ts",
        "bindings.d.ts", ".typecache", "dependency-graph.txt", "dependency-graph.dot",
    ];
    EXACT.contains(&name) || name.starts_with("generated_") || name.contains("_generated")
}

/// `(kind, name) -> canonical text` of the top-level declarations of a generated file; the
/// header comment (with its timestamp) is not a declaration and is therefore ignored.
pub fn declaration_map(src: &str) -> BTreeMap<String, String> {
    use crate::ts::ast::Item;
    let p = tsx::parse(src);
    let mut out = BTreeMap::new();
    let mut anon = 0;
    // An item's span runs up to the next token, i.e. it ends with the comments that *precede the
    // next declaration* (its JSDoc). Those belong to the next declaration: cut them off and put
    // them in front of the following item, otherwise the text of a declaration would depend on
    // which declaration happens to follow it.
    let mut leading = String::new();
    for it in &p.module.items {
        let (code, trailing) = split_trailing_comments(&src[it.start..it.end.min(src.len())]);
        let text = tsx::collapse_ws(&format!("{} {}", leading, code));
        leading = trailing.to_string();
        let key = match &it.item {
            Item::Import { from, .. } => format!("import:{}:{}", from, text),
            Item::ExportAll { from } => format!("export*:{}", from),
            Item::ExportNamed { .. } => format!("export-named:{}", text),
            Item::Interface(i) => format!("interface:{}", i.name),
            Item::TypeAlias { name, .. } => format!("type:{}", name),
            Item::Const { name, .. } => format!("const:{}", name),
            Item::Function(f) => format!("function:{}", f.name),
            Item::Stmt(_) => {
                anon += 1;
                format!("stmt:{}", anon)
            }
        };
        // a name declared twice keeps both texts
        let mut k = key.clone();
        let mut n = 1;
        while out.contains_key(&k) {
            n += 1;
            k = format!("{}#{}", key, n);
        }
        out.insert(k, strip_block_comments(&text));
    }
    // regions that did not parse are kept verbatim (collapsed), keyed by their error position
    for (i, e) in p.module.errors.iter().enumerate() {
        let line = src.lines().nth(e.line.saturating_sub(1)).unwrap_or("");
        out.insert(format!("unparsed:{}", i), tsx::collapse_ws(line));
    }
    out
}

/// split `raw` into (code, comments that follow the code up to the end of `raw`)
fn split_trailing_comments(raw: &str) -> (&str, &str) {
    let mut end = raw.len();
    loop {
        let t = raw[..end].trim_end();
        if t.ends_with("*/") {
            if let Some(i) = t.rfind("/*") {
                end = i;
                continue;
            }
        }
        let line_start = t.rfind('\n').map(|i| i + 1).unwrap_or(0);
        if line_start > 0 && t[line_start..].trim_start().starts_with("//") {
            end = line_start;
            continue;
        }
        break;
    }
    (raw[..end].trim_end(), raw[end..].trim())
}

fn strip_block_comments(s: &str) -> String {
    // JSDoc blocks sit between declarations and inside interfaces; they carry no timestamp
    // except in the file header, which is not part of any declaration. Keep them.
    s.to_string()
}

/// compare two generated directories: every file in `reference` must exist in `actual` with the
/// same declaration map. Returns human-readable differences.
pub fn compare_generated(reference: &BTreeMap<String, String>, actual: &BTreeMap<String, String>) -> Vec<String> {
    let mut out = vec![];
    for (name, rtext) in reference {
        if name == ".typecache" || name.starts_with("dependency-graph.") {
            if !actual.contains_key(name) && name.starts_with("dependency-graph.") {
                out.push(format!("{}: missing", name));
            }
            continue;
        }
        match actual.get(name) {
            None => out.push(format!("{}: missing", name)),
            Some(atext) => {
                if !name.ends_with(".ts") {
                    continue;
                }
                let rm = declaration_map(rtext);
                let am = declaration_map(atext);
                if rm != am {
                    for (k, v) in &rm {
                        match am.get(k) {
                            None => out.push(format!("{}: declaration {} missing", name, k)),
                            Some(av) if av != v => out.push(format!("{}: declaration {} differs: current sources give `{}`, output has `{}`", name, k, window_at_difference(v, av), window_at_difference(av, v))),
                            _ => {}
                        }
                    }
                    for k in am.keys() {
                        if !rm.contains_key(k) {
                            out.push(format!("{}: stale declaration {}", name, k));
                        }
                    }
                }
            }
        }
    }
    out
}

/// the part of `a` around the first position where it differs from `b` (long declarations start
/// with a JSDoc block that would otherwise fill the message)
pub fn window_at_difference(a: &str, b: &str) -> String {
    let ac: Vec<char> = a.chars().collect();
    let common = ac.iter().zip(b.chars()).take_while(|(x, y)| **x == *y).count();
    if ac.len() <= 200 {
        return a.to_string();
    }
    let from = common.saturating_sub(70);
    let to = (common + 130).min(ac.len());
    format!("{}{}{}", if from > 0 { "…" } else { "" }, ac[from..to].iter().collect::<String>(), if to < ac.len() { "…" } else { "" })
}

pub fn read_tree_text(dir: &Path) -> BTreeMap<String, String> {
    crate::tool::read_dir_files(dir)
}

/// A small but complete project: 2 files, 3 commands, struct + enum, one event, one channel,
/// one validator. Used as the base of histories.
pub fn base_project() -> Vec<(String, String)> {
    let lib = r#"use serde::{Deserialize, Serialize};
use tauri::ipc::Channel;
use tauri::{AppHandle, Emitter};
use validator::Validate;

mod models;
use models::*;

#[tauri::command]
pub fn get_user(id: i32) -> Result<User, String> {
    todo!()
}

#[tauri::command]
pub async fn save_user(app: AppHandle, user: User, notify: Option<bool>) -> Result<(), String> {
    app.emit("user-saved", &user).unwrap();
    Ok(())
}

#[tauri::command]
pub fn watch(on_progress: Channel<Progress>, kind: Kind) {}
"#;
    let models = r#"use serde::{Deserialize, Serialize};
use validator::Validate;

#[derive(Debug, Clone, Serialize, Deserialize, Validate)]
pub struct User {
    pub id: i32,
    #[validate(length(min = 1, max = 50))]
    pub name: String,
    pub kind: Kind,
    pub tags: Vec<String>,
}

#[derive(Debug, Clone, Serialize, Deserialize)]
pub enum Kind {
    Admin,
    Guest,
}

#[derive(Debug, Clone, Serialize, Deserialize)]
pub struct Progress {
    pub done: u32,
    pub total: u32,
}
"#;
    vec![("src/lib.rs".to_string(), lib.to_string()), ("src/models.rs".to_string(), models.to_string())]
}

/// Layout used by the build-script path: `<root>/src-tauri/{tauri.conf.json,src/…}`; the driver
/// is run with cwd = `<root>/src-tauri`, as cargo runs a build script.
pub struct BuildLayout {
    pub root: PathBuf,
    pub src_tauri: PathBuf,
    pub out_dir: PathBuf,
}

pub fn make_build_layout(root: &Path, files: &[(String, String)], mode: &str, force: bool) -> BuildLayout {
    let src_tauri = root.join("src-tauri");
    std::fs::create_dir_all(&src_tauri).unwrap();
    crate::tool::write_project(&src_tauri, files);
    let conf = serde_json::json!({
        "productName": "app",
        "plugins": { "typegen": { "projectPath": ".", "outputPath": "../src/generated", "validationLibrary": mode, "force": force } }
    });
    std::fs::write(src_tauri.join("tauri.conf.json"), serde_json::to_string_pretty(&conf).unwrap()).unwrap();
    BuildLayout { root: root.to_path_buf(), src_tauri: src_tauri.clone(), out_dir: root.join("src").join("generated") }
}
