//! Model of Zod schemas (a generous slice of the Zod 4 API): structure, inferred type, and a
//! small interpreter `parse(value)` over JSON-plus-undefined values.
//! Anything outside the slice is `Unmodelled` (exit 2), never a violation.

use crate::ts::ast::{ArrowBody, Expr, Key, Prop, Type};
use crate::ts::shape::{normalise, Shape};
use std::collections::BTreeMap;

#[derive(Clone, Debug, PartialEq)]
pub struct Check {
    /// min, max, length, nonempty, email, url, int, positive, …
    pub name: String,
    /// numeric argument as written (`-5`, `1e3`, `18446744073709551615`)
    pub value: Option<String>,
    /// `{ message: "…" }` or a bare string argument
    pub message: Option<String>,
}

#[derive(Clone, Debug, PartialEq)]
pub enum Z {
    String { checks: Vec<Check>, coerce: bool },
    Number { checks: Vec<Check>, coerce: bool },
    Boolean { coerce: bool },
    Void,
    Null,
    Undefined,
    Any,
    Unknown,
    Never,
    Literal(Expr),
    Enum(Vec<String>),
    Array { inner: Box<Z>, checks: Vec<Check> },
    Set(Box<Z>),
    Map(Box<Z>, Box<Z>),
    Record(Box<Z>, Box<Z>),
    Tuple(Vec<Z>),
    Object(Vec<(String, Z)>),
    Union(Vec<Z>),
    Inter(Box<Z>, Box<Z>),
    Optional(Box<Z>),
    Nullable(Box<Z>),
    /// reference to another schema constant (`UserSchema`, `types.UserSchema`)
    Ref(String),
    Custom(Option<Type>),
    Lazy(Box<Z>),
}

#[derive(Debug, Clone)]
pub enum ZErr {
    Unmodelled(String),
    /// not a schema expression at all
    NotSchema(String),
}

impl std::fmt::Display for ZErr {
    fn fmt(&self, f: &mut std::fmt::Formatter<'_>) -> std::fmt::Result {
        match self {
            ZErr::Unmodelled(s) => write!(f, "outside the modelled Zod API: {}", s),
            ZErr::NotSchema(s) => write!(f, "not a Zod schema expression: {}", s),
        }
    }
}

fn num_text(e: &Expr) -> Option<String> {
    match e {
        Expr::Num(s) => Some(s.clone()),
        Expr::Unary { op: "-", expr } => num_text(expr).map(|s| format!("-{}", s)),
        Expr::Unary { op: "+", expr } => num_text(expr),
        Expr::Paren(i) => num_text(i),
        Expr::Ident(n) if n == "Infinity" => Some("Infinity".into()),
        Expr::Ident(n) if n == "NaN" => Some("NaN".into()),
        _ => None,
    }
}

fn message_of(e: &Expr) -> Option<String> {
    match e {
        Expr::Str(s) => Some(s.clone()),
        Expr::Object(props) => props.iter().find_map(|p| match p {
            Prop::KeyValue(k, Expr::Str(s)) if matches!(k.name().as_str(), "message" | "error") => Some(s.clone()),
            _ => None,
        }),
        _ => None,
    }
}

fn is_z(e: &Expr) -> bool {
    matches!(e, Expr::Ident(n) if n == "z")
}

pub fn from_expr(e: &Expr) -> Result<Z, ZErr> {
    match e {
        Expr::Paren(i) => from_expr(i),
        Expr::Ident(n) => Ok(Z::Ref(n.clone())),
        Expr::Member { obj, prop, .. } if matches!(&**obj, Expr::Ident(ns) if ns == "types") => Ok(Z::Ref(prop.clone())),
        Expr::Call { callee, args, type_args, .. } => {
            let Expr::Member { obj, prop, .. } = &**callee else {
                return Err(ZErr::NotSchema(format!("{:?}", callee)));
            };
            // constructors: z.x(...) and z.coerce.x(...)
            if is_z(obj) {
                return ctor(prop, args, type_args, false);
            }
            if let Expr::Member { obj: o2, prop: p2, .. } = &**obj {
                if is_z(o2) && p2 == "coerce" {
                    return ctor(prop, args, type_args, true);
                }
            }
            // methods
            let base = from_expr(obj)?;
            method(base, prop, args)
        }
        other => Err(ZErr::NotSchema(format!("{:?}", other))),
    }
}

fn ctor(name: &str, args: &[Expr], type_args: &[Type], coerce: bool) -> Result<Z, ZErr> {
    let arg = |i: usize| -> Result<Z, ZErr> { args.get(i).ok_or_else(|| ZErr::NotSchema(format!("z.{} needs argument {}", name, i))).and_then(from_expr) };
    Ok(match name {
        "string" => Z::String { checks: vec![], coerce },
        "number" => Z::Number { checks: vec![], coerce },
        "boolean" => Z::Boolean { coerce },
        "void" => Z::Void,
        "null" => Z::Null,
        "undefined" => Z::Undefined,
        "any" => Z::Any,
        "unknown" => Z::Unknown,
        "never" => Z::Never,
        "int" => Z::Number { checks: vec![Check { name: "int".into(), value: None, message: None }], coerce },
        "email" => Z::String { checks: vec![Check { name: "email".into(), value: None, message: args.first().and_then(message_of) }], coerce },
        "url" => Z::String { checks: vec![Check { name: "url".into(), value: None, message: args.first().and_then(message_of) }], coerce },
        "literal" => Z::Literal(args.first().cloned().unwrap_or(Expr::Null)),
        "enum" => match args.first() {
            Some(Expr::Array(items)) => {
                let mut v = vec![];
                for it in items {
                    match it {
                        Expr::Str(s) => v.push(s.clone()),
                        _ => return Err(ZErr::Unmodelled("z.enum with non-string member".into())),
                    }
                }
                Z::Enum(v)
            }
            _ => return Err(ZErr::Unmodelled("z.enum with a non-array argument".into())),
        },
        "array" => Z::Array { inner: Box::new(arg(0)?), checks: vec![] },
        "set" => Z::Set(Box::new(arg(0)?)),
        "map" => Z::Map(Box::new(arg(0)?), Box::new(arg(1)?)),
        "record" => {
            if args.len() >= 2 {
                Z::Record(Box::new(arg(0)?), Box::new(arg(1)?))
            } else {
                Z::Record(Box::new(Z::String { checks: vec![], coerce: false }), Box::new(arg(0)?))
            }
        }
        "tuple" => match args.first() {
            Some(Expr::Array(items)) => Z::Tuple(items.iter().map(from_expr).collect::<Result<_, _>>()?),
            _ => return Err(ZErr::Unmodelled("z.tuple with a non-array argument".into())),
        },
        "union" => match args.first() {
            Some(Expr::Array(items)) => Z::Union(items.iter().map(from_expr).collect::<Result<_, _>>()?),
            _ => return Err(ZErr::Unmodelled("z.union with a non-array argument".into())),
        },
        "object" | "strictObject" | "looseObject" => match args.first() {
            Some(Expr::Object(props)) => {
                let mut fields = vec![];
                for p in props {
                    match p {
                        Prop::KeyValue(k, v) => {
                            if matches!(k, Key::Computed) {
                                return Err(ZErr::Unmodelled("computed key in z.object".into()));
                            }
                            fields.push((k.name(), from_expr(v)?));
                        }
                        Prop::Shorthand(n) => fields.push((n.clone(), Z::Ref(n.clone()))),
                        Prop::Spread(_) => return Err(ZErr::Unmodelled("spread in z.object".into())),
                    }
                }
                Z::Object(fields)
            }
            _ => return Err(ZErr::Unmodelled("z.object with a non-literal argument".into())),
        },
        "custom" => Z::Custom(type_args.first().cloned()),
        "lazy" => match args.first() {
            Some(Expr::Arrow { body: ArrowBody::Expr(b), .. }) => Z::Lazy(Box::new(from_expr(b)?)),
            _ => return Err(ZErr::Unmodelled("z.lazy with a non-arrow argument".into())),
        },
        "optional" => Z::Optional(Box::new(arg(0)?)),
        "nullable" => Z::Nullable(Box::new(arg(0)?)),
        other => return Err(ZErr::Unmodelled(format!("z.{}", other))),
    })
}

fn add_check(base: Z, c: Check) -> Result<Z, ZErr> {
    Ok(match base {
        Z::String { mut checks, coerce } => {
            checks.push(c);
            Z::String { checks, coerce }
        }
        Z::Number { mut checks, coerce } => {
            checks.push(c);
            Z::Number { checks, coerce }
        }
        Z::Array { inner, mut checks } => {
            checks.push(c);
            Z::Array { inner, checks }
        }
        other => return Err(ZErr::Unmodelled(format!("check .{}() on {:?}", c.name, kind_name(&other)))),
    })
}

pub fn kind_name(z: &Z) -> &'static str {
    match z {
        Z::String { .. } => "string",
        Z::Number { .. } => "number",
        Z::Boolean { .. } => "boolean",
        Z::Void => "void",
        Z::Null => "null",
        Z::Undefined => "undefined",
        Z::Any => "any",
        Z::Unknown => "unknown",
        Z::Never => "never",
        Z::Literal(_) => "literal",
        Z::Enum(_) => "enum",
        Z::Array { .. } => "array",
        Z::Set(_) => "set",
        Z::Map(..) => "map",
        Z::Record(..) => "record",
        Z::Tuple(_) => "tuple",
        Z::Object(_) => "object",
        Z::Union(_) => "union",
        Z::Inter(..) => "intersection",
        Z::Optional(_) => "optional",
        Z::Nullable(_) => "nullable",
        Z::Ref(_) => "ref",
        Z::Custom(_) => "custom",
        Z::Lazy(_) => "lazy",
    }
}

fn method(base: Z, name: &str, args: &[Expr]) -> Result<Z, ZErr> {
    Ok(match name {
        "optional" => Z::Optional(Box::new(base)),
        "nullable" => Z::Nullable(Box::new(base)),
        "nullish" => Z::Optional(Box::new(Z::Nullable(Box::new(base)))),
        "or" => {
            let other = from_expr(args.first().ok_or_else(|| ZErr::NotSchema(".or() without argument".into()))?)?;
            match base {
                Z::Union(mut v) => {
                    v.push(other);
                    Z::Union(v)
                }
                b => Z::Union(vec![b, other]),
            }
        }
        "and" => {
            let other = from_expr(args.first().ok_or_else(|| ZErr::NotSchema(".and() without argument".into()))?)?;
            Z::Inter(Box::new(base), Box::new(other))
        }
        "array" => Z::Array { inner: Box::new(base), checks: vec![] },
        "min" | "max" | "length" | "gt" | "gte" | "lt" | "lte" | "multipleOf" | "step" => {
            let value = args.first().and_then(num_text);
            if value.is_none() {
                return Err(ZErr::Unmodelled(format!(".{}() with a non-numeric argument", name)));
            }
            add_check(base, Check { name: name.into(), value, message: args.get(1).and_then(message_of) })?
        }
        "nonempty" | "email" | "url" | "uuid" | "int" | "positive" | "negative" | "nonnegative" | "nonpositive" | "finite" | "safe" | "trim" | "toLowerCase" | "toUpperCase" | "datetime" | "regex" | "startsWith"
        | "endsWith" | "includes" => add_check(base, Check { name: name.into(), value: None, message: args.first().and_then(message_of) })?,
        "passthrough" | "strict" | "strip" | "loose" | "describe" | "readonly" | "brand" | "meta" => base,
        other => return Err(ZErr::Unmodelled(format!(".{}()", other))),
    })
}

/// `z.infer<typeof S>` as a shape. `Ref("XSchema")` becomes `Ref("X")`.
pub fn infer(z: &Z) -> Shape {
    match z {
        Z::String { .. } => Shape::Str,
        Z::Number { .. } => Shape::Num,
        Z::Boolean { .. } => Shape::Bool,
        Z::Void => Shape::Void,
        Z::Null => Shape::Null,
        Z::Undefined => Shape::Undefined,
        Z::Any => Shape::Any,
        Z::Unknown => Shape::Unknown,
        Z::Never => Shape::Never,
        Z::Literal(e) => match e {
            Expr::Str(s) => Shape::Lit(s.clone()),
            Expr::Num(n) => Shape::NumLit(n.clone()),
            Expr::Bool(b) => Shape::BoolLit(*b),
            Expr::Null => Shape::Null,
            _ => Shape::Other("literal".into()),
        },
        Z::Enum(v) => Shape::union(v.iter().map(|s| Shape::Lit(s.clone()))),
        Z::Array { inner, .. } => Shape::arr(infer(inner)),
        Z::Set(i) => Shape::JsSet(Box::new(infer(i))),
        Z::Map(k, v) => Shape::JsMap(Box::new(infer(k)), Box::new(infer(v))),
        Z::Record(k, v) => Shape::rec(infer(k), infer(v)),
        Z::Tuple(v) => Shape::Tuple(v.iter().map(infer).collect()),
        Z::Object(fields) => {
            let mut m = BTreeMap::new();
            for (k, s) in fields {
                let opt = accepts_undefined(s);
                m.insert(k.clone(), (opt, infer(s)));
            }
            Shape::Obj(m)
        }
        Z::Union(v) => Shape::union(v.iter().map(infer)),
        Z::Inter(a, b) => Shape::Inter(vec![infer(a), infer(b)]),
        Z::Optional(i) => Shape::union([infer(i), Shape::Undefined]),
        Z::Nullable(i) => Shape::union([infer(i), Shape::Null]),
        Z::Ref(n) => Shape::Ref(n.strip_suffix("Schema").unwrap_or(n).to_string()),
        Z::Custom(Some(t)) => normalise(t),
        Z::Custom(None) => Shape::Any,
        Z::Lazy(i) => infer(i),
    }
}

pub fn accepts_undefined(z: &Z) -> bool {
    match z {
        Z::Optional(_) | Z::Undefined | Z::Any | Z::Unknown | Z::Void => true,
        Z::Nullable(i) | Z::Lazy(i) => accepts_undefined(i),
        Z::Union(v) => v.iter().any(accepts_undefined),
        _ => false,
    }
}

pub fn refs(z: &Z, out: &mut Vec<String>) {
    match z {
        Z::Ref(n) => out.push(n.clone()),
        Z::Array { inner, .. } | Z::Set(inner) | Z::Optional(inner) | Z::Nullable(inner) | Z::Lazy(inner) => refs(inner, out),
        Z::Map(a, b) | Z::Record(a, b) | Z::Inter(a, b) => {
            refs(a, out);
            refs(b, out);
        }
        Z::Tuple(v) | Z::Union(v) => v.iter().for_each(|x| refs(x, out)),
        Z::Object(f) => f.iter().for_each(|(_, x)| refs(x, out)),
        _ => {}
    }
}

/// eagerly evaluated references (everything except what sits under z.lazy)
pub fn eager_refs(z: &Z, out: &mut Vec<String>) {
    match z {
        Z::Lazy(_) => {}
        Z::Ref(n) => out.push(n.clone()),
        Z::Array { inner, .. } | Z::Set(inner) | Z::Optional(inner) | Z::Nullable(inner) => eager_refs(inner, out),
        Z::Map(a, b) | Z::Record(a, b) | Z::Inter(a, b) => {
            eager_refs(a, out);
            eager_refs(b, out);
        }
        Z::Tuple(v) | Z::Union(v) => v.iter().for_each(|x| eager_refs(x, out)),
        Z::Object(f) => f.iter().for_each(|(_, x)| eager_refs(x, out)),
        _ => {}
    }
}

// ------------------------------------------------------------------------------------------
// values: JSON plus `undefined`, plus the non-JSON containers a schema may output

#[derive(Clone, Debug, PartialEq)]
pub enum V {
    Undefined,
    Null,
    Bool(bool),
    Num(f64),
    Str(String),
    Arr(Vec<V>),
    Obj(Vec<(String, V)>),
    /// outputs only
    JsSet(Vec<V>),
    JsMap(Vec<(V, V)>),
}

impl V {
    /// can `JSON.stringify` / Tauri's IPC carry this value faithfully?
    pub fn json_serialisable(&self) -> bool {
        match self {
            V::Undefined => true, // as an object property it is dropped; arrays are checked below
            V::Null | V::Bool(_) | V::Str(_) => true,
            V::Num(n) => n.is_finite(),
            V::Arr(v) => v.iter().all(|x| *x != V::Undefined && x.json_serialisable()),
            V::Obj(f) => f.iter().all(|(_, x)| x.json_serialisable()),
            V::JsSet(_) | V::JsMap(_) => false,
        }
    }
}

pub type Env<'a> = &'a dyn Fn(&str) -> Option<Z>;

/// Zod's `safeParse`: Ok(output) or Err(path: reason).
pub fn parse(z: &Z, v: &V, env: Env, depth: usize) -> Result<V, String> {
    if depth > 64 {
        return Err("recursion limit".into());
    }
    match z {
        Z::String { coerce, .. } => match v {
            V::Str(_) => Ok(v.clone()),
            _ if *coerce => Ok(V::Str(format!("{:?}", v))),
            _ => Err("expected string".into()),
        },
        Z::Number { coerce, .. } => match v {
            V::Num(n) if n.is_finite() => Ok(v.clone()),
            V::Num(_) => Err("expected finite number".into()),
            V::Str(s) if *coerce => {
                let t = s.trim();
                if t.is_empty() {
                    Ok(V::Num(0.0))
                } else {
                    t.parse::<f64>().map(V::Num).map_err(|_| "NaN after coercion".to_string())
                }
            }
            V::Bool(b) if *coerce => Ok(V::Num(if *b { 1.0 } else { 0.0 })),
            V::Null if *coerce => Ok(V::Num(0.0)),
            _ => Err("expected number".into()),
        },
        Z::Boolean { coerce } => match v {
            V::Bool(_) => Ok(v.clone()),
            _ if *coerce => Ok(V::Bool(!matches!(v, V::Undefined | V::Null) && *v != V::Num(0.0) && *v != V::Str(String::new()))),
            _ => Err("expected boolean".into()),
        },
        Z::Void | Z::Undefined => match v {
            V::Undefined => Ok(V::Undefined),
            _ => Err("expected undefined".into()),
        },
        Z::Null => match v {
            V::Null => Ok(V::Null),
            _ => Err("expected null".into()),
        },
        Z::Any | Z::Unknown | Z::Custom(_) => Ok(v.clone()),
        Z::Never => Err("never".into()),
        Z::Literal(e) => {
            let ok = match (e, v) {
                (Expr::Str(a), V::Str(b)) => a == b,
                (Expr::Bool(a), V::Bool(b)) => a == b,
                (Expr::Null, V::Null) => true,
                (Expr::Num(a), V::Num(b)) => a.parse::<f64>().ok() == Some(*b),
                _ => false,
            };
            if ok {
                Ok(v.clone())
            } else {
                Err("literal mismatch".into())
            }
        }
        Z::Enum(opts) => match v {
            V::Str(s) if opts.contains(s) => Ok(v.clone()),
            _ => Err(format!("expected one of {:?}", opts)),
        },
        Z::Array { inner, .. } => match v {
            V::Arr(items) => {
                let mut out = vec![];
                for (i, it) in items.iter().enumerate() {
                    out.push(parse(inner, it, env, depth + 1).map_err(|e| format!("[{}]: {}", i, e))?);
                }
                Ok(V::Arr(out))
            }
            _ => Err("expected array".into()),
        },
        Z::Set(_) => match v {
            V::JsSet(_) => Ok(v.clone()),
            _ => Err("expected Set (a JSON array is not a Set)".into()),
        },
        Z::Map(..) => match v {
            V::JsMap(_) => Ok(v.clone()),
            _ => Err("expected Map (a JSON object is not a Map)".into()),
        },
        Z::Record(k, val) => match v {
            V::Obj(fields) => {
                let mut out = vec![];
                for (key, item) in fields {
                    // Zod 4: keys are validated with the key schema; numeric key schemas accept
                    // numeric strings
                    let key_ok = match &**k {
                        Z::Number { .. } => key.trim().parse::<f64>().is_ok(),
                        other => parse(other, &V::Str(key.clone()), env, depth + 1).is_ok(),
                    };
                    if !key_ok {
                        return Err(format!("invalid record key {:?}", key));
                    }
                    out.push((key.clone(), parse(val, item, env, depth + 1).map_err(|e| format!(".{}: {}", key, e))?));
                }
                Ok(V::Obj(out))
            }
            _ => Err("expected object (record)".into()),
        },
        Z::Tuple(items) => match v {
            V::Arr(vals) if vals.len() == items.len() => {
                let mut out = vec![];
                for (i, (s, x)) in items.iter().zip(vals).enumerate() {
                    out.push(parse(s, x, env, depth + 1).map_err(|e| format!("[{}]: {}", i, e))?);
                }
                Ok(V::Arr(out))
            }
            V::Arr(_) => Err("tuple length mismatch".into()),
            _ => Err("expected array (tuple)".into()),
        },
        Z::Object(fields) => match v {
            V::Obj(vals) => {
                let mut out = vec![];
                for (k, s) in fields {
                    let x = vals.iter().find(|(kk, _)| kk == k).map(|(_, x)| x.clone()).unwrap_or(V::Undefined);
                    let r = parse(s, &x, env, depth + 1).map_err(|e| format!(".{}: {}", k, e))?;
                    if r != V::Undefined {
                        out.push((k.clone(), r));
                    }
                }
                Ok(V::Obj(out)) // unknown keys are stripped (Zod's default)
            }
            _ => Err("expected object".into()),
        },
        Z::Union(opts) => {
            let mut errs = vec![];
            for o in opts {
                match parse(o, v, env, depth + 1) {
                    Ok(r) => return Ok(r),
                    Err(e) => errs.push(e),
                }
            }
            Err(format!("no union member matched: {}", errs.join(" / ")))
        }
        Z::Inter(a, b) => {
            parse(a, v, env, depth + 1)?;
            parse(b, v, env, depth + 1)
        }
        Z::Optional(i) => match v {
            V::Undefined => Ok(V::Undefined),
            _ => parse(i, v, env, depth + 1),
        },
        Z::Nullable(i) => match v {
            V::Null => Ok(V::Null),
            _ => parse(i, v, env, depth + 1),
        },
        Z::Lazy(i) => parse(i, v, env, depth + 1),
        Z::Ref(n) => match env(n) {
            Some(s) => parse(&s, v, env, depth + 1),
            None => Err(format!("reference to undefined schema {}", n)),
        },
    }
}
