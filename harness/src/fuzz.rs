//! Driver for the cargo-fuzz targets under harness/fuzz (thorough tiers only).

use crate::run::{infra_exit, Ctx};
use crate::tool;
use serde_json::json;
use std::path::PathBuf;

/// Run one libFuzzer campaign; returns (crash input, tail of the log) for up to 3 crash artifacts.
/// Known panic sites (known_findings entries of kind `panic` with a `panic_at=` tag) are tolerated
/// inside the targets so that the campaign continues past them.
pub fn campaign(ctx: &Ctx, target: &str, seconds: u64, env: &[(&str, &str)], seed_corpus_dir: &str) -> Vec<(Vec<u8>, String)> {
    let fuzz_dir = ctx.root.join("harness").join("fuzz");
    if !fuzz_dir.join("Cargo.toml").exists() {
        infra_exit("harness/fuzz is missing");
    }
    let corpus = tool::fresh_dir(&format!("fuzzcorpus-{}-", target));
    let artifacts = tool::fresh_dir(&format!("fuzzart-{}-", target));
    if let Ok(rd) = std::fs::read_dir(seed_corpus_dir) {
        for e in rd.flatten() {
            if e.path().is_file() {
                let _ = std::fs::copy(e.path(), corpus.join(e.file_name()));
            }
        }
    }
    let allow = ctx.known.iter().filter(|k| k.status == "known").flat_map(|k| k.tags_all.iter()).filter_map(|t| t.strip_prefix("panic_at=")).collect::<Vec<_>>().join(",");
    let mut cmd = std::process::Command::new("cargo");
    cmd.args([
        "+nightly",
        "fuzz",
        "run",
        target,
        corpus.to_str().unwrap(),
        "--",
        &format!("-max_total_time={}", seconds),
        &format!("-seed={}", (ctx.seed % 0x7fff_ffff).max(1)),
        "-len_control=0",
        "-max_len=4096",
        &format!("-dict={}", fuzz_dir.join("dict.txt").display()),
        "-timeout=20",
        "-rss_limit_mb=4096",
        &format!("-artifact_prefix={}/", artifacts.display()),
        &format!("-fork={}", ctx.workers.min(8)),
        "-ignore_crashes=0",
    ])
    .current_dir(ctx.root.join("harness"))
    .env("CARGO_NET_OFFLINE", "true")
    .env("TTGV_FUZZ_ALLOW", allow);
    for (k, v) in env {
        cmd.env(k, v);
    }
    let Ok(out) = cmd.output() else { infra_exit("cannot start cargo fuzz") };
    let log = String::from_utf8_lossy(&out.stderr).to_string();
    let execs = log.lines().rev().find(|l| l.contains("exec/s") || l.contains("runs in")).map(|l| l.trim().to_string());
    ctx.note(&format!("fuzz_{}", target), json!({"seconds": seconds, "last_status_line": execs, "exit": out.status.code()}));
    let mut crashes: Vec<PathBuf> = std::fs::read_dir(&artifacts).map(|rd| rd.flatten().map(|e| e.path()).filter(|p| p.file_name().map_or(false, |n| n.to_string_lossy().starts_with("crash-"))).collect()).unwrap_or_default();
    crashes.sort();
    let tail: String = log.lines().rev().take(40).collect::<Vec<_>>().into_iter().rev().collect::<Vec<_>>().join("\n");
    let result: Vec<(Vec<u8>, String)> = crashes.iter().take(3).map(|c| (std::fs::read(c).unwrap_or_default(), tail.clone())).collect();
    if out.status.code() != Some(0) && result.is_empty() && !log.contains("Done ") && !log.contains("runs in") {
        infra_exit(&format!("cargo fuzz run {} failed without a crash artifact: {}", target, crate::run::truncate(&tail, 1200)));
    }
    let _ = std::fs::remove_dir_all(&corpus);
    let _ = std::fs::remove_dir_all(&artifacts);
    result
}
