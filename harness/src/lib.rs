pub mod gen;
pub mod props;
pub mod run;
pub mod tape;
pub mod tool;
pub mod ts;
pub mod tsx;
pub mod zodm;
