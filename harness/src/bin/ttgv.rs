use serde_json::Value;
use ttgv::props;
use ttgv::run::{infra_exit, Ctx, Stats, Tier};

fn usage() -> ! {
    eprintln!("usage: ttgv <Cxx> <quick|thorough>   |   ttgv --replay <file>   |   ttgv --list");
    std::process::exit(2);
}

fn main() {
    let args: Vec<String> = std::env::args().skip(1).collect();
    if args.is_empty() {
        usage();
    }
    let seed: u64 = std::env::var("VERIF_SEED").ok().and_then(|s| s.trim().parse::<i64>().ok()).map(|v| v as u64).unwrap_or(20260927);
    let defs = props::all();
    let code = std::panic::catch_unwind(|| {
        if args[0] == "--list" {
            for d in &defs {
                println!("{}", d.id);
            }
            return 0;
        }
        if args[0] == "--replay" {
            let path = args.get(1).unwrap_or_else(|| usage());
            let text = std::fs::read_to_string(path).unwrap_or_else(|e| infra_exit(&format!("cannot read {}: {}", path, e)));
            let v: Value = serde_json::from_str(&text).unwrap_or_else(|e| infra_exit(&format!("replay file does not parse: {}", e)));
            let pid = v["property"].as_str().unwrap_or("");
            let def = defs.iter().find(|d| d.id == pid).unwrap_or_else(|| infra_exit(&format!("unknown property {}", pid)));
            let check = v["check"].as_str().unwrap_or("");
            let ctx = Ctx::new(pid, Tier::Quick, seed, def.level);
            // order-dependent failures: up to 64 attempts (DESIGN.md §2.5)
            let attempts = if v["failure"]["tags"].as_array().map_or(false, |a| a.iter().any(|t| t == "order_dependent")) { 64 } else { 1 };
            for _ in 0..attempts {
                let mut stats = Stats::default();
                let fails = (def.replay)(check, &v["input"], &mut stats).unwrap_or_else(|| infra_exit(&format!("unknown check {}", check)));
                let unknown = ctx.triage(fails, &mut stats);
                if let Some(f) = unknown.first() {
                    println!("VIOLATION property={} replay={}", pid, path);
                    println!("  check={} kind={} tags={:?}", check, f.kind, f.tags);
                    println!("  expected: {}", f.expected);
                    println!("  observed: {}", f.observed);
                    println!("  case: {}", serde_json::to_string_pretty(&f.case).unwrap_or_default());
                    return 1;
                }
            }
            println!("replay passed: no (unknown) failure reproduced");
            return 0;
        }
        let pid = args[0].to_uppercase();
        let tier = match std::env::var("VERIF_TIER").ok().as_deref().or(args.get(1).map(|s| s.as_str())) {
            Some("thorough") => Tier::Thorough,
            Some("quick") | None => Tier::Quick,
            Some(_) => usage(),
        };
        // an explicit argument wins over the environment alias
        let tier = match args.get(1).map(|s| s.as_str()) {
            Some("thorough") => Tier::Thorough,
            Some("quick") => Tier::Quick,
            _ => tier,
        };
        let def = defs.iter().find(|d| d.id == pid).unwrap_or_else(|| infra_exit(&format!("unknown property {}", pid)));
        let ctx = Ctx::new(def.id, tier, seed, def.level);
        ctx.replay_known(&|c, i, s| (def.replay)(c, i, s));
        ctx.replay_regress(&|c, i, s| (def.replay)(c, i, s));
        (def.run)(&ctx);
        ctx.finish()
    });
    ttgv::tool::cleanup_scratch();
    match code {
        Ok(c) => std::process::exit(c),
        Err(_) => {
            println!("INCONCLUSIVE harness panic");
            std::process::exit(2)
        }
    }
}
