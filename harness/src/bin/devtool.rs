//! development helper: materialise the base project somewhere
fn main() {
    let args: Vec<String> = std::env::args().collect();
    let root = std::path::PathBuf::from(&args[1]);
    let files = ttgv::sandbox::base_project();
    let l = ttgv::sandbox::make_build_layout(&root, &files, args.get(2).map(|s| s.as_str()).unwrap_or("none"), false);
    println!("{}", l.src_tauri.display());
}
