fn main() {
    if let Err(e) = tauri_typegen::BuildSystem::generate_at_build_time() {
        eprintln!("Error: {}", e);
        std::process::exit(1);
    }
}
