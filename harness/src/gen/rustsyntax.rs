//! Grammar-based generator of exotic (but mostly valid) Rust source files for C15: generics,
//! lifetimes, where-clauses, impl Trait, dyn, fn pointers, arrays/slices, `!`, qualified paths,
//! macros, raw and non-ASCII identifiers, attributes everywhere, exotic literals, and attribute
//! payloads with arbitrary Unicode.

use crate::gen::rust::rust_str_lit;
use crate::tape::Tape;

const IDENTS: &[&str] = &["value", "r#type", "r#match", "größe", "名前", "_x", "a__b", "x_", "données", "X", "id2", "__", "r#async", "λ", "payload", "app", "window"];
const TYPE_IDENTS: &[&str] = &["User", "Größe", "T", "Item2", "HTTPServer", "名前", "State", "Window", "Channel", "Result", "Option", "Wrapper"];

fn ident(t: &mut Tape) -> String {
    t.choose(IDENTS).to_string()
}
fn type_ident(t: &mut Tape) -> String {
    t.choose(TYPE_IDENTS).to_string()
}

pub fn exotic_type(t: &mut Tape, depth: usize) -> String {
    if depth == 0 {
        return t.choose(&["i32", "String", "&str", "&'static str", "()", "!", "Self", "bool", "u128", "f32", "char", "usize", "str", "_", "Größe", "名前", "Été", "User", "crate::models::Größe", "λ"]).to_string();
    }
    let d = depth - 1;
    match t.pick(28) {
        0 => format!("Option<{}>", exotic_type(t, d)),
        1 => format!("Vec<{}>", exotic_type(t, d)),
        2 => format!("HashMap<{}, {}>", exotic_type(t, d), exotic_type(t, d)),
        3 => format!("Result<{}, {}>", exotic_type(t, d), exotic_type(t, d)),
        4 => format!("({}, {})", exotic_type(t, d), exotic_type(t, d)),
        5 => format!("({},)", exotic_type(t, d)),
        6 => format!("[{}; 4]", exotic_type(t, d)),
        7 => format!("[{}; N]", exotic_type(t, d)),
        8 => format!("&[{}]", exotic_type(t, d)),
        9 => format!("&'a mut {}", exotic_type(t, d)),
        10 => format!("Box<dyn Fn({}) -> {} + Send + 'static>", exotic_type(t, d), exotic_type(t, d)),
        11 => format!("impl Iterator<Item = {}> + '_", exotic_type(t, d)),
        12 => format!("fn({}) -> {}", exotic_type(t, d), exotic_type(t, d)),
        13 => format!("unsafe extern \"C\" fn({}, ...) -> {}", exotic_type(t, d), exotic_type(t, d)),
        14 => format!("<{} as IntoIterator>::Item", exotic_type(t, d)),
        15 => format!("std::collections::BTreeMap<{}, {}>", exotic_type(t, d), exotic_type(t, d)),
        16 => format!("tauri::State<'_, Mutex<{}>>", exotic_type(t, d)),
        17 => format!("Channel<{}>", exotic_type(t, d)),
        18 => format!("tauri::ipc::Channel<&'a {}>", exotic_type(t, d)),
        19 => format!("*const {}", exotic_type(t, d)),
        20 => format!("{}<'a, {}, 3>", type_ident(t), exotic_type(t, d)),
        21 => format!("::std::option::Option<{}>", exotic_type(t, d)),
        22 => format!("dyn for<'r> Trait<&'r {}>", exotic_type(t, d)),
        23 => format!("Option<Option<Vec<({}, {})>>>", exotic_type(t, d), exotic_type(t, d)),
        24 => format!("Result<HashMap<String, ({}, {})>, Box<dyn std::error::Error>>", exotic_type(t, d), exotic_type(t, d)),
        25 => format!("HashSet<{}>", exotic_type(t, d)),
        26 => format!("mac!({})", exotic_type(t, d)),
        _ => format!("{}<{}>", type_ident(t), exotic_type(t, d)),
    }
}

pub fn random_text(t: &mut Tape, max: usize) -> String {
    const ALPHA: &[&str] = &[
        "a", "Z", " ", "é", "ß", "日", "😀", "\"", "\\", "(", ")", ",", "=", "'", "email", "url", "min", "max", "\n", "\t", "{", "}", "%", "1", "-", ".", "message", "length", "range", "skip", "rename", "rename_all",
        "<", ">", "\u{0}", "\u{7f}", "\u{202e}", "\u{fe0f}", "𝔘", "ё", "\r", "/*", "*/", "//", "#", "[", "]", "r#", "::", ";",
    ];
    let n = t.pick(max + 1);
    (0..n).map(|_| *t.choose(ALPHA)).collect()
}

fn validate_attr(t: &mut Tape) -> String {
    let msg = rust_str_lit(&random_text(t, 6));
    match t.pick(22) {
        0 => format!("#[validate(length(min = {}, message = {}))]", t.pick(300), msg),
        1 => format!("#[validate(range(min = -{}.5e{}, max = {}, message = {}))]", t.pick(9), t.pick(30), u64::MAX, msg),
        2 => format!("#[validate(email(message = {}))]", msg),
        3 => format!("#[validate(url, length(max = {}), custom(function = \"check\", message = {}))]", t.pick(9), msg),
        4 => "#[validate(regex(path = *RE, code = \"bad\"))]".to_string(),
        5 => format!("#[validate(length(equal = {}))]", t.pick(40)),
        6 => "#[validate(nested)]".to_string(),
        7 => "#[validate]".to_string(),
        8 => format!("#[validate = {}]", msg),
        9 => format!("#[validate(length(min = {m}, max = {m}, min = {m}))]", m = t.pick(5)),
        10 => format!("#[validate(range(min = \"{}\", max = 'x'))]", t.pick(5)),
        11 => format!("#[validate(length(message = {}, min = 1))]", msg),
        12 => format!("#[validate(message = {})]", msg),
        13 => format!("#[validate(range(min = {}u8, max = 0x{:x}, exclusive_min = 1.0))]", t.pick(200), t.pick(5000)),
        14 => format!("#[validate(length(min = 1, message = r#\"raw {} \"quoted\" text\"#))]", random_text(t, 3).replace('"', "").replace('#', "")),
        15 => format!("#[validate(length(min=1),email,url,range(max=2),length(max=3,message={}))]", msg),
        // payloads syn's nested-meta walker rejects (the token-string fallback of the tool reads them):
        // a missing comma, a char literal or a macro call as message, a literal where a path belongs
        16 => format!("#[validate(length(min = 1, max = 20, message = {}) email)]", msg),
        17 => format!("#[validate(length(min = 1, message = '{}'))]", *t.choose(&["é", "日", "😀", "x", "ß", "\\n", "\\'"])),
        18 => format!("#[validate(range(min = 1, max = 9, message = {}); url)]", msg),
        19 => format!("#[validate(length(max = 3, message = {}), 5)]", msg),
        20 => format!("#[validate(range(max = 3, message = concat!({}, \"x\")))]", msg),
        _ => format!("#[validate(length(min = 1 max = 2 message = {}))]", msg),
    }
}

fn serde_attr(t: &mut Tape) -> String {
    let s = rust_str_lit(&random_text(t, 5));
    match t.pick(14) {
        0 => format!("#[serde(rename = {})]", s),
        1 => format!("#[serde(rename_all = {})]", s),
        2 => format!("#[serde(rename(serialize = {}, deserialize = \"other\"))]", s),
        3 => "#[serde(skip_serializing_if = \"Option::is_none\", default = \"skip_it\")]".to_string(),
        4 => "#[serde(flatten)]".to_string(),
        5 => "#[serde(with = \"rename_helpers\")]".to_string(),
        6 => format!("#[serde(alias = {}, alias = \"skip\")]", s),
        7 => "#[serde(bound(serialize = \"T: Serialize\", deserialize = \"T: Deserialize<'de>\"))]".to_string(),
        8 => "#[serde]".to_string(),
        9 => format!("#[serde = {}]", s),
        10 => "#[serde(rename_all = \"camelCase\", rename_all_fields = \"kebab-case\", tag = \"type\", content = \"c\")]".to_string(),
        11 => "#[serde(rename = r#\"raw\"name\"#)]".to_string(),
        12 => "#[serde(rename = \"a\", rename = \"b\")]".to_string(),
        _ => "#[serde(skip)]".to_string(),
    }
}

fn misc_attr(t: &mut Tape) -> String {
    t.choose(&["#[allow(unused)]", "#[cfg(feature = \"x\")]", "#[doc = \"docs with #[tauri::command]\"]", "#[inline(always)]", "#[cfg_attr(test, derive(Debug))]", "#[must_use = \"why\"]", "/// doc ünï 😀", "#[deprecated(since = \"1.0\", note = \"x\")]", "#[repr(C)]", "#[non_exhaustive]"]).to_string()
}

fn generics(t: &mut Tape) -> (String, String) {
    match t.pick(6) {
        0 | 1 => (String::new(), String::new()),
        2 => ("<'a>".into(), String::new()),
        3 => ("<'a, T: Clone + 'a, const N: usize>".into(), " where T: Send, for<'r> &'r T: Sync".into()),
        4 => ("<R: tauri::Runtime>".into(), String::new()),
        _ => ("<T = String, U: ?Sized>".into(), " where U: AsRef<str>".into()),
    }
}

fn body(t: &mut Tape) -> String {
    let mut s = String::new();
    let n = t.pick(4);
    for _ in 0..n {
        let ev = rust_str_lit(&random_text(t, 4));
        s.push_str(&match t.pick(14) {
            0 => format!("    app.emit({}, {}).unwrap();\n", ev, exotic_expr(t)),
            1 => format!("    window.emit_to(label, {}, &payload)?;\n", ev),
            2 => format!("    let {}: {} = Default::default();\n", ident(t), exotic_type(t, 2)),
            3 => format!("    if let Some(x) = opt {{ app.emit({}, x).ok(); }} else {{ return; }}\n", ev),
            4 => format!("    match v {{ Foo::A(x) if x > 1 => app.emit({}, x).unwrap(), _ => {{}} }}\n", ev),
            5 => "    let closure = |a: i32, b| async move { app.emit(\"in-closure\", a + b) };\n".to_string(),
            6 => "    app.emit(EVENT_NAME, 1)?;\n".to_string(),
            7 => "    app.emit(\"too-few\");\n    app.emit_to(\"a\", \"b\");\n    app.emit();\n".to_string(),
            8 => format!("    self.app.emit({}, ({}, {}))?;\n", ev, exotic_expr(t), exotic_expr(t)),
            9 => format!("    get().handle().emit({}, vec![1, 2])?.await;\n", ev),
            10 => "    unsafe { loop { break 'outer; } }\n".to_string(),
            11 => format!("    let r#type = {};\n    app.emit(\"raw\", r#type.clone());\n", exotic_expr(t)),
            12 => "    println!(\"{}\", format_args!(\"{:?}\", x));\n".to_string(),
            _ => format!("    app.emit({}, Größe {{ wert: 1, ..Default::default() }})?;\n", ev),
        });
    }
    s
}

fn exotic_expr(t: &mut Tape) -> String {
    t.choose(&["1", "0xff_u8", "1e-3_f32", "b'x'", "b\"bytes\"", "'\\u{1F600}'", "r#\"raw\"#", "()", "(1,)", "[1; 3]", "x as u8", "&mut y", "*ptr", "-1i128", "!flag", "a..=b", "foo::<T>()", "Struct { a, ..b }", "|x| x", "async { 1 }.await", "v[0]?", "\"ünï\"", "c\"cstr\"", "1_000.0"]).to_string()
}

pub fn exotic_item(t: &mut Tape) -> String {
    let (g, w) = generics(t);
    let mut attrs = String::new();
    let n_attr = t.pick(4);
    for _ in 0..n_attr {
        attrs.push_str(&match t.pick(3) {
            0 => misc_attr(t),
            1 => serde_attr(t),
            _ => validate_attr(t),
        });
        attrs.push('\n');
    }
    match t.pick(12) {
        0..=3 => {
            // command with exotic parameters
            let n = t.pick(5);
            let mut params = vec![];
            if t.chance(1, 6) {
                params.push("&self".to_string());
            }
            for i in 0..n {
                let pat = match t.pick(8) {
                    0 => format!("mut {}", ident(t)),
                    1 => format!("({}, b{})", ident(t), i),
                    2 => "_".to_string(),
                    3 => format!("Wrapper({})", ident(t)),
                    4 => format!("ref {}", ident(t)),
                    _ => ident(t),
                };
                let pattr = if t.chance(1, 5) { format!("{} ", serde_attr(t)) } else { String::new() };
                params.push(format!("{}{}: {}", pattr, pat, exotic_type(t, 3)));
            }
            let cmd_attr = t.choose(&["#[tauri::command]", "#[command]", "#[tauri::command(async, rename_all = \"snake_case\")]", "#[tauri::command(rename_all = \"weird\")]", "#[tauri::command]\n#[serde(rename_all = \"kebab-case\")]"]).to_string();
            let ret = if t.bool() { format!(" -> {}", exotic_type(t, 3)) } else { String::new() };
            let quals = t.choose(&["pub ", "pub(crate) async ", "pub const ", "pub unsafe ", "pub extern \"C\" ", "async ", ""]).to_string();
            format!("{}{}\n{}fn {}{}({}){}{} {{\n{}}}\n\n", attrs, cmd_attr, quals, ident(t), g, params.join(", "), ret, w, body(t))
        }
        4..=6 => {
            // struct with exotic fields and attribute payloads
            let derive = t.choose(&["#[derive(Serialize, Deserialize)]", "#[derive(Debug, serde::Serialize)]", "#[derive(Clone)]\n#[derive(Deserialize, Validate)]", "#[derive(Debug)]", "#[cfg_attr(feature = \"serde\", derive(Serialize))]"]).to_string();
            let n = t.pick(5);
            let mut fields = String::new();
            for _ in 0..n {
                let k = t.pick(3);
                for _ in 0..k {
                    fields.push_str(&format!("    {}\n", if t.bool() { serde_attr(t) } else { validate_attr(t) }));
                }
                fields.push_str(&format!("    {}{}: {},\n", t.choose(&["pub ", "", "pub(crate) "]), ident(t), exotic_type(t, 3)));
            }
            match t.pick(5) {
                0 => format!("{}{}\npub struct {}{}({});\n\n", attrs, derive, type_ident(t), g, exotic_type(t, 2)),
                1 => format!("{}{}\npub struct {};\n\n", attrs, derive, type_ident(t)),
                2 => format!("{}{}\npub union {}{} {{\n    a: u32,\n    b: f32,\n}}\n\n", attrs, derive, type_ident(t), g),
                _ => format!("{}{}\npub struct {}{}{} {{\n{}}}\n\n", attrs, derive, type_ident(t), g, w, fields),
            }
        }
        7 | 8 => {
            let derive = t.choose(&["#[derive(Serialize, Deserialize)]", "#[derive(Debug, Deserialize)]", "#[derive(Debug)]"]).to_string();
            let n = t.range(0, 5);
            let mut vs = String::new();
            for i in 0..n {
                if t.chance(1, 3) {
                    vs.push_str(&format!("    {}\n", serde_attr(t)));
                }
                vs.push_str(&match t.pick(5) {
                    0 => format!("    V{}({}),\n", i, exotic_type(t, 2)),
                    1 => format!("    V{} {{ {}: {}, other: u8 }},\n", i, ident(t), exotic_type(t, 2)),
                    2 => format!("    V{} = {},\n", i, i * 3),
                    _ => format!("    {},\n", type_ident(t)),
                });
            }
            format!("{}{}\npub enum {}{} {{\n{}}}\n\n", attrs, derive, type_ident(t), g, vs)
        }
        9 => format!("impl{} {} for {} {{\n    #[tauri::command]\n    fn method(&self, app: AppHandle) {{\n{}    }}\n}}\n\n", g, type_ident(t), exotic_type(t, 1), body(t)),
        10 => format!("macro_rules! m {{ ($x:expr) => {{ $x }}; }}\nm!(#[tauri::command] fn in_macro() {{}});\nconst {}: {} = {};\nstatic mut S: u8 = 0;\ntype Alias{} = {};\n\n", "EVENT_NAME", "&str", "\"evt\"", g, exotic_type(t, 2)),
        _ => format!("pub mod inner {{\n    use super::*;\n    {}\n    pub trait Tr{} {{ type Out; fn f(&self) -> Self::Out; }}\n}}\n\n", exotic_item(t).replace('\n', "\n    "), g),
    }
}

pub fn exotic_file(t: &mut Tape) -> String {
    let mut s = String::from("#![allow(dead_code)]\nuse serde::{Deserialize, Serialize};\nuse tauri::{AppHandle, Emitter};\n\n");
    let n = t.range(1, 6);
    for _ in 0..n {
        s.push_str(&exotic_item(t));
    }
    // the tool only looks inside types a command (or event) reaches: one more command mentions
    // every struct / enum / union the file defines, so that their fields and attributes are analysed
    let mut names: Vec<String> = vec![];
    for line in s.lines() {
        let l = line.trim_start();
        for kw in ["pub struct ", "pub enum ", "pub union "] {
            if let Some(rest) = l.strip_prefix(kw) {
                let name: String = rest.chars().take_while(|c| c.is_alphanumeric() || *c == '_' || *c == '#').collect();
                if !name.is_empty() && !names.contains(&name) {
                    names.push(name);
                }
            }
        }
    }
    if !names.is_empty() && !t.chance(1, 4) {
        let params: Vec<String> = names.iter().enumerate().map(|(i, n)| format!("p{}: {}", i, n)).collect();
        s.push_str(&format!("#[tauri::command]\npub fn reach_all({}) {{}}\n", params.join(", ")));
    }
    s
}
