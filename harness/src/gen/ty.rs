//! Rust type expressions of the documented feature set, their rendering, their denotation
//! (the JSON shape serde produces, per the README table) and their enumeration.

use crate::tape::Tape;
use crate::ts::shape::Shape;

#[derive(Clone, Debug, PartialEq, Eq, Hash, PartialOrd, Ord)]
pub enum Ty {
    /// spelled as in Rust: "String", "&str", "i8" … "f64", "bool", "()"
    Prim(&'static str),
    Named(String),
    Option(Box<Ty>),
    Vec(Box<Ty>),
    HashSet(Box<Ty>),
    BTreeSet(Box<Ty>),
    HashMap(Box<Ty>, Box<Ty>),
    BTreeMap(Box<Ty>, Box<Ty>),
    Tuple(Vec<Ty>),
    Ref(Box<Ty>),
    /// only generated at the root of a return type
    Result(Box<Ty>, Option<Box<Ty>>),
}

pub const PRIMS: &[&str] = &[
    "String", "&str", "i8", "i16", "i32", "i64", "i128", "isize", "u8", "u16", "u32", "u64", "u128", "usize", "f32", "f64", "bool", "()",
];
pub const NUMERIC: &[&str] = &["i8", "i16", "i32", "i64", "i128", "isize", "u8", "u16", "u32", "u64", "u128", "usize", "f32", "f64"];
pub const INT_KEYS: &[&str] = &["i32", "u8", "u64", "usize", "i64"];

pub fn bx(t: Ty) -> Box<Ty> {
    Box::new(t)
}

impl Ty {
    pub fn named(n: &str) -> Ty {
        Ty::Named(n.to_string())
    }

    /// Rust source text. `static_refs`: spell references `&'static T` (struct fields, returns).
    pub fn rust(&self, static_refs: bool) -> String {
        self.rust_with(static_refs, false)
    }

    /// Rust source text; with `qualify` every type constructor and every named type is written with
    /// its path (`std::collections::HashMap<..>`, `std::option::Option<..>`, `crate::Item`), which
    /// is the same type spelled without a `use`
    pub fn rust_with(&self, static_refs: bool, qualify: bool) -> String {
        let q = |short: &str, path: &str| if qualify { format!("{}::{}", path, short) } else { short.to_string() };
        let r = |t: &Ty| t.rust_with(static_refs, qualify);
        match self {
            Ty::Prim(p) => {
                if *p == "&str" && static_refs {
                    "&'static str".to_string()
                } else if *p == "String" {
                    q("String", "std::string")
                } else {
                    p.to_string()
                }
            }
            Ty::Named(n) => q(n, "crate"),
            Ty::Option(i) => format!("{}<{}>", q("Option", "std::option"), r(i)),
            Ty::Vec(i) => format!("{}<{}>", q("Vec", "std::vec"), r(i)),
            Ty::HashSet(i) => format!("{}<{}>", q("HashSet", "std::collections"), r(i)),
            Ty::BTreeSet(i) => format!("{}<{}>", q("BTreeSet", "std::collections"), r(i)),
            Ty::HashMap(k, v) => format!("{}<{}, {}>", q("HashMap", "std::collections"), r(k), r(v)),
            Ty::BTreeMap(k, v) => format!("{}<{}, {}>", q("BTreeMap", "std::collections"), r(k), r(v)),
            Ty::Tuple(v) => {
                let parts: Vec<String> = v.iter().map(r).collect();
                format!("({})", parts.join(", "))
            }
            Ty::Ref(i) => {
                if static_refs {
                    format!("&'static {}", r(i))
                } else {
                    format!("&{}", r(i))
                }
            }
            Ty::Result(t, Some(e)) => format!("{}<{}, {}>", q("Result", "std::result"), r(t), r(e)),
            Ty::Result(t, None) => format!("Result<{}>", r(t)),
        }
    }

    /// The JSON shape serde produces, as a TypeScript shape (README table).
    /// `named` resolves a named type: Some(shape) for a mapped name, None ⇒ `Ref(name)`.
    pub fn denote(&self, named: &dyn Fn(&str) -> Option<Shape>) -> Shape {
        match self {
            Ty::Prim(p) => match *p {
                "String" | "&str" | "str" => Shape::Str,
                "bool" => Shape::Bool,
                "()" => Shape::Void,
                _ => Shape::Num,
            },
            Ty::Named(n) => named(n).unwrap_or_else(|| Shape::Ref(n.clone())),
            Ty::Option(i) => Shape::nullable(i.denote(named)),
            Ty::Vec(i) | Ty::HashSet(i) | Ty::BTreeSet(i) => Shape::arr(i.denote(named)),
            Ty::HashMap(k, v) | Ty::BTreeMap(k, v) => Shape::rec(k.denote(named), v.denote(named)),
            Ty::Tuple(v) => Shape::Tuple(v.iter().map(|t| t.denote(named)).collect()),
            Ty::Ref(i) => i.denote(named),
            Ty::Result(t, _) => t.denote(named),
        }
    }

    pub fn d(&self) -> Shape {
        self.denote(&|_| None)
    }

    pub fn depth(&self) -> usize {
        match self {
            Ty::Prim(_) | Ty::Named(_) => 0,
            Ty::Option(i) | Ty::Vec(i) | Ty::HashSet(i) | Ty::BTreeSet(i) | Ty::Ref(i) => 1 + i.depth(),
            Ty::HashMap(k, v) | Ty::BTreeMap(k, v) => 1 + k.depth().max(v.depth()),
            Ty::Tuple(v) => 1 + v.iter().map(|t| t.depth()).max().unwrap_or(0),
            Ty::Result(t, e) => 1 + t.depth().max(e.as_ref().map_or(0, |e| e.depth())),
        }
    }

    pub fn nodes(&self) -> usize {
        match self {
            Ty::Prim(_) | Ty::Named(_) => 1,
            Ty::Option(i) | Ty::Vec(i) | Ty::HashSet(i) | Ty::BTreeSet(i) | Ty::Ref(i) => 1 + i.nodes(),
            Ty::HashMap(k, v) | Ty::BTreeMap(k, v) => 1 + k.nodes() + v.nodes(),
            Ty::Tuple(v) => 1 + v.iter().map(|t| t.nodes()).sum::<usize>(),
            Ty::Result(t, e) => 1 + t.nodes() + e.as_ref().map_or(0, |e| e.nodes()),
        }
    }

    pub fn is_option(&self) -> bool {
        matches!(self, Ty::Option(_))
    }

    /// constructor class of the root: prim named option seq map tuple ref result
    pub fn class(&self) -> &'static str {
        match self {
            Ty::Prim(_) => "prim",
            Ty::Named(_) => "named",
            Ty::Option(_) => "option",
            Ty::Vec(_) | Ty::HashSet(_) | Ty::BTreeSet(_) => "seq",
            Ty::HashMap(..) | Ty::BTreeMap(..) => "map",
            Ty::Tuple(_) => "tuple",
            Ty::Ref(_) => "ref",
            Ty::Result(..) => "result",
        }
    }

    pub fn ctor(&self) -> &'static str {
        match self {
            Ty::Prim(_) => "prim",
            Ty::Named(_) => "named",
            Ty::Option(_) => "Option",
            Ty::Vec(_) => "Vec",
            Ty::HashSet(_) => "HashSet",
            Ty::BTreeSet(_) => "BTreeSet",
            Ty::HashMap(..) => "HashMap",
            Ty::BTreeMap(..) => "BTreeMap",
            Ty::Tuple(_) => "Tuple",
            Ty::Ref(_) => "Ref",
            Ty::Result(..) => "Result",
        }
    }

    fn children(&self) -> Vec<(&'static str, &Ty)> {
        match self {
            Ty::Prim(_) | Ty::Named(_) => vec![],
            Ty::Option(i) | Ty::Vec(i) | Ty::HashSet(i) | Ty::BTreeSet(i) | Ty::Ref(i) => vec![("", i)],
            Ty::HashMap(k, v) | Ty::BTreeMap(k, v) => vec![(".k", k), (".v", v)],
            Ty::Tuple(v) => v.iter().map(|t| ("", t)).collect(),
            Ty::Result(t, e) => {
                let mut c = vec![(".ok", &**t)];
                if let Some(e) = e {
                    c.push((".err", &**e));
                }
                c
            }
        }
    }

    /// Input-feature tags used to match known findings: every (parent class, child class) pair
    /// `cpair=seq>option`, every class present `has=option`, the root class `root=…`.
    pub fn tags(&self) -> Vec<String> {
        let mut out = std::collections::BTreeSet::new();
        out.insert(format!("root={}", self.class()));
        fn walk(t: &Ty, out: &mut std::collections::BTreeSet<String>) {
            out.insert(format!("has={}", t.class()));
            if let Ty::Prim(p) = t {
                if *p == "()" {
                    out.insert("has=unit".to_string());
                }
            }
            for (slot, c) in t.children() {
                out.insert(format!("cpair={}{}>{}", t.class(), slot, c.class()));
                // references are transparent: also record the pair that results once they are
                // looked through (`Vec<&Option<T>>` is a sequence of options)
                let mut eff = c;
                while let Ty::Ref(i) = eff {
                    eff = i;
                }
                if !std::ptr::eq(eff, c) && !matches!(t, Ty::Ref(_)) {
                    out.insert(format!("cpair={}{}>{}", t.class(), slot, eff.class()));
                }
                walk(c, out);
            }
        }
        walk(self, &mut out);
        out.into_iter().collect()
    }

    pub fn named_refs(&self, out: &mut Vec<String>) {
        match self {
            Ty::Named(n) => out.push(n.clone()),
            _ => {
                for (_, c) in self.children() {
                    c.named_refs(out);
                }
            }
        }
    }

    /// names reachable for serialisation purposes: everything except Result's error arm
    pub fn named_refs_ok_only(&self, out: &mut Vec<String>) {
        match self {
            Ty::Named(n) => out.push(n.clone()),
            Ty::Result(t, _) => t.named_refs_ok_only(out),
            _ => {
                for (_, c) in self.children() {
                    c.named_refs_ok_only(out);
                }
            }
        }
    }

    /// does a composite (comma-containing) type occur as a *non-last* argument somewhere, or
    /// inside Result/tuple: the situations where first-comma splitting goes wrong
    pub fn has_comma_inside(&self) -> bool {
        matches!(self, Ty::HashMap(..) | Ty::BTreeMap(..) | Ty::Tuple(_) | Ty::Result(_, Some(_)))
            || self.children().iter().any(|(_, c)| c.has_comma_inside())
    }
}

/// One-hole contexts used by the exhaustive chain enumeration (DESIGN.md C05).
#[derive(Clone, Copy, Debug, PartialEq, Eq, Hash)]
pub enum Cx {
    Option,
    Vec,
    HashSet,
    BTreeSet,
    HashMapV,
    BTreeMapV,
    HashMapK,
    Tuple2L,
    Tuple2R,
    Tuple3M,
    Tuple4Last,
    Ref,
}

pub const CONTEXTS: &[Cx] = &[
    Cx::Option,
    Cx::Vec,
    Cx::HashSet,
    Cx::BTreeSet,
    Cx::HashMapV,
    Cx::BTreeMapV,
    Cx::HashMapK,
    Cx::Tuple2L,
    Cx::Tuple2R,
    Cx::Tuple3M,
    Cx::Tuple4Last,
    Cx::Ref,
];

impl Cx {
    /// None when the combination is outside the input domain (map keys must be strings,
    /// integers or unit enums; sets of floats / unit are not generated; `&&T` is not generated)
    pub fn apply(self, inner: Ty, is_enum: &dyn Fn(&str) -> bool) -> Option<Ty> {
        let s = || Ty::Prim("String");
        let n = || Ty::Prim("i32");
        let b = || Ty::Prim("bool");
        Some(match self {
            Cx::Option => Ty::Option(bx(inner)),
            Cx::Vec => Ty::Vec(bx(inner)),
            Cx::HashSet | Cx::BTreeSet => {
                if !hashable(&inner) {
                    return None;
                }
                if self == Cx::HashSet {
                    Ty::HashSet(bx(inner))
                } else {
                    Ty::BTreeSet(bx(inner))
                }
            }
            Cx::HashMapV => Ty::HashMap(bx(s()), bx(inner)),
            Cx::BTreeMapV => Ty::BTreeMap(bx(n()), bx(inner)),
            Cx::HashMapK => {
                if !valid_key(&inner, is_enum) {
                    return None;
                }
                Ty::HashMap(bx(inner), bx(b()))
            }
            Cx::Tuple2L => Ty::Tuple(vec![inner, n()]),
            Cx::Tuple2R => Ty::Tuple(vec![s(), inner]),
            Cx::Tuple3M => Ty::Tuple(vec![b(), inner, s()]),
            Cx::Tuple4Last => Ty::Tuple(vec![n(), s(), b(), inner]),
            Cx::Ref => {
                if matches!(inner, Ty::Ref(_)) || matches!(inner, Ty::Prim("&str")) || matches!(inner, Ty::Prim("()")) {
                    return None;
                }
                Ty::Ref(bx(inner))
            }
        })
    }
}

/// may appear in a HashSet/BTreeSet (Hash + Eq / Ord): no floats, no maps/HashSets inside
pub fn hashable(t: &Ty) -> bool {
    match t {
        Ty::Prim(p) => !matches!(*p, "f32" | "f64" | "()"),
        Ty::Named(_) => true,
        Ty::Option(i) | Ty::Vec(i) | Ty::BTreeSet(i) | Ty::Ref(i) => hashable(i),
        Ty::HashSet(_) | Ty::HashMap(..) => false,
        Ty::BTreeMap(k, v) => hashable(k) && hashable(v),
        Ty::Tuple(v) => v.iter().all(hashable),
        Ty::Result(..) => false,
    }
}

/// serde_json map keys: strings, integers (written as strings), unit enum variants
pub fn valid_key(t: &Ty, is_enum: &dyn Fn(&str) -> bool) -> bool {
    match t {
        Ty::Prim(p) => !matches!(*p, "f32" | "f64" | "()" | "bool"),
        Ty::Named(n) => is_enum(n),
        _ => false,
    }
}

/// leaves of the chain enumeration: every primitive spelling, one struct, one enum
pub fn leaves(struct_name: &str, enum_name: &str) -> Vec<Ty> {
    let mut v: Vec<Ty> = PRIMS.iter().map(|p| Ty::Prim(p)).collect();
    v.push(Ty::named(struct_name));
    v.push(Ty::named(enum_name));
    v
}

/// all chains c1∘…∘cd(leaf) for d in 0..=max_depth, in size order
pub fn enumerate_chains(max_depth: usize, struct_name: &str, enum_name: &str) -> Vec<Ty> {
    let mut level: Vec<Ty> = leaves(struct_name, enum_name);
    let mut all = level.clone();
    for _ in 0..max_depth {
        let mut next = Vec::new();
        for t in &level {
            for cx in CONTEXTS {
                if let Some(n) = cx.apply(t.clone(), &|n| n == enum_name) {
                    next.push(n);
                }
            }
        }
        all.extend(next.iter().cloned());
        level = next;
    }
    all
}

/// random full trees (composite siblings), size-bounded
pub fn random_ty(t: &mut Tape, depth: usize, structs: &[String], enums: &[String]) -> Ty {
    if depth == 0 || t.chance(1, 4) {
        return random_leaf(t, structs, enums);
    }
    match t.pick(9) {
        0 => Ty::Option(bx(random_ty(t, depth - 1, structs, enums))),
        1 => Ty::Vec(bx(random_ty(t, depth - 1, structs, enums))),
        2 => {
            let k = random_key(t, enums);
            let v = random_ty(t, depth - 1, structs, enums);
            if t.bool() {
                Ty::HashMap(bx(k), bx(v))
            } else {
                Ty::BTreeMap(bx(k), bx(v))
            }
        }
        3 => {
            let n = t.range(2, 4);
            Ty::Tuple((0..n).map(|_| random_ty(t, depth - 1, structs, enums)).collect())
        }
        4 => {
            let inner = random_ty(t, depth - 1, structs, enums);
            if hashable(&inner) {
                if t.bool() {
                    Ty::HashSet(bx(inner))
                } else {
                    Ty::BTreeSet(bx(inner))
                }
            } else {
                Ty::Vec(bx(inner))
            }
        }
        5 => {
            let inner = random_ty(t, depth - 1, structs, enums);
            if matches!(inner, Ty::Ref(_) | Ty::Prim("&str") | Ty::Prim("()")) {
                inner
            } else {
                Ty::Ref(bx(inner))
            }
        }
        6 => Ty::Option(bx(Ty::Vec(bx(random_ty(t, depth - 1, structs, enums))))),
        7 => Ty::Vec(bx(Ty::Option(bx(random_ty(t, depth - 1, structs, enums))))),
        _ => Ty::Tuple(vec![random_ty(t, depth - 1, structs, enums), random_ty(t, depth - 1, structs, enums)]),
    }
}

pub fn random_leaf(t: &mut Tape, structs: &[String], enums: &[String]) -> Ty {
    let n_named = structs.len() + enums.len();
    if n_named > 0 && t.chance(1, 3) {
        let i = t.pick(n_named);
        if i < structs.len() {
            Ty::Named(structs[i].clone())
        } else {
            Ty::Named(enums[i - structs.len()].clone())
        }
    } else {
        Ty::Prim(PRIMS[t.pick(PRIMS.len() - 1)]) // "()" only through explicit choice below
    }
}

pub fn random_key(t: &mut Tape, enums: &[String]) -> Ty {
    match t.pick(4) {
        0 | 1 => Ty::Prim("String"),
        2 => Ty::Prim(INT_KEYS[t.pick(INT_KEYS.len())]),
        _ => {
            if enums.is_empty() {
                Ty::Prim("String")
            } else {
                Ty::Named(enums[t.pick(enums.len())].clone())
            }
        }
    }
}
