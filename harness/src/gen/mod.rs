pub mod graph;
pub mod names;
pub mod rust;
pub mod ty;
