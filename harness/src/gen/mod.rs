pub mod graph;
pub mod names;
pub mod project;
pub mod rust;
pub mod rustsyntax;
pub mod ty;
