//! Rendering helpers for Rust source text. Every rendered file is parsed with `syn` by the
//! harness; a parse failure is a harness bug (exit 2), never a violation.

pub fn rust_str_lit(s: &str) -> String {
    let mut out = String::from("\"");
    for c in s.chars() {
        match c {
            '"' => out.push_str("\\\""),
            '\\' => out.push_str("\\\\"),
            '\n' => out.push_str("\\n"),
            '\r' => out.push_str("\\r"),
            '\t' => out.push_str("\\t"),
            '\0' => out.push_str("\\0"),
            c if (c as u32) < 0x20 || c as u32 == 0x7f => out.push_str(&format!("\\u{{{:x}}}", c as u32)),
            c => out.push(c),
        }
    }
    out.push('"');
    out
}

/// the declared value of a Rust string literal, obtained independently through syn
pub fn lit_value(lit_src: &str) -> String {
    match syn::parse_str::<syn::LitStr>(lit_src) {
        Ok(l) => l.value(),
        Err(e) => crate::run::infra_exit(&format!("harness rendered an invalid string literal {}: {}", lit_src, e)),
    }
}

pub fn must_parse(path: &str, src: &str) {
    if let Err(e) = syn::parse_file(src) {
        crate::run::infra_exit(&format!("harness bug: generated Rust file {} does not parse: {}\n{}", path, e, src));
    }
}

pub const PRELUDE: &str = "use serde::{Deserialize, Serialize};\nuse std::collections::{BTreeMap, BTreeSet, HashMap, HashSet};\nuse tauri::ipc::Channel;\nuse tauri::{AppHandle, Emitter, State, Window};\n\n";

pub fn unraw(name: &str) -> &str {
    name.strip_prefix("r#").unwrap_or(name)
}
