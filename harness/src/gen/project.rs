//! Whole-project generator (C01, C02, C10, C13): structs with serde / validator attributes, unit
//! enums, commands with value / injected / channel parameters, events, type mappings, naming-case
//! settings. `safe` steers around input classes with *known* defects of other properties.

use crate::gen::names;
use crate::gen::rust::{rust_str_lit, unraw, PRELUDE};
use crate::gen::ty::{random_ty, Ty};
use crate::model::serde_names::{wire_name, RULES};
use crate::tape::Tape;
use crate::tool::Cfg;
use std::collections::BTreeSet;

#[derive(Clone, Debug)]
pub struct FieldM {
    pub name: String,
    pub ty: Ty,
    pub rename: Option<String>,
    pub skip: bool,
    /// rendered `#[validate(...)]` payload, e.g. `length(min = 1, message = "x")`
    pub validate: Option<String>,
}

#[derive(Clone, Debug)]
pub struct StructM {
    pub name: String,
    pub file: usize,
    pub rename_all: Option<String>,
    pub fields: Vec<FieldM>,
    /// `pub struct X;`
    pub unit: bool,
    /// container attributes without effect on names (`default`, `deny_unknown_fields`) and
    /// where `rename_all` is written relative to them: "" | "same" | "before" | "after"
    pub noise: String,
}

#[derive(Clone, Debug)]
pub struct EnumM {
    pub name: String,
    pub file: usize,
    pub rename_all: Option<String>,
    pub variants: Vec<(String, Option<String>)>,
}

#[derive(Clone, Debug)]
pub enum ParamM {
    Value { name: String, ty: Ty },
    Injected { name: String, ty: String },
    Channel { name: String, msg: Ty },
}

#[derive(Clone, Debug)]
pub struct EmitM {
    pub event: String,
    /// "lit_str" | "lit_int" | "struct:<Name>" | "param:<index>" | "call"
    pub payload: String,
    /// `emit_to(<target>, ..)` instead of `emit(..)`
    pub to: Option<String>,
}

#[derive(Clone, Debug)]
pub struct CmdM {
    pub name: String,
    pub file: usize,
    pub is_async: bool,
    pub params: Vec<ParamM>,
    pub ret: Option<Ty>,
    pub emits: Vec<EmitM>,
    /// "#[tauri::command]" | "#[command]"
    pub attr: String,
}

#[derive(Clone, Debug)]
pub struct Proj {
    pub n_files: usize,
    pub structs: Vec<StructM>,
    pub enums: Vec<EnumM>,
    pub commands: Vec<CmdM>,
    pub cfg: Cfg,
    /// feature labels of this project (classification / known-finding tags)
    pub features: BTreeSet<String>,
    /// every type written with its path (`std::vec::Vec<crate::User>`) instead of relying on `use`
    pub qualify: bool,
}

pub fn file_path(i: usize) -> String {
    crate::gen::graph::file_path(i)
}

impl Proj {
    pub fn render(&self) -> Vec<(String, String)> {
        let mut files: Vec<String> = (0..self.n_files).map(|_| format!("{}use validator::Validate;\n\n", PRELUDE)).collect();
        for e in &self.enums {
            let s = &mut files[e.file];
            s.push_str("#[derive(Debug, Clone, Serialize, Deserialize, PartialEq, Eq, Hash, PartialOrd, Ord)]\n");
            if let Some(r) = &e.rename_all {
                s.push_str(&format!("#[serde(rename_all = \"{}\")]\n", r));
            }
            s.push_str(&format!("pub enum {} {{\n", e.name));
            for (v, ren) in &e.variants {
                if let Some(r) = ren {
                    s.push_str(&format!("    #[serde(rename = {})]\n", rust_str_lit(r)));
                }
                s.push_str(&format!("    {},\n", v));
            }
            s.push_str("}\n\n");
        }
        for st in &self.structs {
            let s = &mut files[st.file];
            if st.unit {
                s.push_str(&format!("#[derive(Debug, Clone, Default, Serialize, Deserialize)]\npub struct {};\n\n", st.name));
                continue;
            }
            // the serde derive in one attribute, or in a later one of two / qualified
            match (st.name.len() + st.fields.len()) % 4 {
                0 => s.push_str("#[derive(Debug, Clone)]\n#[derive(Serialize, Deserialize, Validate)]\n"),
                1 => s.push_str("#[derive(Debug, Clone, serde::Serialize, serde::Deserialize, Validate)]\n"),
                _ => s.push_str("#[derive(Debug, Clone, Serialize, Deserialize, Validate)]\n"),
            }
            match (st.noise.as_str(), &st.rename_all) {
                ("same", Some(r)) => s.push_str(&format!("#[serde(deny_unknown_fields, rename_all = \"{}\", default)]\n", r)),
                ("before", Some(r)) => s.push_str(&format!("#[serde(rename_all = \"{}\")]\n#[serde(default, deny_unknown_fields)]\n", r)),
                ("after", Some(r)) => s.push_str(&format!("#[serde(default)]\n#[serde(rename_all = \"{}\")]\n", r)),
                (_, Some(r)) => s.push_str(&format!("#[serde(rename_all = \"{}\")]\n", r)),
                ("", None) => {}
                (_, None) => s.push_str("#[serde(default, deny_unknown_fields)]\n"),
            }
            s.push_str(&format!("pub struct {} {{\n", st.name));
            for f in &st.fields {
                if let Some(v) = &f.validate {
                    s.push_str(&format!("    #[validate({})]\n", v));
                }
                if f.skip {
                    s.push_str("    #[serde(skip)]\n");
                }
                if let Some(r) = &f.rename {
                    s.push_str(&format!("    #[serde(rename = {})]\n", rust_str_lit(r)));
                }
                s.push_str(&format!("    pub {}: {},\n", f.name, f.ty.rust_with(true, self.qualify)));
            }
            s.push_str("}\n\n");
        }
        for c in &self.commands {
            let s = &mut files[c.file];
            let params: Vec<String> = c
                .params
                .iter()
                .map(|p| match p {
                    ParamM::Value { name, ty } => format!("{}: {}", name, ty.rust_with(false, self.qualify)),
                    ParamM::Injected { name, ty } => format!("{}: {}", name, ty),
                    ParamM::Channel { name, msg } => format!("{}: Channel<{}>", name, msg.rust_with(true, self.qualify)),
                })
                .collect();
            let mut body = String::new();
            for (k, e) in c.emits.iter().enumerate() {
                let payload = match e.payload.as_str() {
                    "lit_str" => "\"text\"".to_string(),
                    "lit_int" => "7".to_string(),
                    // every other untypable payload is a call of a module-qualified free function
                    "call" => if k % 2 == 1 || e.event == "untyped-first-site" { "payloads::progress(7)".to_string() } else { "compute()".to_string() },
                    p if p.starts_with("struct:") => format!("{} {{ ..Default::default() }}", &p[7..]),
                    p if p.starts_with("param:") => {
                        let idx: usize = p[6..].parse().unwrap();
                        match &c.params[idx] {
                            ParamM::Value { name, .. } => format!("&{}", name),
                            _ => "0".to_string(),
                        }
                    }
                    other => crate::run::infra_exit(&format!("unknown payload {}", other)),
                };
                let _ = k;
                match &e.to {
                    Some(target) => body.push_str(&format!("    app.emit_to({}, {}, {}).unwrap();\n", rust_str_lit(target), rust_str_lit(&e.event), payload)),
                    None => body.push_str(&format!("    app.emit({}, {}).unwrap();\n", rust_str_lit(&e.event), payload)),
                }
            }
            s.push_str(&c.attr);
            s.push('\n');
            let ret = c.ret.as_ref().map(|t| format!(" -> {}", t.rust_with(true, self.qualify))).unwrap_or_default();
            s.push_str(&format!("pub {}fn {}({}){} {{\n{}    todo!()\n}}\n\n", if c.is_async { "async " } else { "" }, c.name, params.join(", "), ret, body));
        }
        files.into_iter().enumerate().map(|(i, s)| (file_path(i), s)).collect()
    }

    pub fn struct_names(&self) -> Vec<String> {
        self.structs.iter().map(|s| s.name.clone()).collect()
    }
    pub fn enum_names(&self) -> Vec<String> {
        self.enums.iter().map(|s| s.name.clone()).collect()
    }

    /// names of project types reachable from the public surface (for reference; C07 owns the check)
    pub fn reachable_types(&self) -> BTreeSet<String> {
        let mut seen = BTreeSet::new();
        let mut stack: Vec<String> = vec![];
        for c in &self.commands {
            for p in &c.params {
                match p {
                    ParamM::Value { ty, .. } => ty.named_refs_ok_only(&mut stack),
                    ParamM::Channel { msg, .. } => msg.named_refs_ok_only(&mut stack),
                    _ => {}
                }
            }
            if let Some(r) = &c.ret {
                r.named_refs_ok_only(&mut stack);
            }
            for e in &c.emits {
                if let Some(n) = e.payload.strip_prefix("struct:") {
                    stack.push(n.to_string());
                }
                if let Some(i) = e.payload.strip_prefix("param:") {
                    if let ParamM::Value { ty, .. } = &c.params[i.parse::<usize>().unwrap()] {
                        ty.named_refs_ok_only(&mut stack);
                    }
                }
            }
        }
        while let Some(n) = stack.pop() {
            if !seen.insert(n.clone()) {
                continue;
            }
            if let Some(s) = self.structs.iter().find(|s| s.name == n) {
                for f in &s.fields {
                    if !f.skip {
                        f.ty.named_refs_ok_only(&mut stack);
                    }
                }
            }
        }
        seen.retain(|n| self.structs.iter().any(|s| &s.name == n) || self.enums.iter().any(|e| &e.name == n));
        seen
    }
}

pub const INJECTED_TYPES: &[&str] = &["AppHandle", "tauri::AppHandle", "State<'_, AppState>", "tauri::State<'_, AppState>", "tauri::Window", "WebviewWindow", "tauri::ipc::Request<'_>"];
pub const VALIDATE_POOL_STR: &[&str] = &["length(min = 1)", "length(min = 2, max = 40)", "email", "url", "length(max = 10, message = \"too long\")", "length(min = 1, message = \"Name fehlt – bitte ausfüllen\")", "length(min = 3, message = \"say \\\"hi\\\"\")"];
/// messages with control characters (legal unescaped in a JavaScript string literal) and with
/// words a template-filling renderer could mistake for placeholders; drawn after everything else
pub const VALIDATE_POOL_LATE: &[&str] = &[
    "length(min = 1, message = \"esc \\u{1b}[1m bold \\u{7} bell\")",
    "length(max = 30, message = \"form\\u{c}feed, nel \\u{85}, del \\u{7f}\")",
    "length(min = 2, max = 8, message = \"between {min} and {max} {opts}\")",
    "range(min = 1, max = 9, message = \"vt \\u{b} and esc \\u{1b}\")",
    "range(min = 0, message = \"at least {min}, at most {max}\")",
    "email(message = \"nul-free \\u{1} start\")",
];
pub const VALIDATE_POOL_NUM: &[&str] = &["range(min = 1, max = 100)", "range(min = 0)", "range(max = 9.5)", "range(min = 18, message = \"must be an adult\")", "range(min = -10, max = 10)", "range(min = 1, message = \"pick a \\\"small\\\" level\")", "range(max = 5, message = \"back\\\\slash – ünï\")", "range(min = 0, max = 9, message = \"line\\nbreak\")"];

/// Generate a project. With `safe`, input classes with known defects of *other* properties are
/// avoided (each avoided choice is reported through `avoided`).
pub fn random_project(t: &mut Tape, safe: bool, avoided: &mut u64) -> Proj {
    let mut features = BTreeSet::new();
    let n_files = t.range(1, 5);
    let mode = if t.bool() { "zod" } else { "none" };
    let mut cfg = Cfg::mode(mode);
    // --- type names
    let n_structs = t.range(0, 4);
    let n_enums = t.range(0, 2);
    let mut used_names: BTreeSet<String> = BTreeSet::new();
    let fresh_type = |t: &mut Tape, used: &mut BTreeSet<String>| -> String {
        for _ in 0..8 {
            let n = names::random_pascal(t);
            if names::is_usable_type_name(&n) && !used.contains(&n) {
                used.insert(n.clone());
                return n;
            }
        }
        let n = format!("Type{}", used.len());
        used.insert(n.clone());
        n
    };
    let mut enums = vec![];
    for _ in 0..n_enums {
        let name = fresh_type(t, &mut used_names);
        let mut rename_all = if t.chance(1, 3) { Some(t.choose(RULES).to_string()) } else { None };
        if safe {
            if let Some(r) = &rename_all {
                // variants get the field rule (known C06 class) whenever the two rules differ
                if !matches!(r.as_str(), "PascalCase") {
                    rename_all = None;
                    *avoided += 1;
                }
            }
        }
        let n_var = t.range(1, 4);
        let mut variants: Vec<(String, Option<String>)> = vec![];
        for i in 0..n_var {
            let mut v = names::random_pascal(t);
            if variants.iter().any(|(x, _)| x == &v) || !names::is_rust_ident(&v) {
                v = format!("Variant{}", i);
            }
            let mut ren = if t.chance(1, 5) { Some(random_rename(t)) } else { None };
            if safe {
                if let Some(r) = &ren {
                    if !r.chars().all(|c| c.is_ascii_alphanumeric() || c == '_' || c == '-' || c == ' ') {
                        ren = None;
                        *avoided += 1;
                    }
                }
            }
            variants.push((v, ren));
        }
        // wire names must be distinct
        let mut seen = BTreeSet::new();
        variants.retain(|(v, r)| seen.insert(wire_name(v, true, r.as_deref(), rename_all.as_deref())));
        enums.push(EnumM { name, file: t.pick(n_files), rename_all, variants });
    }
    let enum_names: Vec<String> = enums.iter().map(|e| e.name.clone()).collect();
    let struct_names: Vec<String> = (0..n_structs).map(|_| fresh_type(t, &mut used_names)).collect();
    // --- type mappings
    let mut mapped: Vec<String> = vec![];
    if t.chance(1, 4) {
        let n = t.range(1, 2);
        for _ in 0..n {
            let name = t.choose(&["PathBuf", "Uuid", "Decimal"]).to_string();
            if !mapped.contains(&name) {
                cfg.type_mappings.push((name.clone(), t.choose(&["string", "number"]).to_string()));
                mapped.push(name);
            }
        }
        features.insert("has=type_mapping".into());
    }
    if t.chance(1, 8) {
        let c = t.choose(&["camelCase", "snake_case", "PascalCase"]).to_string();
        cfg.param_case = Some(c);
        features.insert("has=param_case".into());
    }
    if t.chance(1, 8) {
        let c = t.choose(&["camelCase", "snake_case", "PascalCase"]).to_string();
        cfg.field_case = Some(c);
        features.insert("has=field_case".into());
    }
    let mut leaf_structs = struct_names.clone();
    leaf_structs.extend(mapped.iter().cloned());
    let gen_ty = |t: &mut Tape, depth: usize, avoided: &mut u64| -> Ty {
        let mut ty = random_ty(t, depth, &leaf_structs, &enum_names);
        if safe {
            // known C05 classes: a comma-carrying type below Result/tuple; seq of Option
            let bad = ty.tags().iter().any(|x| x == "cpair=seq>option") || tuple_with_comma_type(&ty);
            if bad {
                *avoided += 1;
                ty = random_ty(t, 1, &leaf_structs, &enum_names);
                if ty.tags().iter().any(|x| x == "cpair=seq>option") {
                    ty = Ty::Prim("String");
                }
            }
        }
        ty
    };
    // --- structs
    let mut structs = vec![];
    for name in &struct_names {
        let mut rename_all = if t.chance(1, 3) { Some(t.choose(RULES).to_string()) } else { None };
        if safe {
            if let Some(r) = &rename_all {
                if r.contains("kebab") || r.contains("KEBAB") {
                    rename_all = None;
                    *avoided += 1;
                }
            }
        }
        let n_fields = t.range(0, 5);
        let mut fields: Vec<FieldM> = vec![];
        for i in 0..n_fields {
            let mut fname = names::random_snake(t);
            if safe && fname.starts_with("r#") {
                fname = unraw(&fname).to_string() + "_";
                *avoided += 1;
            }
            if fields.iter().any(|f| f.name == fname) {
                fname = format!("field_{}", i);
            }
            let ty = gen_ty(t, 3, avoided);
            let mut rename = if t.chance(1, 5) { Some(random_rename(t)) } else { None };
            if safe {
                if let Some(r) = &rename {
                    if !crate::ts::lex::is_identifier_name(r) || r.contains("skip") {
                        rename = None;
                        *avoided += 1;
                    }
                }
            }
            let skip = t.chance(1, 10);
            let validate = if t.chance(1, 4) {
                match &ty {
                    Ty::Prim("String") => Some(t.choose(VALIDATE_POOL_STR).to_string()),
                    Ty::Prim(p) if crate::gen::ty::NUMERIC.contains(p) => Some(t.choose(VALIDATE_POOL_NUM).to_string()),
                    _ => None,
                }
            } else {
                None
            };
            let validate = if safe { validate.filter(|v| v.is_ascii() && !v.contains('-') && !v.contains("\\\"")) } else { validate };
            fields.push(FieldM { name: fname, ty, rename, skip, validate });
        }
        let mut seen = BTreeSet::new();
        fields.retain(|f| f.skip || seen.insert(wire_name(&f.name, false, f.rename.as_deref(), rename_all.as_deref())));
        let unit = fields.is_empty() && t.chance(1, 2);
        let noise = if t.chance(1, 4) { t.choose(&["same", "before", "after"]).to_string() } else { String::new() };
        if unit {
            features.insert("has=unit_struct".into());
        }
        if !noise.is_empty() {
            features.insert("has=container_attr_noise".into());
        }
        structs.push(StructM { name: name.clone(), file: t.pick(n_files), rename_all, fields, unit, noise });
    }
    // --- commands
    let n_cmds = t.range(1, 6);
    let mut commands: Vec<CmdM> = vec![];
    let reserved = names::js_reserved_legal_in_rust();
    let reserved_us = names::js_reserved_with_underscore();
    let mut event_pool: Vec<String> = vec![];
    for ci in 0..n_cmds {
        let mut name = match t.pick(13) {
            0 | 1 => t.choose(&reserved).to_string(),
            2 => t.choose(&reserved_us).clone(),
            // names the generated modules use themselves (imports of commands.ts)
            3 => t.choose(&["invoke", "types", "channel", "listen"]).to_string(),
            _ => names::random_snake(t),
        };
        if safe && (names::JS_RESERVED.contains(&unraw(&name)) || name.starts_with("r#")) {
            name = format!("cmd_{}", unraw(&name));
            *avoided += 1;
        }
        let camel = |s: &str| heck::ToLowerCamelCase::to_lower_camel_case(unraw(s));
        // two commands may share their camelCase form (`ping` / `_ping`): distinct for Tauri, and the
        // tool has to keep their wrappers apart; only identical Rust names are impossible
        if commands.iter().any(|c| unraw(&c.name) == unraw(&name)) || camel(&name).is_empty() {
            name = format!("command_{}", ci);
        } else if commands.iter().any(|c| camel(&c.name) == camel(&name)) {
            features.insert("has=colliding_command_names".into());
        }
        let n_params = t.pick(5);
        let mut params: Vec<ParamM> = vec![];
        for pi in 0..n_params {
            let mut pname = names::random_snake(t);
            if safe && pname.starts_with("r#") {
                pname = unraw(&pname).to_string() + "_";
                *avoided += 1;
            }
            let key = |s: &str| heck::ToLowerCamelCase::to_lower_camel_case(unraw(s));
            if params.iter().any(|p| {
                let n = match p {
                    ParamM::Value { name, .. } | ParamM::Injected { name, .. } | ParamM::Channel { name, .. } => name,
                };
                key(n) == key(&pname)
            }) || key(&pname).is_empty()
                || pname == "app"
            {
                pname = format!("arg_{}", pi);
            }
            match t.pick(6) {
                0 => params.push(ParamM::Injected { name: pname, ty: t.choose(INJECTED_TYPES).to_string() }),
                1 => params.push(ParamM::Channel { name: pname, msg: gen_ty(t, 2, avoided) }),
                _ => params.push(ParamM::Value { name: pname, ty: gen_ty(t, 3, avoided) }),
            }
        }
        let ret = match t.pick(5) {
            0 => None,
            1 => {
                let inner = gen_ty(t, 2, avoided);
                // `Result<T>` through a project-wide alias as well as the two-argument form
                if t.chance(1, 3) {
                    features.insert("has=result_alias".into());
                    Some(Ty::Result(Box::new(inner), None))
                } else {
                    Some(Ty::Result(Box::new(inner), Some(Box::new(Ty::Prim("String")))))
                }
            }
            2 => Some(Ty::Result(Box::new(Ty::Prim("()")), Some(Box::new(Ty::Prim("String"))))),
            _ => Some(gen_ty(t, 3, avoided)),
        };
        let ret = if safe {
            // Result<Map|Tuple, E> is split at the first comma (known C05 class)
            match ret {
                Some(Ty::Result(inner, e)) if inner.has_comma_inside() => {
                    *avoided += 1;
                    Some(Ty::Result(Box::new(Ty::Prim("bool")), e))
                }
                other => other,
            }
        } else {
            ret
        };
        let mut emits = vec![];
        if t.chance(1, 3) {
            let n = t.range(1, 2);
            for _ in 0..n {
                let mut ev = if !event_pool.is_empty() && t.chance(1, 4) && !safe { event_pool[t.pick(event_pool.len())].clone() } else { names::random_event_name(t) };
                if !event_pool.is_empty() && !safe && t.chance(1, 5) {
                    // near-twins of an existing name: '-'/'_' swapped, or with a numeric suffix
                    let base = event_pool[t.pick(event_pool.len())].clone();
                    ev = match t.pick(4) {
                        0 => base.replace('-', "_"),
                        1 => base.replace('_', "-"),
                        2 => format!("{}-2", base),
                        _ => format!("{}2", base),
                    };
                }
                if safe {
                    if ev.contains(':') || ev.contains('/') || ev.chars().next().map_or(true, |c| c.is_ascii_digit()) || event_pool.iter().any(|o| o.replace('-', "_") == ev.replace('-', "_")) {
                        *avoided += 1;
                        ev = format!("event-{}-{}", ci, emits.len());
                    }
                }
                let value_params: Vec<usize> = params.iter().enumerate().filter(|(_, p)| matches!(p, ParamM::Value { .. })).map(|(i, _)| i).collect();
                let payload = match t.pick(5) {
                    0 => "lit_str".to_string(),
                    1 => "lit_int".to_string(),
                    2 if !struct_names.is_empty() => format!("struct:{}", t.choose(&struct_names)),
                    3 if !value_params.is_empty() => {
                        let i = *t.choose(&value_params);
                        // only directly named / primitive parameter types are translated (known C12 class otherwise)
                        let direct = matches!(&params[i], ParamM::Value { ty: Ty::Named(_) | Ty::Prim(_), .. });
                        if safe && !direct {
                            *avoided += 1;
                            "lit_int".to_string()
                        } else {
                            format!("param:{}", i)
                        }
                    }
                    _ => "call".to_string(),
                };
                if !event_pool.contains(&ev) {
                    event_pool.push(ev.clone());
                }
                let to = if t.chance(1, 4) { Some(t.choose(&["main", "settings-window", "it's"]).to_string()) } else { None };
                if to.is_some() {
                    features.insert("has=emit_to".into());
                }
                emits.push(EmitM { event: ev, payload, to });
            }
            // emitting needs a handle named `app`
            if !params.iter().any(|p| matches!(p, ParamM::Injected { name, .. } if name == "app")) {
                params.insert(0, ParamM::Injected { name: "app".into(), ty: "AppHandle".into() });
            }
            // payload indices shift by one
            for e in &mut emits {
                if let Some(i) = e.payload.strip_prefix("param:") {
                    let idx: usize = i.parse().unwrap();
                    let new_idx = if matches!(params[0], ParamM::Injected { ref name, .. } if name == "app") && !matches!(params.get(idx), Some(ParamM::Value { .. })) { idx + 1 } else { idx };
                    e.payload = format!("param:{}", new_idx);
                }
            }
            features.insert("has=events".into());
        }
        let attr = if t.chance(1, 5) { "#[command]" } else { "#[tauri::command]" }.to_string();
        if attr == "#[command]" {
            features.insert("has=bare_command_attr".into());
        }
        commands.push(CmdM { name, file: t.pick(n_files), is_async: t.bool(), params, ret, emits, attr });
    }
    // one event emitted from two commands with two different payload structs that nothing else
    // mentions: whichever site the listener is typed after, both types are part of the surface
    if commands.len() >= 2 && t.chance(1, 6) && !structs.iter().any(|s: &StructM| s.name == "FirstSitePayload" || s.name == "SecondSitePayload") {
        let i = t.pick(commands.len() - 1);
        let j = i + 1 + t.pick(commands.len() - 1 - i);
        for (idx, sname) in [(i, "FirstSitePayload"), (j, "SecondSitePayload")] {
            structs.push(StructM { name: sname.to_string(), file: commands[idx].file, rename_all: None, fields: vec![FieldM { name: "seq".into(), ty: Ty::Prim("u32"), rename: None, skip: false, validate: None }], unit: false, noise: String::new() });
            commands[idx].emits.push(EmitM { event: "shared-by-two-sites".into(), payload: format!("struct:{}", sname), to: None });
            if !commands[idx].params.iter().any(|p| matches!(p, ParamM::Injected { name, .. } | ParamM::Value { name, .. } | ParamM::Channel { name, .. } if name == "app")) {
                commands[idx].params.insert(0, ParamM::Injected { name: "app".into(), ty: "AppHandle".into() });
                // payload indices of earlier emits point at parameters: shift them
                for e in &mut commands[idx].emits {
                    if let Some(n) = e.payload.strip_prefix("param:") {
                        let n: usize = n.parse().unwrap();
                        e.payload = format!("param:{}", n + 1);
                    }
                }
            }
        }
        features.insert("has=event_with_two_payload_structs".into());
        features.insert("has=events".into());
    }
    // the common pattern `fn create_user(params: CreateUserParams)`: a project struct named like the
    // parameter object the tool derives for the command
    if t.chance(1, 5) {
        let ci = t.pick(commands.len());
        let sname = format!("{}Params", heck::ToUpperCamelCase::to_upper_camel_case(unraw(&commands[ci].name)));
        if names::is_rust_ident(&sname) && !structs.iter().any(|s: &StructM| s.name == sname) && !enums.iter().any(|e: &EnumM| e.name == sname) {
            let file = commands[ci].file;
            structs.push(StructM { name: sname.clone(), file, rename_all: None, fields: vec![FieldM { name: "id".into(), ty: Ty::Prim("i32"), rename: None, skip: false, validate: None }], unit: false, noise: String::new() });
            if !commands[ci].params.iter().any(|p| matches!(p, ParamM::Value { name, .. } | ParamM::Injected { name, .. } | ParamM::Channel { name, .. } if name == "params")) {
                commands[ci].params.push(ParamM::Value { name: "params".into(), ty: Ty::Named(sname) });
            }
            features.insert("has=struct_named_like_params_object".into());
        }
    }
    // fix payload indices robustly: re-point every param payload at a Value parameter
    for c in &mut commands {
        let value_params: Vec<usize> = c.params.iter().enumerate().filter(|(_, p)| matches!(p, ParamM::Value { .. })).map(|(i, _)| i).collect();
        for e in &mut c.emits {
            if let Some(i) = e.payload.strip_prefix("param:") {
                let idx: usize = i.parse().unwrap();
                if !matches!(c.params.get(idx), Some(ParamM::Value { .. })) {
                    e.payload = match value_params.first() {
                        Some(v) => format!("param:{}", v),
                        None => "lit_int".to_string(),
                    };
                }
                if safe {
                    if let Some(j) = e.payload.strip_prefix("param:") {
                        let j: usize = j.parse().unwrap();
                        if !matches!(&c.params[j], ParamM::Value { ty: Ty::Named(_) | Ty::Prim(_), .. }) {
                            e.payload = "lit_int".into();
                        }
                    }
                }
            }
        }
    }
    // one event name must always carry one payload type
    let mut first_payload: std::collections::BTreeMap<String, String> = Default::default();
    for c in &mut commands {
        for e in &mut c.emits {
            let kind = if e.payload.starts_with("param:") { format!("cmd{}:{}", c.name, e.payload) } else { e.payload.clone() };
            match first_payload.get(&e.event) {
                None => {
                    first_payload.insert(e.event.clone(), kind);
                }
                Some(k) if *k != kind && k.starts_with("struct:") && kind.starts_with("struct:") && t.chance(1, 2) => {
                    // one event, two emission sites, two payload structs: the listener is typed
                    // after the first site, and that type has to be declared
                    features.insert("has=event_with_two_payload_structs".into());
                }
                Some(k) if *k != kind => {
                    e.payload = "lit_str".into();
                    if first_payload[&e.event] != "lit_str" {
                        e.event = format!("{}-b", e.event);
                        first_payload.insert(e.event.clone(), "lit_str".into());
                    }
                }
                _ => {}
            }
        }
    }
    // classification
    for c in &commands {
        if names::JS_RESERVED.contains(&unraw(&c.name)) {
            features.insert("has=reserved_command_name".into());
        }
        for p in &c.params {
            let n = match p {
                ParamM::Value { name, .. } | ParamM::Injected { name, .. } | ParamM::Channel { name, .. } => name,
            };
            if n.starts_with("r#") {
                features.insert("has=raw_ident".into());
            }
            if matches!(p, ParamM::Channel { .. }) {
                features.insert("has=channel".into());
            }
        }
        for e in &c.emits {
            if e.event.contains(':') || e.event.contains('/') {
                features.insert("has=event_colon_or_slash".into());
            }
        }
    }
    for s in &structs {
        if let Some(r) = &s.rename_all {
            features.insert(format!("has=rename_all:{}", r));
        }
        for f in &s.fields {
            if f.name.starts_with("r#") {
                features.insert("has=raw_ident".into());
            }
            if let Some(r) = &f.rename {
                if !crate::ts::lex::is_identifier_name(r) {
                    features.insert("has=nonident_rename".into());
                }
            }
            if f.validate.is_some() {
                features.insert("has=validator".into());
            }
            if f.ty.depth() >= 2 {
                features.insert("has=type_depth>=2".into());
            }
        }
    }
    features.insert(format!("mode={}", cfg.mode));
    let qualify = t.chance(1, 3);
    if qualify {
        features.insert("has=qualified_paths".into());
    }
    // later additions draw after everything else, so that the meaning of earlier tape values
    // stays what it was (an exhausted tape yields 0 = nothing added)
    if !safe && t.pick(2) == 1 {
        let late = *t.choose(VALIDATE_POOL_LATE);
        let numeric = late.starts_with("range");
        'outer: for s in structs.iter_mut() {
            for f in s.fields.iter_mut() {
                let fits = match &f.ty {
                    Ty::Prim("String") => !numeric,
                    Ty::Prim(p) => numeric && crate::gen::ty::NUMERIC.contains(p),
                    _ => false,
                };
                if fits && !f.skip {
                    f.validate = Some(late.to_string());
                    features.insert("has=validator".into());
                    features.insert("has=late_validator_message".into());
                    break 'outer;
                }
            }
        }
        if !features.contains("has=late_validator_message") {
            if let Some(s) = structs.iter_mut().find(|s| !s.unit && !s.fields.iter().any(|f| f.name == "late_note" || f.name == "late_level")) {
                let (name, ty) = if numeric { ("late_level", Ty::Prim("i32")) } else { ("late_note", Ty::Prim("String")) };
                s.fields.push(FieldM { name: name.into(), ty, rename: None, skip: false, validate: Some(late.to_string()) });
                features.insert("has=validator".into());
                features.insert("has=late_validator_message".into());
            }
        }
    }
    // one event emitted from two commands: the first site's payload cannot be typed from the
    // syntax (a call), the second emits a struct nothing else mentions. Whatever the listener is
    // typed after, every name the generated files mention has to be declared.
    if !safe && commands.len() >= 2 && t.pick(4) == 3 && !structs.iter().any(|s: &StructM| s.name == "LateSitePayload") {
        let i = t.pick(commands.len() - 1);
        let j = i + 1 + t.pick(commands.len() - 1 - i);
        structs.push(StructM { name: "LateSitePayload".to_string(), file: commands[j].file, rename_all: None, fields: vec![FieldM { name: "seq".into(), ty: Ty::Prim("u32"), rename: None, skip: false, validate: None }], unit: false, noise: String::new() });
        for (idx, payload) in [(i, "call".to_string()), (j, "struct:LateSitePayload".to_string())] {
            commands[idx].emits.push(EmitM { event: "untyped-first-site".into(), payload, to: None });
            if !commands[idx].params.iter().any(|p| matches!(p, ParamM::Injected { name, .. } | ParamM::Value { name, .. } | ParamM::Channel { name, .. } if name == "app")) {
                commands[idx].params.insert(0, ParamM::Injected { name: "app".into(), ty: "AppHandle".into() });
                for e in &mut commands[idx].emits {
                    if let Some(n) = e.payload.strip_prefix("param:") {
                        let n: usize = n.parse().unwrap();
                        e.payload = format!("param:{}", n + 1);
                    }
                }
            }
        }
        features.insert("has=event_untyped_first_site".into());
        features.insert("has=events".into());
    }
    Proj { n_files, structs, enums, commands, cfg, features, qualify }
}

/// a tuple one of whose elements itself contains a comma (map, tuple): mis-split by the tool
/// (known C05 class)
pub fn tuple_with_comma_type(t: &Ty) -> bool {
    match t {
        Ty::Tuple(v) => v.iter().any(|e| e.has_comma_inside()) || v.iter().any(tuple_with_comma_type),
        Ty::Option(i) | Ty::Vec(i) | Ty::HashSet(i) | Ty::BTreeSet(i) | Ty::Ref(i) => tuple_with_comma_type(i),
        Ty::HashMap(k, v) | Ty::BTreeMap(k, v) => tuple_with_comma_type(k) || tuple_with_comma_type(v),
        Ty::Result(a, b) => tuple_with_comma_type(a) || b.as_ref().map_or(false, |b| tuple_with_comma_type(b)),
        _ => false,
    }
}

pub fn random_rename(t: &mut Tape) -> String {
    const POOL: &[&str] = &["userId", "user-id", "USER-ID", "with space", "quo\"te", "back\\slash", "ünï", "a.b", "type", "x", "emoji😀", "it's", "delete", "kebab-case-name", "Title Case", "123"];
    t.choose(POOL).to_string()
}
