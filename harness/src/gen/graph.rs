//! Type dependency graphs spread over files (C07, C09): model, rendering, reachability.

use crate::gen::rust::PRELUDE;
use crate::gen::ty::{bx, Ty};
use crate::tape::Tape;
use std::collections::{BTreeMap, BTreeSet};

/// how a reference to a type is wrapped at an edge or a root
pub const WRAPS: &[&str] = &[
    "direct",
    "option",
    "vec",
    "hashset",
    "map_value",
    "map_key",
    "tuple_first",
    "tuple_last",
    "vec_option",
    "option_vec",
    "map_vec",
    "tuple_map",
    "vec_tuple",
    "btreemap_tuple",
    "map_map",
    "tuple3_mid",
];

/// wraps containing a Vec/Set/Map (usable to close a cycle in real Rust)
pub fn wrap_is_indirect(w: &str) -> bool {
    !matches!(w, "direct" | "option" | "tuple_first" | "tuple_last" | "tuple3_mid")
}

pub fn wrap(w: &str, t: Ty, target_is_enum: bool) -> Ty {
    let s = || Ty::Prim("String");
    let n = || Ty::Prim("i32");
    match w {
        "direct" => t,
        "option" => Ty::Option(bx(t)),
        "vec" => Ty::Vec(bx(t)),
        "hashset" => Ty::HashSet(bx(t)),
        "map_value" => Ty::HashMap(bx(s()), bx(t)),
        "map_key" => {
            if target_is_enum {
                Ty::HashMap(bx(t), bx(n()))
            } else {
                Ty::HashMap(bx(s()), bx(t))
            }
        }
        "tuple_first" => Ty::Tuple(vec![t, n()]),
        "tuple_last" => Ty::Tuple(vec![s(), t]),
        "vec_option" => Ty::Vec(bx(Ty::Option(bx(t)))),
        "option_vec" => Ty::Option(bx(Ty::Vec(bx(t)))),
        "map_vec" => Ty::HashMap(bx(s()), bx(Ty::Vec(bx(t)))),
        "tuple_map" => Ty::Tuple(vec![s(), Ty::HashMap(bx(s()), bx(t))]),
        "vec_tuple" => Ty::Vec(bx(Ty::Tuple(vec![t, n()]))),
        "btreemap_tuple" => Ty::BTreeMap(bx(s()), bx(Ty::Tuple(vec![n(), t]))),
        "map_map" => Ty::HashMap(bx(s()), bx(Ty::BTreeMap(bx(n()), bx(t)))),
        "tuple3_mid" => Ty::Tuple(vec![n(), t, s()]),
        // later additions (not in WRAPS, whose indices stay what they were): the reference sits
        // below nine / twelve constructors
        "deep9" => {
            // Vec<Option<HashMap<String, Vec<Option<(i32, Vec<Option<BTreeMap<String, Vec<T>>>>)>>>>>
            let l1 = Ty::BTreeMap(bx(s()), bx(Ty::Vec(bx(t))));
            let l2 = Ty::Tuple(vec![n(), Ty::Vec(bx(Ty::Option(bx(l1))))]);
            let l3 = Ty::HashMap(bx(s()), bx(Ty::Vec(bx(Ty::Option(bx(l2))))));
            Ty::Vec(bx(Ty::Option(bx(l3))))
        }
        "deep12" => wrap("deep9", Ty::Option(bx(Ty::Vec(bx(Ty::Tuple(vec![s(), t]))))), target_is_enum),
        other => crate::run::infra_exit(&format!("unknown wrap {}", other)),
    }
}

#[derive(Clone, Debug)]
pub struct Node {
    pub name: String,
    pub is_enum: bool,
    pub file: usize,
    /// derives Serialize/Deserialize
    pub serde: bool,
    /// how the serde derive is spelled: both | ser | de | qualified | split
    pub derive: &'static str,
    /// `pub struct X;` (struct nodes without outgoing edges only)
    pub unit: bool,
    /// declared inside an inline module of its file (`pub mod m { .. }` + `pub use m::*;`)
    pub inline_mod: bool,
    /// (inline_mod only) an earlier private inline module of the same file declares a type of the
    /// same name without serde derives; it is not re-exported, so every mention means this node
    pub shadowed: bool,
}

pub const DERIVE_FORMS: &[&str] = &["both", "ser", "de", "qualified", "split"];

impl Node {
    pub fn new(name: String, is_enum: bool, file: usize, serde: bool) -> Node {
        Node { name, is_enum, file, serde, derive: "both", unit: false, inline_mod: false, shadowed: false }
    }
}

#[derive(Clone, Debug)]
pub struct Edge {
    pub from: usize,
    pub to: usize,
    pub wrap: String,
}

pub const ROOT_SITES: &[&str] = &["param", "return", "result_ok", "result_err", "channel", "event", "event_to"];

#[derive(Clone, Debug)]
pub struct Root {
    pub site: String,
    pub wrap: String,
    pub node: usize,
    pub file: usize,
}

#[derive(Clone, Debug)]
pub struct TypeGraph {
    pub n_files: usize,
    pub nodes: Vec<Node>,
    pub edges: Vec<Edge>,
    pub roots: Vec<Root>,
    /// every type written with its path (`std::vec::Vec<crate::Alpha>`)
    pub qualify: bool,
}

pub fn file_path(i: usize) -> String {
    match i {
        0 => "src/lib.rs".to_string(),
        1 => "src/models.rs".to_string(),
        2 => "src/commands/mod.rs".to_string(),
        3 => "src/domain/types/deep.rs".to_string(),
        n => format!("src/extra{}.rs", n),
    }
}

impl TypeGraph {
    pub fn field_ty(&self, e: &Edge) -> Ty {
        wrap(&e.wrap, Ty::named(&self.nodes[e.to].name), self.nodes[e.to].is_enum)
    }

    pub fn root_ty(&self, r: &Root) -> Ty {
        wrap(&r.wrap, Ty::named(&self.nodes[r.node].name), self.nodes[r.node].is_enum)
    }

    /// expected set of emitted types: BFS from the roots (error arms do not count), through
    /// struct fields; only serde types are followed / emitted
    pub fn reachable(&self) -> BTreeSet<usize> {
        let mut seen = BTreeSet::new();
        let mut stack: Vec<usize> = self.roots.iter().filter(|r| r.site != "result_err").map(|r| r.node).collect();
        while let Some(i) = stack.pop() {
            if !self.nodes[i].serde || !seen.insert(i) {
                continue;
            }
            for e in self.edges.iter().filter(|e| e.from == i) {
                stack.push(e.to);
            }
        }
        seen
    }

    pub fn render(&self) -> Vec<(String, String)> {
        let mut files: BTreeMap<usize, String> = BTreeMap::new();
        for f in 0..self.n_files {
            files.insert(f, String::from(PRELUDE));
        }
        for (i, n) in self.nodes.iter().enumerate() {
            let file_text = files.get_mut(&n.file).unwrap();
            let mut def = String::new();
            let s = &mut def;
            if n.serde {
                s.push_str(match n.derive {
                    "ser" => "#[derive(Debug, Clone, Serialize, PartialEq, Eq, Hash)]\n",
                    "de" => "#[derive(Debug, Clone, Deserialize, PartialEq, Eq, Hash)]\n",
                    "qualified" => "#[derive(Debug, Clone, serde::Serialize, serde::Deserialize, PartialEq, Eq, Hash)]\n",
                    "split" => "#[derive(Debug, Clone)]\n#[derive(PartialEq, Eq, Hash)]\n#[derive(Serialize, Deserialize)]\n",
                    _ => "#[derive(Debug, Clone, Serialize, Deserialize, PartialEq, Eq, Hash)]\n",
                });
            } else {
                s.push_str("#[derive(Debug, Clone, PartialEq)]\n");
            }
            if n.is_enum {
                s.push_str(&format!("pub enum {} {{\n    First,\n    Second,\n}}\n\n", n.name));
            } else if n.unit && !self.edges.iter().any(|e| e.from == i) {
                s.push_str(&format!("pub struct {};\n\n", n.name));
            } else {
                s.push_str(&format!("pub struct {} {{\n    pub id: i32,\n", n.name));
                for (k, e) in self.edges.iter().filter(|e| e.from == i).enumerate() {
                    // serde serialises private fields too: an edge through one is an edge
                    let vis = ["pub ", "", "pub ", "pub(crate) "][(i + k + e.to) % 4];
                    s.push_str(&format!("    {}f{}: {},\n", vis, k, self.field_ty(e).rust_with(true, self.qualify)));
                }
                s.push_str("}\n\n");
            }
            if n.inline_mod {
                let m = format!("inline_{}", n.name.to_lowercase());
                if n.shadowed {
                    file_text.push_str(&format!("mod runtime_{} {{\n    #[derive(Debug)]\n    pub struct {} {{\n        pub handle: usize,\n        pub never_serialised: bool,\n    }}\n}}\n\n", n.name.to_lowercase(), n.name));
                }
                file_text.push_str(&format!("pub mod {} {{\n    use super::*;\n\n    {}}}\n\npub use {}::*;\n\n", m, def.trim_end().replace('\n', "\n    ").trim_end_matches(' ').to_string() + "\n", m));
            } else {
                file_text.push_str(&def);
            }
        }
        for (k, r) in self.roots.iter().enumerate() {
            let s = files.get_mut(&r.file).unwrap();
            let t = self.root_ty(r);
            match r.site.as_str() {
                "param" => s.push_str(&format!("#[tauri::command]\npub fn take_{}(value: {}) {{}}\n\n", k, t.rust_with(false, self.qualify))),
                "return" => s.push_str(&format!("#[tauri::command]\npub fn give_{}() -> {} {{\n    todo!()\n}}\n\n", k, t.rust_with(true, self.qualify))),
                "result_ok" => s.push_str(&format!("#[tauri::command]\npub async fn try_{}() -> Result<{}, String> {{\n    todo!()\n}}\n\n", k, t.rust_with(true, self.qualify))),
                "result_err" => s.push_str(&format!("#[tauri::command]\npub async fn fail_{}() -> Result<i32, {}> {{\n    todo!()\n}}\n\n", k, t.rust_with(true, self.qualify))),
                "channel" => s.push_str(&format!("#[tauri::command]\npub fn stream_{}(on_item: Channel<{}>) {{}}\n\n", k, t.rust_with(true, self.qualify))),
                "event_to" => s.push_str(&format!("pub fn tell_{}(app: &AppHandle, payload: {}) {{\n    app.emit_to(\"main\", \"evt-{}\", payload).unwrap();\n}}\n\n", k, t.rust_with(false, self.qualify), k)),
                "event" => s.push_str(&format!("pub fn notify_{}(app: &AppHandle, payload: {}) {{\n    app.emit(\"evt-{}\", payload).unwrap();\n}}\n\n", k, t.rust_with(false, self.qualify), k)),
                other => crate::run::infra_exit(&format!("unknown root site {}", other)),
            }
        }
        // at least one command must exist, or nothing is generated at all
        if !self.roots.iter().any(|r| r.site != "event" && r.site != "event_to") {
            files.get_mut(&0).unwrap().push_str("#[tauri::command]\npub fn ping() -> i32 {\n    1\n}\n\n");
        }
        files.into_iter().map(|(i, s)| (file_path(i), s)).collect()
    }

    pub fn summary(&self) -> serde_json::Value {
        serde_json::json!({
            "nodes": self.nodes.iter().map(|n| format!("{}{}{}@{}", if n.is_enum {"enum "} else if n.unit {"unit struct "} else if n.inline_mod {"struct (inline mod) "} else {"struct "}, n.name, if n.serde {""} else {" (no serde)"}, file_path(n.file))).collect::<Vec<_>>(),
            "edges": self.edges.iter().map(|e| format!("{} -> {} via {}", self.nodes[e.from].name, self.nodes[e.to].name, e.wrap)).collect::<Vec<_>>(),
            "roots": self.roots.iter().map(|r| format!("{}[{}] {} @{}", r.site, r.wrap, self.nodes[r.node].name, file_path(r.file))).collect::<Vec<_>>(),
        })
    }
}

pub const TYPE_NAMES: &[&str] = &["Alpha", "Beta", "Gamma", "Delta", "Epsilon", "Zeta", "Eta", "Theta", "Iota", "Kappa"];

/// random graph for C07: chains, diamonds, fan-out, cycles, self-loops, decoys
pub fn random_graph(t: &mut Tape, allow_cycles: bool) -> TypeGraph {
    let n_files = t.range(1, 5);
    let n = t.range(1, 8);
    let mut nodes = vec![];
    for i in 0..n {
        let is_enum = t.chance(1, 4);
        nodes.push(Node::new(TYPE_NAMES[i].to_string(), is_enum, t.pick(n_files), true));
    }
    let mut edges = vec![];
    for from in 0..n {
        if nodes[from].is_enum {
            continue;
        }
        let k = t.pick(4);
        for _ in 0..k {
            let to = t.pick(n);
            if !allow_cycles && to <= from {
                continue;
            }
            let mut w = t.choose(WRAPS).to_string();
            if to <= from && !wrap_is_indirect(&w) {
                w = "vec".into();
            }
            if w == "hashset" && !nodes[to].is_enum {
                // sets of structs need Hash; we derive it, fine
            }
            if edges.iter().any(|e: &Edge| e.from == from && e.to == to && e.wrap == w) {
                continue;
            }
            edges.push(Edge { from, to, wrap: w });
        }
    }
    for i in 0..n {
        if t.chance(1, 3) {
            nodes[i].derive = *t.choose(DERIVE_FORMS);
        }
        if !nodes[i].is_enum && !edges.iter().any(|e| e.from == i) && t.chance(1, 4) {
            nodes[i].unit = true;
        }
        if t.chance(1, 6) {
            nodes[i].inline_mod = true;
        }
    }
    let n_roots = t.range(1, 3);
    let mut roots = vec![];
    for _ in 0..n_roots {
        let site = t.choose(ROOT_SITES).to_string();
        let node = t.pick(n);
        let w = if site == "event" || site == "event_to" || site == "result_err" { "direct".to_string() } else { t.choose(WRAPS).to_string() };
        roots.push(Root { site, wrap: w, node, file: t.pick(n_files) });
    }
    // decoys: a type without serde derive (never referenced), appended as extra nodes
    if t.chance(1, 2) {
        nodes.push(Node::new("PlainHelper".into(), false, t.pick(n_files), false));
    }
    if t.chance(1, 3) {
        nodes.push(Node::new("InternalState".into(), t.bool(), t.pick(n_files), false));
    }
    if t.chance(1, 2) {
        nodes.push(Node::new("UnusedDto".into(), t.bool(), t.pick(n_files), true));
    }
    let qualify = t.chance(1, 4);
    // later addition, drawn last (an exhausted tape yields 0 = unchanged): one edge or root
    // mentions its target only far below the surface of the type expression
    match t.pick(6) {
        4 if !edges.is_empty() => {
            let k = t.pick(edges.len());
            edges[k].wrap = (*t.choose(&["deep9", "deep12"])).to_string();
        }
        5 => {
            let cands: Vec<usize> = roots.iter().enumerate().filter(|(_, r)| r.wrap != "direct" || !(r.site == "event" || r.site == "event_to" || r.site == "result_err")).map(|(i, _)| i).collect();
            if !cands.is_empty() {
                let k = cands[t.pick(cands.len())];
                if !(roots[k].site == "event" || roots[k].site == "event_to" || roots[k].site == "result_err") {
                    roots[k].wrap = (*t.choose(&["deep9", "deep12"])).to_string();
                }
            }
        }
        _ => {}
    }
    // later addition, drawn last: a non-serde namesake in an earlier private inline module
    if t.pick(4) == 3 {
        let cands: Vec<usize> = (0..n).filter(|i| nodes[*i].inline_mod && nodes[*i].serde).collect();
        if !cands.is_empty() {
            let k = cands[t.pick(cands.len())];
            nodes[k].shadowed = true;
        }
    }
    TypeGraph { n_files, nodes, edges, roots, qualify }
}
