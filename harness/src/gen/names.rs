//! Name pools (DESIGN.md §2.3): ordinary, adversarial-but-legal, and helpers to build random
//! multi-word identifiers. Everything that is handed out as a Rust identifier is filtered through
//! `syn` once.

use crate::tape::Tape;

pub const WORDS: &[&str] = &["user", "id", "name", "item", "count", "http", "server", "v2", "x", "data", "list", "value", "is", "ok", "url", "a", "b2c", "first", "last", "order"];

/// JS/TS reserved words; those that are legal Rust identifiers are used as command / parameter /
/// field names on purpose
pub const JS_RESERVED: &[&str] = &[
    "delete", "new", "class", "function", "default", "var", "export", "import", "with", "void", "null", "typeof", "instanceof", "switch",
    "case", "this", "throw", "catch", "finally", "package", "interface", "private", "public", "protected", "implements", "debugger", "extends",
    "super", "enum", "const", "static", "let", "in", "do", "if", "else", "for", "while", "return", "break", "continue", "true", "false", "try",
    "yield", "await",
];

pub fn is_rust_ident(s: &str) -> bool {
    syn::parse_str::<syn::Ident>(s).is_ok()
}

/// JS reserved words that Rust accepts as plain identifiers
pub fn js_reserved_legal_in_rust() -> Vec<&'static str> {
    JS_RESERVED.iter().copied().filter(|w| is_rust_ident(w)).collect()
}

/// reserved words dodged the Rust way (`try_`, `_delete`): camelCase drops the underscore again
pub fn js_reserved_with_underscore() -> Vec<String> {
    let mut v = vec![];
    for w in JS_RESERVED {
        for cand in [format!("{}_", w), format!("_{}", w), format!("{}__", w)] {
            if is_rust_ident(&cand) {
                v.push(cand);
            }
        }
    }
    v
}

pub const SNAKE_EDGE: &[&str] = &["_x", "a__b", "x_", "_", "v2", "x1_y2", "http2_server", "a", "id", "user_id", "first_name", "a_b_c_d", "is_ok", "__private", "value_", "r#type", "r#match", "r#fn"];

/// `_` alone is not an identifier for a parameter pattern binding in our renderer (it is a
/// wildcard pattern): filter it out where a binding is needed.
pub fn snake_pool() -> Vec<String> {
    let mut v: Vec<String> = SNAKE_EDGE.iter().filter(|s| **s != "_").map(|s| s.to_string()).collect();
    v.extend(js_reserved_legal_in_rust().into_iter().map(String::from));
    v
}

pub fn plain_snake(t: &mut Tape) -> String {
    let n = t.range(1, 3);
    let mut parts = vec![];
    for _ in 0..n {
        parts.push(*t.choose(&["user", "id", "name", "item", "count", "data", "list", "value", "first", "last", "order", "key", "path"]));
    }
    parts.join("_")
}

pub fn random_snake(t: &mut Tape) -> String {
    if t.chance(1, 3) {
        let pool = snake_pool();
        return t.choose(&pool).clone();
    }
    let n = t.range(1, 4);
    let mut parts = vec![];
    for _ in 0..n {
        parts.push(*t.choose(WORDS));
    }
    let mut s = parts.join("_");
    if s.chars().next().unwrap().is_ascii_digit() {
        s.insert(0, 'n');
    }
    if !is_rust_ident(&s) {
        s.push_str("_v");
    }
    s
}

pub const PASCAL_EDGE: &[&str] = &["User", "Item", "OrderLine", "HTTPServer", "V2", "A", "Ab", "XMLHttpRequest2", "UserId", "IOError", "X1Y2"];

pub fn random_pascal(t: &mut Tape) -> String {
    if t.chance(1, 3) {
        return t.choose(PASCAL_EDGE).to_string();
    }
    let n = t.range(1, 3);
    let mut s = String::new();
    for _ in 0..n {
        let w = *t.choose(&["User", "Item", "Order", "Line", "HTTP", "Server", "V2", "Data", "Kind", "State", "Io", "X"]);
        s.push_str(w);
    }
    s
}

/// names that TypeScript predefines or that the tool's own output uses; never used for project types
pub const TS_GLOBALS: &[&str] = &[
    "Record", "Array", "Promise", "Map", "Set", "Date", "Error", "Object", "String", "Number", "Boolean", "Function", "Symbol", "Channel", "Event", "UnlistenFn",
    "ZodError", "CommandHooks", "Partial", "Readonly", "Pick", "Omit", "Required", "Exclude", "Extract", "Uppercase", "Lowercase", "Parameters",
];

pub fn is_usable_type_name(n: &str) -> bool {
    !TS_GLOBALS.contains(&n) && !n.ends_with("Params") && !n.ends_with("Schema") && is_rust_ident(n) && n.chars().next().map_or(false, |c| c.is_ascii_uppercase())
}

/// event names over the characters Tauri allows: alphanumerics, '-', '/', ':', '_'
pub fn random_event_name(t: &mut Tape) -> String {
    const PLAIN: &[&str] = &["update", "user-updated", "progress", "download_done", "app://ready", "user:login", "a/b", "x", "data-changed", "tick2", "user-updated-2", "user_updated", "user-updated2", "progress-2", "x2", "x-2"];
    if t.chance(1, 2) {
        return t.choose(PLAIN).to_string();
    }
    let n = t.range(1, 4);
    let mut s = String::new();
    for i in 0..n {
        if i > 0 {
            s.push(*t.choose(&['-', '_', ':', '/', '-', '_']));
        }
        s.push_str(*t.choose(&["user", "file", "sync", "v2", "x", "done", "App", "state", "9"]));
    }
    s
}
