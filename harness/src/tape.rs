//! Choice tape: every generator in the harness is a deterministic function `Tape -> Case`.
//!
//! `pick(n) = (x * n) >> 32` is monotone in `x`, so lowering a tape value always moves towards the
//! alternative a generator lists first (its simplest one); an exhausted tape yields 0. proptest
//! supplies and shrinks tapes (`Vec<u32>`), libFuzzer supplies bytes read as a tape, replay files
//! store the tape.

#[derive(Clone, Debug)]
pub struct Tape {
    data: Vec<u32>,
    pos: usize,
}

impl Tape {
    pub fn new(data: Vec<u32>) -> Self {
        Tape { data, pos: 0 }
    }

    pub fn from_bytes(bytes: &[u8]) -> Self {
        let mut data = Vec::with_capacity(bytes.len() / 2 + 1);
        // two bytes per choice: enough resolution for every `pick` in the generators, and a
        // fuzzer mutation of one byte changes one choice.
        for ch in bytes.chunks(2) {
            let hi = ch[0] as u32;
            let lo = if ch.len() > 1 { ch[1] as u32 } else { 0 };
            data.push((hi << 24) | (lo << 16));
        }
        Tape { data, pos: 0 }
    }

    pub fn raw(&mut self) -> u32 {
        let v = self.data.get(self.pos).copied().unwrap_or(0);
        self.pos += 1;
        v
    }

    /// uniform-ish choice in 0..n (n >= 1), monotone in the tape value
    pub fn pick(&mut self, n: usize) -> usize {
        if n <= 1 {
            // still consume, so that structure of later choices does not depend on n
            self.raw();
            return 0;
        }
        ((self.raw() as u64 * n as u64) >> 32) as usize
    }

    /// inclusive range
    pub fn range(&mut self, lo: usize, hi: usize) -> usize {
        lo + self.pick(hi - lo + 1)
    }

    pub fn bool(&mut self) -> bool {
        self.pick(2) == 1
    }

    /// true with probability num/den; `false` is the simple alternative
    pub fn chance(&mut self, num: usize, den: usize) -> bool {
        self.pick(den) >= den - num
    }

    pub fn choose<'a, T>(&mut self, xs: &'a [T]) -> &'a T {
        &xs[self.pick(xs.len())]
    }

    pub fn consumed(&self) -> usize {
        self.pos
    }

    pub fn data(&self) -> &[u32] {
        &self.data
    }
}

/// Small deterministic PRNG used only to *produce tapes* outside proptest (corpus seeding).
/// Properties never call it.
pub struct SplitMix(pub u64);
impl SplitMix {
    pub fn next(&mut self) -> u64 {
        self.0 = self.0.wrapping_add(0x9E3779B97F4A7C15);
        let mut z = self.0;
        z = (z ^ (z >> 30)).wrapping_mul(0xBF58476D1CE4E5B9);
        z = (z ^ (z >> 27)).wrapping_mul(0x94D049BB133111EB);
        z ^ (z >> 31)
    }
}
