//! C02 — generated modules are closed: every name resolves, none is declared twice.

use crate::gen::project::{random_project, Proj};
use crate::gen::rust::must_parse;
use crate::run::{Ctx, Failure, Stats};
use crate::tape::Tape;
use crate::tool::generate;
use crate::ts::ast::Item;
use crate::ts::resolve::{module_refs, GLOBAL_TYPES, GLOBAL_VALUES};
use crate::tsx;
use serde_json::{json, Value};
use std::collections::{BTreeMap, BTreeSet};

#[derive(Default, Debug)]
pub struct ModuleTable {
    pub type_decls: BTreeMap<String, usize>,
    pub value_decls: BTreeMap<String, usize>,
    pub exported_types: BTreeSet<String>,
    pub exported_values: BTreeSet<String>,
    /// imported binding -> type_only
    pub imports: BTreeMap<String, bool>,
    /// namespace import -> module
    pub namespaces: BTreeMap<String, String>,
    pub reexports: Vec<String>,
    pub has_errors: bool,
}

pub fn table_of(p: &tsx::Parsed) -> ModuleTable {
    let mut t = ModuleTable { has_errors: !p.errors().is_empty(), ..Default::default() };
    for it in &p.module.items {
        match &it.item {
            Item::Interface(i) => {
                *t.type_decls.entry(i.name.clone()).or_insert(0) += 1;
                if i.exported {
                    t.exported_types.insert(i.name.clone());
                }
            }
            Item::TypeAlias { name, exported, .. } => {
                *t.type_decls.entry(name.clone()).or_insert(0) += 1;
                if *exported {
                    t.exported_types.insert(name.clone());
                }
            }
            Item::Const { name, exported, .. } => {
                *t.value_decls.entry(name.clone()).or_insert(0) += 1;
                if *exported {
                    t.exported_values.insert(name.clone());
                }
            }
            Item::Function(f) => {
                *t.value_decls.entry(f.name.clone()).or_insert(0) += 1;
                if f.exported {
                    t.exported_values.insert(f.name.clone());
                }
            }
            Item::Import { type_only, default, namespace, names, from } => {
                if let Some(d) = default {
                    t.imports.insert(d.clone(), *type_only);
                }
                if let Some(ns) = namespace {
                    t.namespaces.insert(ns.clone(), from.clone());
                }
                for n in names {
                    t.imports.insert(n.alias.clone().unwrap_or(n.name.clone()), *type_only || n.type_only);
                }
            }
            Item::ExportAll { from } => t.reexports.push(from.clone()),
            _ => {}
        }
    }
    t
}

pub fn check_modules(files: &BTreeMap<String, String>, returned: &[String], tags: &[String], case: &Value, stats: &mut Stats) -> Vec<Failure> {
    let mut fails = vec![];
    let parsed: BTreeMap<&String, tsx::Parsed> = files.iter().filter(|(n, _)| n.ends_with(".ts")).map(|(n, s)| (n, tsx::parse(s))).collect();
    let tables: BTreeMap<&String, ModuleTable> = parsed.iter().map(|(n, p)| (*n, table_of(p))).collect();
    let types_table = tables.iter().find(|(n, _)| n.as_str() == "types.ts").map(|(_, t)| t);
    for (name, p) in &parsed {
        let table = &tables[name];
        let mk = |kind: &str, obs: String, exp: String, extra: Vec<String>| Failure::new(kind).tags(tags.iter().cloned()).tag(format!("module={}", name)).tags(extra).observed(obs).expected(exp).case(case.clone());
        // duplicates
        for (n, c) in table.type_decls.iter().filter(|(_, c)| **c > 1) {
            fails.push(mk("declared_twice", format!("type {} declared {} times", n, c), "each exported name declared once per space".into(), vec!["space=type".into()]));
        }
        for (n, c) in table.value_decls.iter().filter(|(_, c)| **c > 1) {
            fails.push(mk("declared_twice", format!("value {} declared {} times", n, c), "each exported name declared once per space".into(), vec!["space=value".into(), if name.as_str() == "events.ts" { "what=listener".into() } else { "what=other".into() }]));
        }
        // a declaration that takes the name of an import (or of the `types` namespace) shadows it:
        // `export async function invoke` next to `import { invoke }` is a duplicate binding
        for n in table.value_decls.keys().chain(table.type_decls.keys()) {
            if table.imports.contains_key(n) || table.namespaces.contains_key(n) {
                fails.push(mk("declared_twice", format!("{} is imported and declared in the same module", n), "each name bound once per module".into(), vec!["space=value".into(), "what=import_and_declaration".into()]));
            }
        }
        if name.as_str() == "index.ts" {
            let mut got: Vec<String> = table.reexports.iter().map(|r| r.trim_start_matches("./").to_string() + ".ts").collect();
            got.sort();
            let mut want: Vec<String> = returned.iter().filter(|f| f.as_str() != "index.ts").cloned().collect();
            want.sort();
            if got != want {
                fails.push(mk("index_reexports_mismatch", format!("{:?}", got), format!("{:?}", want), vec![]));
            }
            continue;
        }
        // a declaration that did not parse has no reference list; one defect of this property
        // is still visible in its text: the `types` namespace followed by something that is
        // not a member name (`types.(A | null)[]`, `types.[A, B]`) refers to nothing
        for e in p.errors() {
            let Some(line) = p.src.lines().nth(e.line.saturating_sub(1)) else { continue };
            for (ns, module) in &table.namespaces {
                if module != "./types" {
                    continue;
                }
                let pat = format!("{}.", ns);
                let mut from = 0;
                while let Some(i) = line[from..].find(&pat) {
                    let at = from + i;
                    let before_ok = line[..at].chars().next_back().map_or(true, |c| !(c.is_alphanumeric() || c == '_' || c == '$' || c == '.'));
                    let after = line[at + pat.len()..].chars().next();
                    let member = after.map_or(false, |c| c.is_alphabetic() || c == '_' || c == '$');
                    if before_ok && !member {
                        fails.push(mk(
                            "unresolved_reference",
                            format!("`{}` is followed by {:?}, not by a member name, in: {}", pat, after, crate::run::truncate(line.trim(), 200)),
                            "every reference through the types namespace names something types.ts exports".into(),
                            vec!["space=type".into(), "qualified=true".into(), "namespace_without_member".into()],
                        ));
                        break;
                    }
                    from = at + pat.len();
                }
            }
        }
        for r in module_refs(&p.module.items) {
            stats.count("references_resolved", 1);
            let space = if r.type_space { "type" } else { "value" };
            let head = &r.path[0];
            let ok = if let Some(module) = table.namespaces.get(head) {
                if module == "./types" {
                    match (types_table, r.path.get(1)) {
                        (Some(tt), Some(member)) => {
                            if tt.has_errors {
                                stats.excluded_known += 1;
                                true
                            } else if r.type_space {
                                tt.exported_types.contains(member)
                            } else {
                                tt.exported_values.contains(member)
                            }
                        }
                        (None, _) => false,
                        (_, None) => true,
                    }
                } else {
                    true
                }
            } else if r.type_space {
                table.type_decls.contains_key(head) || table.imports.contains_key(head) || GLOBAL_TYPES.contains(&head.as_str()) || (head == "z" && table.imports.contains_key("z"))
            } else {
                table.value_decls.contains_key(head) || table.imports.get(head).map_or(false, |type_only| !type_only) || GLOBAL_VALUES.contains(&head.as_str())
            };
            if !ok {
                if table.has_errors && !r.path.iter().any(|x| x == "types") {
                    // the declaration may sit in a region that did not parse (C01 owns that)
                    stats.excluded_known += 1;
                    continue;
                }
                let lowercase_builtin_like = r.path.last().map_or(false, |l| l.chars().next().map_or(false, |c| c.is_lowercase()));
                fails.push(mk(
                    "unresolved_reference",
                    format!("{} `{}` in {} (context {})", space, r.path.join("."), r.in_decl, if r.ctx.is_empty() { "top" } else { &r.ctx }),
                    "every referenced name resolves to a declaration, an import or a built-in".into(),
                    vec![format!("space={}", space), format!("qualified={}", r.path.len() > 1), format!("ctx={}", r.ctx), format!("lowercase_name={}", lowercase_builtin_like)],
                ));
            }
        }
    }
    fails
}

pub fn check_project(p: &Proj, stats: &mut Stats) -> Vec<Failure> {
    let files = p.render();
    for (path, s) in &files {
        must_parse(path, s);
    }
    stats.eval();
    let named_nested = p.commands.iter().any(|c| {
        c.params.iter().any(|pp| match pp {
            crate::gen::project::ParamM::Value { ty, .. } | crate::gen::project::ParamM::Channel { msg: ty, .. } => ty.depth() >= 1 && ty.tags().iter().any(|t| t == "has=named"),
            _ => false,
        }) || c.ret.as_ref().map_or(false, |t| t.depth() >= 1 && t.tags().iter().any(|t| t == "has=named"))
    });
    if named_nested {
        stats.nontrivial(&format!("{:?}{:?}", files, p.cfg));
    }
    for f in &p.features {
        stats.label(f);
    }
    let out = generate(&files, &p.cfg);
    let case = json!({"config": p.cfg.to_json(), "files": files.iter().map(|(p, s)| json!({"path": p, "content": s})).collect::<Vec<_>>()});
    let tags: Vec<String> = p.features.iter().cloned().collect();
    let returned = match &out.result {
        Ok(r) => r.clone(),
        Err(e) => return vec![Failure::new(if out.panic.is_some() { "panic" } else { "tool_error" }).tags(tags).observed(e.clone()).expected("generation succeeds").case(case)],
    };
    stats.sample(|| json!({"config": p.cfg.to_json(), "features": p.features, "first_file": files[0].1, "generated": out.files.keys().collect::<Vec<_>>()}));
    check_modules(&out.files, &returned, &tags, &case, stats)
}

/// two runs into the same output directory: the project with its emits, then without them (or
/// the other way round). What the second run returns and writes has to be closed in itself:
/// index.ts re-exports the files of *that* run, not whatever an earlier run left behind.
pub fn check_rerun(p: &Proj, events_first: bool, stats: &mut Stats) -> Vec<Failure> {
    let mut q = p.clone();
    for c in &mut q.commands {
        c.emits.clear();
    }
    let (first, second) = if events_first { (p, &q) } else { (&q, p) };
    let files1 = first.render();
    let files2 = second.render();
    for (path, s) in files1.iter().chain(files2.iter()) {
        must_parse(path, s);
    }
    stats.eval();
    let has_events = p.commands.iter().any(|c| !c.emits.is_empty());
    if has_events {
        stats.nontrivial(&format!("{:?}{:?}{}", files1, p.cfg, events_first));
    }
    stats.label(if !has_events { "rerun=no_events_in_project" } else if events_first { "rerun=events_then_none" } else { "rerun=none_then_events" });
    let dir = crate::tool::fresh_dir("c02r");
    let proj = dir.join("proj");
    let out = dir.join("out");
    std::fs::create_dir_all(&proj).unwrap();
    crate::tool::write_project(&proj, &files1);
    let out1 = crate::tool::generate_at(&proj, &out, &p.cfg);
    crate::tool::write_project(&proj, &files2);
    let out2 = crate::tool::generate_at(&proj, &out, &p.cfg);
    let _ = std::fs::remove_dir_all(&dir);
    let case = json!({"config": p.cfg.to_json(), "events_first": events_first, "first_run_files": files1.iter().map(|(p, s)| json!({"path": p, "content": s})).collect::<Vec<_>>(), "second_run_files": files2.iter().map(|(p, s)| json!({"path": p, "content": s})).collect::<Vec<_>>()});
    let mut tags: Vec<String> = p.features.iter().cloned().collect();
    tags.push("sub=rerun".into());
    tags.push(format!("events_first={}", events_first));
    if out1.result.is_err() {
        // a project the tool cannot generate is check_project's business
        stats.label("rerun=first_run_failed");
        return vec![];
    }
    let returned = match &out2.result {
        Ok(r) => r.clone(),
        Err(e) => return vec![Failure::new(if out2.panic.is_some() { "panic" } else { "tool_error" }).tags(tags).observed(e.clone()).expected("the second run into the same directory succeeds").case(case)],
    };
    // only what the second run wrote: a file an earlier run left behind is not part of its output
    let mut files: std::collections::BTreeMap<String, String> = out2.files.iter().filter(|(n, _)| returned.contains(n)).map(|(n, s)| (n.clone(), s.clone())).collect();
    if let Some(ix) = out2.files.get("index.ts") {
        files.insert("index.ts".into(), ix.clone());
    }
    check_modules(&files, &returned, &tags, &case, stats)
}

pub fn run(ctx: &Ctx) {
    ctx.set_rule("whole projects as in C01 (every named type is a project serde type or mapped; since the syntax defects were repaired no input class is steered around any more); every reference in types.ts / commands.ts / events.ts is resolved against per-module declaration tables in type space and value space, `types.X` against the exports of types.ts, index.ts against the list of files the run returned; sub-check c02.rerun: the same project with and without its emit calls generated one after the other into one output directory (both orders), the files the second run returned resolved the same way. evaluation = one generation run; non-trivial = a project type below a constructor at a parameter / return / channel site");
    ctx.set_exhaustive(false);
    ctx.assume("resolution follows the harness's parser and scope model for the emitted fragment");
    let cases = ctx.tier.pick(2500, 300000);
    ctx.search("c02.project", cases, 400, |tape, stats| {
        let mut avoided = 0;
        let p = random_project(tape, false, &mut avoided);
        stats.excluded_known += avoided;
        check_project(&p, stats)
    });
    let cases = ctx.tier.pick(800, 60000);
    ctx.search("c02.rerun", cases, 400, |tape, stats| {
        let mut avoided = 0;
        let p = random_project(tape, false, &mut avoided);
        let events_first = tape.pick(3) != 2;
        check_rerun(&p, events_first, stats)
    });
    // the position x site grid of the design: every wrap at every site with a struct and an enum
    let mut keys = vec![];
    for w in crate::gen::graph::WRAPS {
        for leaf in ["Item", "Kind"] {
            for mode in ["none", "zod"] {
                keys.push((w.to_string(), leaf.to_string(), mode.to_string()));
            }
        }
    }
    ctx.enumerate(
        "c02.grid",
        &keys,
        |(w, l, m)| json!({"wrap": w, "leaf": l, "mode": m}),
        |(w, l, m), stats| grid_case(w, l, m, stats),
    );
}

fn grid_case(w: &str, leaf: &str, mode: &str, stats: &mut Stats) -> Vec<Failure> {
    use crate::gen::ty::Ty;
    let ty = crate::gen::graph::wrap(w, Ty::named(leaf), leaf == "Kind");
    let src = super::c05::source_for(&ty);
    must_parse("src/lib.rs", &src);
    stats.eval();
    stats.nontrivial(&(w, leaf, mode));
    stats.distinct("grid_cells", &(w, leaf, mode));
    let out = generate(&[("src/lib.rs".into(), src.clone())], &crate::tool::Cfg::mode(mode));
    let case = json!({"mode": mode, "rust_type": ty.rust(false), "rust": src});
    let mut tags = vec![format!("mode={}", mode), format!("wrap={}", w), format!("leaf={}", leaf)];
    tags.extend(ty.tags());
    let returned = match &out.result {
        Ok(r) => r.clone(),
        Err(e) => return vec![Failure::new("tool_error").tags(tags).observed(e.clone()).expected("generation succeeds").case(case)],
    };
    check_modules(&out.files, &returned, &tags, &case, stats)
}

pub fn replay(check: &str, input: &Value, stats: &mut Stats) -> Option<Vec<Failure>> {
    match check {
        "c02.project" => {
            let mut tape = Tape::new(super::tape_of(input));
            let mut avoided = 0;
            let p = random_project(&mut tape, false, &mut avoided);
            Some(check_project(&p, stats))
        }
        "c02.rerun" => {
            let mut tape = Tape::new(super::tape_of(input));
            let mut avoided = 0;
            let p = random_project(&mut tape, false, &mut avoided);
            let events_first = tape.pick(3) != 2;
            Some(check_rerun(&p, events_first, stats))
        }
        "c02.files" => {
            // explicit sources: [{path, content}], mode
            let files: Vec<(String, String)> = input["files"].as_array()?.iter().filter_map(|f| Some((f["path"].as_str()?.to_string(), f["content"].as_str()?.to_string()))).collect();
            let cfg = crate::tool::Cfg::mode(input["mode"].as_str().unwrap_or("none"));
            stats.eval();
            let out = generate(&files, &cfg);
            let case = json!({"files": input["files"], "mode": cfg.mode});
            let returned = match &out.result {
                Ok(r) => r.clone(),
                Err(e) => return Some(vec![Failure::new("tool_error").observed(e.clone()).expected("generation succeeds").case(case)]),
            };
            Some(check_modules(&out.files, &returned, &[format!("mode={}", cfg.mode)], &case, stats))
        }
        "c02.grid" => Some(grid_case(input["wrap"].as_str()?, input["leaf"].as_str()?, input["mode"].as_str()?, stats)),
        _ => None,
    }
}
