//! C09 — in Zod mode no schema is read before it is defined.

use crate::gen::graph::{self, Edge, Node, Root, TypeGraph, WRAPS};
use crate::gen::rust::must_parse;
use crate::run::{Ctx, Failure, Stats};
use crate::tape::Tape;
use crate::tool::{generate, Cfg};
use crate::ts::ast::Item;
use crate::tsx;
use crate::zodm;
use serde_json::{json, Value};
use std::collections::BTreeSet;

/// walk types.ts top to bottom with a "defined so far" set
pub fn check_order(types_ts: &str) -> Result<Vec<String>, (String, String)> {
    let p = tsx::parse(types_ts);
    if let Some(e) = p.errors().first() {
        return Err(("unparsable".into(), e.msg.clone()));
    }
    let mut defined: BTreeSet<String> = BTreeSet::new();
    let mut order = vec![];
    let mut all_consts: BTreeSet<String> = BTreeSet::new();
    for it in &p.module.items {
        if let Item::Const { name, .. } = &it.item {
            all_consts.insert(name.clone());
        }
    }
    for it in &p.module.items {
        if let Item::Const { name, init: Some(e), .. } = &it.item {
            let z = match zodm::from_expr(e) {
                Ok(z) => z,
                Err(zodm::ZErr::Unmodelled(m)) => crate::run::infra_exit(&format!("Zod API outside the model: {}", m)),
                Err(err) => return Err(("not_a_schema".into(), format!("{}: {}", name, err))),
            };
            let mut refs = vec![];
            zodm::eager_refs(&z, &mut refs);
            for r in refs {
                if !defined.contains(&r) {
                    let kind = if all_consts.contains(&r) { "schema_used_before_definition" } else { "schema_never_defined" };
                    return Err((kind.into(), format!("{} reads {} which is {} (order so far: {:?})", name, r, if all_consts.contains(&r) { "defined further down" } else { "not defined in types.ts" }, order)));
                }
            }
            defined.insert(name.clone());
            order.push(name.clone());
        }
    }
    Ok(order)
}

pub fn check_dag(g: &TypeGraph, runs: usize, stats: &mut Stats) -> Vec<Failure> {
    let files = g.render();
    for (p, s) in &files {
        must_parse(p, s);
    }
    let n_edges = g.edges.len();
    let mut fails = vec![];
    let wraps: BTreeSet<String> = g.edges.iter().map(|e| format!("wrap={}", e.wrap)).collect();
    for run in 0..runs {
        stats.eval();
        if g.nodes.len() >= 2 && n_edges >= 1 {
            stats.nontrivial(&format!("{:?}", files));
        }
        stats.label(&format!("nodes={}", g.nodes.len()));
        let out = generate(&files, &Cfg::mode("zod"));
        let case = json!({"graph": g.summary(), "files": files.iter().map(|(p, s)| json!({"path": p, "content": s})).collect::<Vec<_>>(), "run": run});
        if let Err(e) = &out.result {
            return vec![Failure::new(if out.panic.is_some() { "panic" } else { "tool_error" }).observed(e.clone()).expected("generation succeeds").case(case)];
        }
        match check_order(out.file("types.ts").unwrap_or("")) {
            Ok(order) => {
                stats.distinct("emission_orders", &order);
                stats.sample(|| json!({"graph": g.summary(), "emission_order": order}));
            }
            Err((kind, detail)) => {
                let mut f = Failure::new(&kind).tags(wraps.iter().cloned()).tag("order_dependent").observed(detail).expected("every schema constant defined before its first use").case(case);
                if kind == "schema_never_defined" {
                    f.tags.retain(|t| t != "order_dependent");
                }
                fails.push(f);
                return fails;
            }
        }
    }
    fails
}

/// all labelled DAGs on n nodes (edges only from lower to higher index after a fixed
/// topological labelling would lose shapes; instead enumerate edge subsets of i<j and apply all
/// rotations of labels by reversing the direction bit): edge (i,j) present with direction.
/// For acyclicity we orient every chosen edge from the lower to the higher index, then rename
/// nodes by a permutation so that name order and dependency order are unrelated.
pub fn dags(n: usize) -> Vec<Vec<(usize, usize)>> {
    let pairs: Vec<(usize, usize)> = (0..n).flat_map(|i| (i + 1..n).map(move |j| (i, j))).collect();
    let mut out = vec![];
    for mask in 0..(1u32 << pairs.len()) {
        let edges: Vec<(usize, usize)> = pairs.iter().enumerate().filter(|(k, _)| mask >> k & 1 == 1).map(|(_, p)| *p).collect();
        out.push(edges);
    }
    out
}

const PERMS4: &[[usize; 4]] = &[[0, 1, 2, 3], [3, 2, 1, 0], [1, 3, 0, 2], [2, 0, 3, 1]];

pub fn build(n: usize, edges: &[(usize, usize)], perm: &[usize; 4], wrap_of: &dyn Fn(usize) -> String, root_all: bool) -> TypeGraph {
    let names = ["Alpha", "Beta", "Gamma", "Delta", "Epsilon", "Zeta"];
    let nodes: Vec<Node> = (0..n).map(|i| Node::new(names[if i < 4 { perm[i] % n.max(1) } else { i }].to_string(), false, i % 2, true)).collect();
    // names must be distinct: perm[i] % n can collide when n < 4; fall back to identity then
    let distinct: BTreeSet<&String> = nodes.iter().map(|x| &x.name).collect();
    let nodes = if distinct.len() == n { nodes } else { (0..n).map(|i| Node::new(names[i].to_string(), false, i % 2, true)).collect() };
    let es: Vec<Edge> = edges.iter().enumerate().map(|(k, (a, b))| Edge { from: *a, to: *b, wrap: wrap_of(k) }).collect();
    // every node reachable from a command: sources (no incoming edge) become roots
    let mut roots = vec![];
    for i in 0..n {
        if root_all || !es.iter().any(|e| e.to == i) {
            roots.push(Root { site: if i % 2 == 0 { "param".into() } else { "return".into() }, wrap: "direct".into(), node: i, file: 0 });
        }
    }
    // path-spelled types in every third shape (by edge count)
    let qualify = es.len() % 3 == 2;
    TypeGraph { n_files: 2, nodes, edges: es, roots, qualify }
}

fn random_dag(t: &mut Tape) -> TypeGraph {
    let n = t.range(2, 6);
    let mut edges = vec![];
    for i in 0..n {
        for j in i + 1..n {
            if t.chance(2, 5) {
                // random direction relative to the *name* order, always acyclic in index order
                edges.push((i, j));
            }
        }
    }
    let mut perm = [0usize, 1, 2, 3];
    // Fisher–Yates from the tape
    for i in (1..4).rev() {
        let j = t.pick(i + 1);
        perm.swap(i, j);
    }
    let wraps: Vec<String> = (0..edges.len()).map(|_| t.choose(WRAPS).to_string()).collect();
    let reverse_names = t.bool();
    let mut g = build(n, &edges, &perm, &|k| wraps[k].clone(), false);
    if reverse_names {
        // dependencies get alphabetically *later* names than dependents
        let names = ["Zulu", "Yankee", "Xray", "Whiskey", "Victor", "Uniform"];
        for (i, nd) in g.nodes.iter_mut().enumerate() {
            nd.name = names[n - 1 - i].to_string();
        }
    }
    let _ = graph::WRAPS;
    g
}

pub fn run(ctx: &Ctx) {
    let runs = ctx.tier.pick(6usize, 24usize);
    ctx.set_rule(&format!("all DAG shapes on <=4 nodes (edge subsets of a fixed topological order: 1 + 2 + 8 + 64) x 4 name permutations, with every edge realised through each of 16 wraps once per shape (<=3 nodes) or through a wrap chosen round-robin (4 nodes), plus random DAGs of 2-6 nodes with random wraps; every node reachable from a command; each case generated {} times in-process (fresh hash seeds per map instance); evaluation = one generation run; non-trivial = >=2 nodes and >=1 edge", runs));
    ctx.set_exhaustive(true);
    ctx.assume("schedules (hash seeds) are sampled, not enumerated; distinct emission orders observed are reported");
    let mut cases: Vec<TypeGraph> = vec![];
    for n in 1..=4usize {
        for edges in dags(n) {
            for perm in PERMS4 {
                if n <= 3 {
                    if edges.is_empty() {
                        cases.push(build(n, &edges, perm, &|_| "direct".into(), false));
                    }
                    for w in WRAPS {
                        if !edges.is_empty() {
                            cases.push(build(n, &edges, perm, &|_| w.to_string(), false));
                        }
                    }
                } else {
                    let h = edges.iter().fold(7usize, |a, (x, y)| a * 31 + x * 5 + y);
                    cases.push(build(n, &edges, perm, &|k| WRAPS[(h + k * 5) % WRAPS.len()].to_string(), false));
                }
            }
        }
    }
    ctx.note("enumerated_cases", json!(cases.len()));
    let idx: Vec<usize> = (0..cases.len()).collect();
    ctx.enumerate("c09.dags", &idx, |i| json!({"index": i}), |i, stats| check_dag(&cases[*i], runs, stats));
    let n_random = ctx.tier.pick(300, 20000);
    ctx.search("c09.random", n_random, 80, |tape, stats| {
        let g = random_dag(tape);
        check_dag(&g, runs, stats)
    });
}

pub fn replay(check: &str, input: &Value, stats: &mut Stats) -> Option<Vec<Failure>> {
    match check {
        "c09.dags" => {
            // rebuild the enumeration (cheap) and pick the case
            let mut cases: Vec<TypeGraph> = vec![];
            for n in 1..=4usize {
                for edges in dags(n) {
                    for perm in PERMS4 {
                        if n <= 3 {
                            if edges.is_empty() {
                                cases.push(build(n, &edges, perm, &|_| "direct".into(), false));
                            }
                            for w in WRAPS {
                                if !edges.is_empty() {
                                    cases.push(build(n, &edges, perm, &|_| w.to_string(), false));
                                }
                            }
                        } else {
                            let h = edges.iter().fold(7usize, |a, (x, y)| a * 31 + x * 5 + y);
                            cases.push(build(n, &edges, perm, &|k| WRAPS[(h + k * 5) % WRAPS.len()].to_string(), false));
                        }
                    }
                }
            }
            Some(check_dag(cases.get(input["index"].as_u64()? as usize)?, 64, stats))
        }
        "c09.random" => {
            let mut tape = Tape::new(super::tape_of(input));
            let g = random_dag(&mut tape);
            Some(check_dag(&g, 64, stats))
        }
        _ => None,
    }
}
