//! C04 — the object passed to invoke has exactly the keys Tauri deserialises.

use crate::gen::names;
use crate::gen::rust::{must_parse, unraw, PRELUDE};
use crate::run::{Ctx, Failure, Stats};
use crate::tape::Tape;
use crate::tool::{generate, Cfg};
use crate::ts::ast::{Expr, Member, Prop, Type};
use crate::tsx;
use crate::zodm::{self, Z};
use heck::{ToKebabCase, ToLowerCamelCase, ToShoutyKebabCase, ToShoutySnakeCase, ToSnakeCase, ToUpperCamelCase};
use serde_json::{json, Value};
use std::collections::BTreeMap;

pub const INJECTED: &[&str] = &[
    "AppHandle",
    "tauri::AppHandle",
    "AppHandle<R>",
    "tauri::AppHandle<tauri::Wry>",
    "State<'_, AppState>",
    "tauri::State<'_, AppState>",
    "State<'_, Mutex<Vec<String>>>",
    "Window<R>",
    "tauri::Window",
    "tauri::Window<R>",
    "WebviewWindow",
    "WebviewWindow<R>",
    "tauri::WebviewWindow",
    "tauri::WebviewWindow<R>",
    "tauri::webview::WebviewWindow",
    "tauri::AppHandle<R>",
    "tauri::ipc::Request<'_>",
];
pub const CHANNELS: &[&str] = &["Channel<Progress>", "tauri::ipc::Channel<Progress>", "Channel<String>", "tauri::ipc::Channel<u32>", "Channel<Vec<u8>>"];
pub const VALUE_TYPES: &[(&str, bool)] = &[("i32", false), ("String", false), ("bool", false), ("Option<String>", true), ("Option<i64>", true), ("Vec<String>", false), ("Payload", false), ("Option<Payload>", true), ("f64", false), ("&str", false)];
pub const CASES: &[&str] = &["camelCase", "snake_case", "PascalCase", "SCREAMING_SNAKE_CASE", "kebab-case", "SCREAMING-KEBAB-CASE", "lowercase", "UPPERCASE"];

#[derive(Clone, Debug, PartialEq)]
pub enum PKind {
    Value { ty: String, optional: bool },
    Injected(String),
    Channel(String),
}

#[derive(Clone, Debug, PartialEq)]
pub struct ParamM {
    pub name: String,
    pub kind: PKind,
}

#[derive(Clone, Debug)]
pub struct CmdM {
    pub params: Vec<ParamM>,
    pub case: Option<String>,
}

pub fn render(c: &CmdM) -> String {
    let mut s = String::from(PRELUDE);
    s.push_str("use std::sync::Mutex;\nuse tauri::{Runtime, WebviewWindow};\n\npub struct AppState;\n\n");
    s.push_str("#[derive(Debug, Clone, Serialize, Deserialize)]\npub struct Payload {\n    pub id: i32,\n}\n\n#[derive(Debug, Clone, Serialize, Deserialize)]\npub struct Progress {\n    pub done: u32,\n}\n\n");
    let generic = c.params.iter().any(|p| matches!(&p.kind, PKind::Injected(t) if t.contains("<R>")));
    let params: Vec<String> = c
        .params
        .iter()
        .map(|p| match &p.kind {
            PKind::Value { ty, .. } => format!("{}: {}", p.name, ty),
            PKind::Injected(t) | PKind::Channel(t) => format!("{}: {}", p.name, t),
        })
        .collect();
    s.push_str(&format!("#[tauri::command]\npub async fn do_it{}({}) -> Result<(), String> {{\n    Ok(())\n}}\n", if generic { "<R: Runtime>" } else { "" }, params.join(", ")));
    s
}

/// "plain" names: lower-case words joined by single underscores, where every reasonable
/// definition of a naming case agrees
pub fn is_plain(name: &str) -> bool {
    !name.is_empty() && name.split('_').all(|w| !w.is_empty() && w.chars().all(|c| c.is_ascii_lowercase()))
}

/// what Tauri's command macro does (`ident.unraw()` then heck), or the configured case
pub fn expected_key(name: &str, case: Option<&str>) -> String {
    let n = unraw(name);
    match case.unwrap_or("camelCase") {
        "camelCase" => n.to_lower_camel_case(),
        "snake_case" => n.to_snake_case(),
        "PascalCase" => n.to_upper_camel_case(),
        "SCREAMING_SNAKE_CASE" => n.to_shouty_snake_case(),
        "kebab-case" => n.to_kebab_case(),
        "SCREAMING-KEBAB-CASE" => n.to_shouty_kebab_case(),
        "lowercase" => n.to_string(),
        "UPPERCASE" => n.to_uppercase(),
        other => crate::run::infra_exit(&format!("unknown case {}", other)),
    }
}

fn members_keys(members: &[Member]) -> BTreeMap<String, bool> {
    let mut m = BTreeMap::new();
    for mem in members {
        if let Member::Prop { key, optional, .. } = mem {
            m.insert(key.name(), *optional);
        }
    }
    m
}

/// keys (→ omittable?) of the type named `name` in types.ts
pub fn keys_of_type(types: &tsx::Parsed, name: &str) -> Result<BTreeMap<String, bool>, String> {
    if let Some(i) = types.interface(name) {
        let mut m = members_keys(&i.members);
        for e in &i.extends {
            // `extends z.infer<typeof XSchema>`
            match e {
                Type::Ref { name: n, args } if n == &["z".to_string(), "infer".to_string()] && args.len() == 1 => {
                    if let Type::Typeof(s) = &args[0] {
                        m.extend(keys_of_schema(types, &s.join("."))?);
                    } else {
                        return Err(format!("unmodelled extends clause of {}", name));
                    }
                }
                other => return Err(format!("unmodelled extends clause {:?}", other)),
            }
        }
        return Ok(m);
    }
    if let Some(t) = types.alias(name) {
        if let Type::Ref { name: n, args } = t {
            if n == &["z".to_string(), "infer".to_string()] && args.len() == 1 {
                if let Type::Typeof(s) = &args[0] {
                    return keys_of_schema(types, &s.join("."));
                }
            }
        }
        return Err(format!("unmodelled alias for {}", name));
    }
    if let Some((e, text)) = types.error_in_decl(&format!("export interface {} ", name)) {
        return Err(format!("SYNTAX {} ⟸ {}", e.msg, text));
    }
    Err(format!("MISSING no declaration of {} in types.ts", name))
}

fn keys_of_schema(types: &tsx::Parsed, konst: &str) -> Result<BTreeMap<String, bool>, String> {
    match types.konst(konst) {
        Some(e) => match zodm::from_expr(e) {
            Ok(Z::Object(fields)) => Ok(fields.iter().map(|(k, s)| (k.clone(), zodm::accepts_undefined(s))).collect()),
            Ok(o) => Err(format!("{} is a {} schema, not an object", konst, zodm::kind_name(&o))),
            Err(zodm::ZErr::Unmodelled(m)) => crate::run::infra_exit(&format!("Zod API outside the model: {}", m)),
            Err(e) => Err(format!("SYNTAX {} ⟸ {}", e, types.src_of(konst).unwrap_or_default())),
        },
        None => match types.error_in_decl(&format!("export const {} ", konst)) {
            Some((e, text)) => Err(format!("SYNTAX {} ⟸ {}", e.msg, text)),
            None => Err(format!("MISSING no schema {} in types.ts", konst)),
        },
    }
}

/// abstract evaluation of the second argument of invoke: the key set (→ omittable?) it carries
pub fn delivered_keys(out: &crate::tool::GenOut, wrapper: &str) -> Result<BTreeMap<String, bool>, String> {
    let cmds = tsx::parse(out.file("commands.ts").unwrap_or(""));
    let types = tsx::parse(out.file("types.ts").unwrap_or(""));
    let Some(f) = cmds.function(wrapper) else {
        if let Some((e, text)) = cmds.error_in_decl(&format!("export async function {}(", wrapper)) {
            return Err(format!("SYNTAX {} ⟸ {}", e.msg, tsx::collapse_ws(&text).chars().take(300).collect::<String>()));
        }
        return Err(format!("MISSING no wrapper {} in commands.ts", wrapper));
    };
    let calls = tsx::invoke_calls(f);
    if calls.len() != 1 {
        return Err(format!("wrapper has {} invoke calls", calls.len()));
    }
    let args = calls[0].1;
    let params_type = || -> Result<String, String> {
        match f.params.first() {
            Some(p) if p.name == "params" => match &p.ty {
                Some(Type::Ref { name, .. }) if name.len() == 2 && name[0] == "types" => Ok(name[1].clone()),
                other => Err(format!("unmodelled params annotation {:?}", other)),
            },
            _ => Err("wrapper has no `params` parameter".into()),
        }
    };
    // `const result = types.XSchema.safeParse(params)` → result.data carries the schema's keys
    let result_schema = || -> Result<String, String> {
        let mut found = None;
        tsx::walk_stmts(&f.body, &mut |e| {
            if let Expr::Call { callee, .. } = e {
                if let Expr::Member { obj, prop, .. } = &**callee {
                    if prop == "safeParse" || prop == "parse" {
                        if let Expr::Member { obj: o2, prop: schema, .. } = &**obj {
                            if matches!(&**o2, Expr::Ident(n) if n == "types") {
                                found = Some(schema.clone());
                            }
                        }
                    }
                }
            }
        });
        found.ok_or_else(|| "no safeParse call found for result.data".to_string())
    };
    let eval = |e: &Expr| -> Result<BTreeMap<String, bool>, String> {
        match e {
            Expr::Ident(n) if n == "params" => keys_of_type(&types, &params_type()?),
            Expr::Member { obj, prop, .. } if prop == "data" && matches!(&**obj, Expr::Ident(n) if n == "result") => keys_of_schema(&types, &result_schema()?),
            other => crate::run::infra_exit(&format!("unmodelled invoke argument {:?}", other)),
        }
    };
    match args.get(1) {
        None => Ok(BTreeMap::new()),
        Some(Expr::Object(props)) => {
            let mut m = BTreeMap::new();
            for p in props {
                match p {
                    Prop::Spread(e) => m.extend(eval(e)?),
                    Prop::KeyValue(k, v) => {
                        // `key: params.key` — omittable iff the source key is
                        let opt = match v {
                            Expr::Member { obj, prop, .. } if matches!(&**obj, Expr::Ident(n) if n == "params") => keys_of_type(&types, &params_type()?)?.get(prop).copied().unwrap_or(false),
                            _ => false,
                        };
                        m.insert(k.name(), opt);
                    }
                    Prop::Shorthand(n) => {
                        m.insert(n.clone(), false);
                    }
                }
            }
            Ok(m)
        }
        Some(e) => eval(e),
    }
}

pub fn check_cmd(c: &CmdM, stats: &mut Stats) -> Vec<Failure> {
    let src = render(c);
    must_parse("src/lib.rs", &src);
    let mut expected: BTreeMap<String, bool> = BTreeMap::new();
    for p in &c.params {
        match &p.kind {
            PKind::Value { optional, .. } => {
                expected.insert(expected_key(&p.name, c.case.as_deref()), *optional);
            }
            PKind::Channel(_) => {
                expected.insert(expected_key(&p.name, c.case.as_deref()), false);
            }
            PKind::Injected(_) => {}
        }
    }
    let has_inj = c.params.iter().any(|p| matches!(p.kind, PKind::Injected(_)));
    let has_val = c.params.iter().any(|p| matches!(p.kind, PKind::Value { .. }));
    let odd_name = c.params.iter().any(|p| !is_plain(&p.name));
    let mut tags: Vec<String> = vec![format!("case={}", c.case.as_deref().unwrap_or("default"))];
    for p in &c.params {
        match &p.kind {
            PKind::Injected(t) => tags.push(format!("injected={}", t)),
            PKind::Channel(t) => tags.push(format!("channel={}", t)),
            PKind::Value { optional: true, .. } => tags.push("has_optional".into()),
            _ => {}
        }
        if p.name.starts_with("r#") {
            tags.push("raw_ident".into());
        }
        if !is_plain(&p.name) {
            tags.push("odd_name".into());
            tags.push(format!("name={}", p.name));
        }
        if names::JS_RESERVED.contains(&unraw(&p.name)) {
            tags.push("js_reserved_name".into());
        }
    }
    tags.sort();
    tags.dedup();
    let mut per_mode: Vec<(String, Result<BTreeMap<String, bool>, String>)> = vec![];
    let mut fails = vec![];
    for mode in ["none", "zod"] {
        stats.eval();
        if (has_inj && has_val) || odd_name {
            stats.nontrivial(&(format!("{:?}", c.params), &c.case, mode));
        }
        let cfg = Cfg { mode: mode.into(), param_case: c.case.clone(), ..Default::default() };
        let out = generate(&[("src/lib.rs".into(), src.clone())], &cfg);
        let case = json!({"mode": mode, "default_parameter_case": c.case, "rust": src});
        let mk = |kind: &str, obs: String, exp: String| Failure::new(kind).tags(tags.clone()).tag(format!("mode={}", mode)).observed(obs).expected(exp).case(case.clone());
        if let Err(e) = &out.result {
            fails.push(mk(if out.panic.is_some() { "panic" } else { "tool_error" }, e.clone(), "generation succeeds".into()));
            continue;
        }
        let got = delivered_keys(&out, "doIt");
        stats.sample(|| json!({"mode": mode, "params": c.params.iter().map(|p| format!("{}: {:?}", p.name, p.kind)).collect::<Vec<_>>(), "case": c.case, "expected_keys": expected, "delivered": format!("{:?}", got)}));
        match &got {
            Err(msg) => {
                let kind = if msg.starts_with("SYNTAX") {
                    "unparsable"
                } else if msg.starts_with("MISSING") {
                    "missing_decl"
                } else {
                    "unexpected_shape"
                };
                fails.push(mk(kind, msg.clone(), format!("{:?}", expected)));
            }
            Ok(m) => {
                let ek: Vec<&String> = expected.keys().collect();
                let ok: Vec<&String> = m.keys().collect();
                if ek != ok {
                    let missing: Vec<&&String> = ek.iter().filter(|k| !ok.contains(k)).collect();
                    let extra: Vec<&&String> = ok.iter().filter(|k| !ek.contains(k)).collect();
                    let injected_names: Vec<String> = c.params.iter().filter(|p| matches!(p.kind, PKind::Injected(_))).map(|p| expected_key(&p.name, c.case.as_deref())).collect();
                    let kind = if extra.iter().any(|k| injected_names.contains(k)) { "key_for_injected_param" } else if !missing.is_empty() && extra.is_empty() { "key_missing" } else { "wrong_key_name" };
                    fails.push(mk(kind, format!("{:?} (missing {:?}, extra {:?})", ok, missing, extra), format!("{:?}", ek)));
                } else {
                    for (k, opt) in &expected {
                        if m[k] != *opt {
                            fails.push(mk("wrong_optionality", format!("{} omittable={}", k, m[k]), format!("{} omittable={} (Rust Option ⇔ omittable)", k, opt)).tag(format!("key={}", k)));
                        }
                    }
                }
            }
        }
        per_mode.push((mode.to_string(), got));
    }
    if let [(_, Ok(a)), (_, Ok(b))] = &per_mode[..] {
        let ka: Vec<&String> = a.keys().collect();
        let kb: Vec<&String> = b.keys().collect();
        if ka != kb && fails.is_empty() {
            fails.push(Failure::new("modes_disagree").tags(tags.clone()).observed(format!("none: {:?}, zod: {:?}", ka, kb)).expected("the same key set in both modes").case(json!({"rust": src})));
        }
    }
    for t in &tags {
        if t.starts_with("injected=") || t.starts_with("channel=") || t == "odd_name" || t.starts_with("case=") {
            stats.label(t);
        }
    }
    fails
}

pub fn random_cmd(t: &mut Tape) -> CmdM {
    let case = if t.chance(1, 4) { Some(t.choose(CASES).to_string()) } else { None };
    let n = t.pick(8);
    let mut params: Vec<ParamM> = vec![];
    let pool = names::snake_pool();
    for i in 0..n {
        let kind = match t.pick(6) {
            0 | 1 | 2 => {
                let (ty, opt) = *t.choose(VALUE_TYPES);
                PKind::Value { ty: ty.to_string(), optional: opt }
            }
            3 | 4 => PKind::Injected(t.choose(INJECTED).to_string()),
            _ => PKind::Channel(t.choose(CHANNELS).to_string()),
        };
        let mut name = if case.is_some() && case.as_deref() != Some("camelCase") {
            names::plain_snake(t)
        } else {
            match t.pick(3) {
                0 => names::plain_snake(t),
                1 => t.choose(&pool).clone(),
                _ => names::random_snake(t),
            }
        };
        // parameter names (and their keys) must be pairwise distinct
        if params.iter().any(|p| expected_key(&p.name, case.as_deref()) == expected_key(&name, case.as_deref()) || p.name == name) || expected_key(&name, case.as_deref()).is_empty() {
            name = format!("p{}_{}", i, names::plain_snake(t));
        }
        params.push(ParamM { name, kind });
    }
    CmdM { params, case }
}

/// exhaustive part: every injected spelling next to every two-word name from the pool
pub fn grid() -> Vec<CmdM> {
    let mut out = vec![];
    let pool = names::snake_pool();
    for inj in INJECTED {
        for (i, name) in pool.iter().enumerate() {
            let other = &pool[(i + 7) % pool.len()];
            if name == other {
                continue;
            }
            out.push(CmdM {
                params: vec![
                    ParamM { name: "ctx".into(), kind: PKind::Injected(inj.to_string()) },
                    ParamM { name: name.clone(), kind: PKind::Value { ty: "i32".into(), optional: false } },
                    ParamM { name: format!("{}_opt", unraw(other)), kind: PKind::Value { ty: "Option<String>".into(), optional: true } },
                ],
                case: None,
            });
        }
    }
    for ch in CHANNELS {
        for inj in INJECTED.iter().take(4) {
            out.push(CmdM { params: vec![ParamM { name: "on_event".into(), kind: PKind::Channel(ch.to_string()) }, ParamM { name: "app".into(), kind: PKind::Injected(inj.to_string()) }], case: None });
            out.push(CmdM {
                params: vec![ParamM { name: "user_id".into(), kind: PKind::Value { ty: "i32".into(), optional: false } }, ParamM { name: "on_event".into(), kind: PKind::Channel(ch.to_string()) }, ParamM { name: "app".into(), kind: PKind::Injected(inj.to_string()) }],
                case: None,
            });
        }
    }
    for case in CASES {
        out.push(CmdM {
            params: vec![
                ParamM { name: "user_id".into(), kind: PKind::Value { ty: "i32".into(), optional: false } },
                ParamM { name: "first_name".into(), kind: PKind::Value { ty: "Option<String>".into(), optional: true } },
                ParamM { name: "on_progress".into(), kind: PKind::Channel("Channel<Progress>".into()) },
                ParamM { name: "state".into(), kind: PKind::Injected("State<'_, AppState>".into()) },
            ],
            case: Some(case.to_string()),
        });
    }
    out
}

pub fn run(ctx: &Ctx) {
    ctx.set_rule("parameter lists of 0-7 entries mixing value parameters (10 shallow types, Option or not), injected parameters in 17 spellings and channels in 5 spellings, names from the snake pool (digits, leading/doubled/trailing underscores, raw identifiers, JS reserved words) or random words; default_parameter_case in 8 rules (plain names only when not the default); each list generated in both modes; grid = every injected spelling x every pool name, every channel spelling x 4 injected spellings, every case rule; evaluation = one (list, mode) run; non-trivial = an injected and a value parameter together, or a name outside [a-z]+(_[a-z]+)*");
    ctx.set_exhaustive(false);
    ctx.assume("expected keys follow tauri-macros: ident.unraw() then heck (the crate Tauri uses); for non-default configured cases only plain names are generated");
    let g = grid();
    let idx: Vec<usize> = (0..g.len()).collect();
    ctx.note("grid_cases", json!(g.len()));
    ctx.enumerate("c04.grid", &idx, |i| json!({"index": i}), |i, stats| check_cmd(&g[*i], stats));
    let cases = ctx.tier.pick(2500, 400000);
    ctx.search("c04.random", cases, 100, |tape, stats| {
        let c = random_cmd(tape);
        check_cmd(&c, stats)
    });
}

pub fn replay(check: &str, input: &Value, stats: &mut Stats) -> Option<Vec<Failure>> {
    match check {
        "c04.grid" => {
            let g = grid();
            Some(check_cmd(g.get(input["index"].as_u64()? as usize)?, stats))
        }
        "c04.random" => {
            let mut tape = Tape::new(super::tape_of(input));
            Some(check_cmd(&random_cmd(&mut tape), stats))
        }
        _ => None,
    }
}
