//! C14 — re-running with nothing changed rewrites nothing; --force always regenerates.
//!
//! `c14.rerun`: tape-generated projects of 1..6 source files (1..3 commands per command file,
//! shared structs, optionally >= 2 type mappings); history `generate; rerun x k; forced run`, every
//! run a fresh process (fresh hash seeds), on the CLI path or the build-script path.
//! `c14.force`: cache state {absent, matching, mismatching, truncated, non-JSON, wrong version}
//! x force source {--force, "force": true in tauri.conf.json, force in a -c file, flag together
//! with force:false in either file} x path x mode x two fixed projects.

use crate::run::{infra_exit, truncate, Ctx, Failure, Stats};
use crate::sandbox::{base_project, diff, make_build_layout, snapshot, Change, Snapshot};
use crate::tape::Tape;
use crate::tool::{fresh_dir, run_buildrs, run_cli, write_project, ProcOut};
use serde_json::{json, Value};
use std::path::{Path, PathBuf};

// ---------------------------------------------------------------------------------------------
// project generator

#[derive(Clone, Debug)]
pub struct Proj {
    /// paths relative to the project directory (src-tauri)
    pub files: Vec<(String, String)>,
    pub cmd_files: usize,
    pub commands: Vec<String>,
    pub mappings: Vec<(String, String)>,
    pub mode: String,
}

const FILE_POOL: &[&str] = &["src/lib.rs", "src/commands.rs", "src/main.rs", "src/commands/user.rs", "src/api/mod.rs", "src/models.rs", "src/util/io.rs", "src/commands/files.rs", "src/state.rs", "src/a.rs", "src/z.rs", "src/api/user.rs", "src/commands/mod.rs", "src/util/files.rs", "src/api/io.rs", "src/api/commands.rs"];
const MAPPED: &[(&str, &str)] = &[("DateTime<Utc>", "string"), ("PathBuf", "string"), ("Uuid", "string"), ("Decimal", "number"), ("Url", "string")];

fn gen_type(t: &mut Tape, structs: usize, mapped: &[(String, String)]) -> String {
    let leaf = |t: &mut Tape| -> String {
        let n = 4 + structs + mapped.len();
        let i = t.pick(n);
        match i {
            0 => "i32".into(),
            1 => "String".into(),
            2 => "bool".into(),
            3 => "u64".into(),
            _ if i - 4 < structs => format!("S{}", i - 4),
            _ => mapped[i - 4 - structs].0.clone(),
        }
    };
    match t.pick(5) {
        0 | 1 => leaf(t),
        2 => format!("Option<{}>", leaf(t)),
        3 => format!("Vec<{}>", leaf(t)),
        _ => format!("HashMap<String, {}>", leaf(t)),
    }
}

pub fn gen_project(t: &mut Tape) -> Proj {
    let n_files = t.range(1, 6);
    let mode = t.choose(&["none", "zod"]).to_string();
    let n_structs = t.pick(4);
    let mappings: Vec<(String, String)> = if t.pick(3) == 2 {
        let k = t.range(2, MAPPED.len());
        MAPPED[..k].iter().map(|(a, b)| (a.to_string(), b.to_string())).collect()
    } else {
        vec![]
    };
    // distinct file names
    let mut names: Vec<&str> = vec![];
    for _ in 0..n_files {
        let mut i = t.pick(FILE_POOL.len());
        while names.contains(&FILE_POOL[i]) {
            i = (i + 1) % FILE_POOL.len();
        }
        names.push(FILE_POOL[i]);
    }
    // struct k lives in file struct_home[k]
    let struct_home: Vec<usize> = (0..n_structs).map(|_| t.pick(n_files)).collect();
    let mut files = vec![];
    let mut commands = vec![];
    let mut cmd_files = 0;
    for (fi, name) in names.iter().enumerate() {
        let mut src = String::from("use serde::{Deserialize, Serialize};\nuse std::collections::HashMap;\n\n");
        for (k, home) in struct_home.iter().enumerate() {
            if *home != fi {
                continue;
            }
            src.push_str(&format!("#[derive(Debug, Clone, Serialize, Deserialize)]\npub struct S{} {{\n", k));
            let nf = 1 + t.pick(3);
            for f in 0..nf {
                // a struct may only mention structs with a smaller index: no cycles
                src.push_str(&format!("    pub f{}: {},\n", f, gen_type(t, k, &mappings)));
            }
            src.push_str("}\n\n");
        }
        // the first file always has commands; later files are struct-only with probability 1/4
        let n_cmds = if fi > 0 && t.pick(4) == 3 { 0 } else { 1 + t.pick(3) };
        if n_cmds > 0 {
            cmd_files += 1;
        }
        for c in 0..n_cmds {
            let cname = format!("cmd_{}_{}", fi, c);
            let np = t.pick(3);
            let params: Vec<String> = (0..np).map(|p| format!("p{}: {}", p, gen_type(t, n_structs, &mappings))).collect();
            let ret = match t.pick(4) {
                0 => String::new(),
                1 => format!(" -> {}", gen_type(t, n_structs, &mappings)),
                2 => format!(" -> Result<{}, String>", gen_type(t, n_structs, &mappings)),
                _ => " -> Result<(), String>".to_string(),
            };
            let asy = if t.pick(3) == 2 { "async " } else { "" };
            // some commands emit events (the events module and the cache's view of the events)
            let mut params = params;
            let mut body = String::new();
            if t.chance(1, 3) {
                params.insert(0, "app: tauri::AppHandle".to_string());
                let n = t.range(1, 2);
                for e in 0..n {
                    let payload = *t.choose(&["1", "\"text\"", "true"]);
                    body.push_str(&format!("    app.emit(\"{}-event-{}\", {}).unwrap();\n", cname.replace('_', "-"), e, payload));
                }
            }
            src.push_str(&format!("#[tauri::command]\npub {}fn {}({}){} {{\n{}    todo!()\n}}\n\n", asy, cname, params.join(", "), ret, body));
            commands.push(cname);
        }
        crate::gen::rust::must_parse(name, &src);
        files.push((name.to_string(), src));
    }
    Proj { files, cmd_files, commands, mappings, mode }
}

impl Proj {
    pub fn to_json(&self) -> Value {
        json!({"files": self.files.iter().map(|(k, v)| (k.clone(), json!(v))).collect::<serde_json::Map<_, _>>(), "files_with_commands": self.cmd_files, "type_mappings": self.mappings, "validation_library": self.mode})
    }
    fn tags(&self) -> Vec<String> {
        let mut v = vec![format!("files={}", self.files.len()), format!("cmd_files={}", self.cmd_files), format!("mappings={}", self.mappings.len()), format!("mode={}", self.mode)];
        if self.cmd_files >= 2 {
            v.push("cmd_files>=2".into());
        }
        if self.mappings.len() >= 2 {
            v.push("mappings>=2".into());
        }
        if self.cmd_files >= 2 || self.mappings.len() >= 2 {
            // only cases whose analysis iterates a hash collection with >= 2 entries can depend on the hash seed
            v.push("order_dependent".into());
        }
        v
    }
}

// ---------------------------------------------------------------------------------------------
// sandboxes

/// how force is requested
#[derive(Clone, Copy, Debug, PartialEq, Eq, Hash)]
pub enum Force {
    None,
    Flag,
    Conf,
    Cfile,
    FlagConfFalse,
    FlagCfileFalse,
    /// force: false in tauri.conf.json and no flag: must behave like no force at all
    ConfFalse,
}

impl Force {
    pub fn name(self) -> &'static str {
        match self {
            Force::None => "none",
            Force::Flag => "flag",
            Force::Conf => "conf",
            Force::Cfile => "cfile",
            Force::FlagConfFalse => "flag+conf_false",
            Force::FlagCfileFalse => "flag+cfile_false",
            Force::ConfFalse => "conf_false",
        }
    }
    pub fn from_name(s: &str) -> Option<Force> {
        [Force::None, Force::Flag, Force::Conf, Force::Cfile, Force::FlagConfFalse, Force::FlagCfileFalse, Force::ConfFalse].into_iter().find(|f| f.name() == s)
    }
    fn effective(self) -> bool {
        !matches!(self, Force::None | Force::ConfFalse)
    }
}

pub struct Sandbox {
    pub top: PathBuf,
    /// cwd of every run
    pub cwd: PathBuf,
    pub out_dir: PathBuf,
    pub src_dir: PathBuf,
    pub path: &'static str,
    mode: String,
    mappings: Vec<(String, String)>,
}

impl Sandbox {
    /// CLI: <cwd>/src-tauri/** , output <cwd>/src/generated, config <cwd>/tauri.conf.json or -c file.
    /// build script: <root>/src-tauri/{tauri.conf.json,src/**}, cwd = <root>/src-tauri (as cargo runs a build script)
    pub fn new(path: &'static str, files: &[(String, String)], mode: &str, mappings: &[(String, String)]) -> Sandbox {
        let top = fresh_dir("c14");
        let root = top.join("sb");
        std::fs::create_dir_all(&root).unwrap_or_else(|e| infra_exit(&format!("cannot create sandbox: {}", e)));
        let sb = if path == "buildrs" {
            let l = make_build_layout(&root, files, mode, false);
            Sandbox { top, cwd: l.src_tauri.clone(), out_dir: l.out_dir, src_dir: l.src_tauri, path: "buildrs", mode: mode.into(), mappings: mappings.to_vec() }
        } else {
            let st = root.join("src-tauri");
            std::fs::create_dir_all(&st).unwrap();
            write_project(&st, files);
            Sandbox { top, cwd: root.clone(), out_dir: root.join("src").join("generated"), src_dir: st, path: "cli", mode: mode.into(), mappings: mappings.to_vec() }
        };
        sb.write_config(Force::None);
        sb
    }

    fn mappings_json(&self) -> Value {
        Value::Object(self.mappings.iter().map(|(k, v)| (k.clone(), json!(v))).collect())
    }

    /// (re)write the configuration files for the given force source; everything but `force` stays the same
    pub fn write_config(&self, force: Force) {
        let conf_force = match force {
            Force::Conf => Some(true),
            Force::FlagConfFalse | Force::ConfFalse => Some(false),
            _ => None,
        };
        let mut tg = serde_json::Map::new();
        if self.path == "buildrs" {
            tg.insert("projectPath".into(), json!("."));
            tg.insert("outputPath".into(), json!("../src/generated"));
        }
        tg.insert("validationLibrary".into(), json!(self.mode));
        if !self.mappings.is_empty() {
            tg.insert("typeMappings".into(), self.mappings_json());
        }
        if let Some(f) = conf_force {
            tg.insert("force".into(), json!(f));
        }
        let conf = json!({"productName": "app", "plugins": {"typegen": Value::Object(tg)}});
        std::fs::write(self.cwd.join("tauri.conf.json"), serde_json::to_string_pretty(&conf).unwrap()).unwrap();
        if self.path == "cli" {
            let cfile_force = match force {
                Force::Cfile => Some(true),
                Force::FlagCfileFalse => Some(false),
                _ => None,
            };
            let p = self.cwd.join("typegen.config.json");
            if let Some(f) = cfile_force {
                let mut m = serde_json::Map::new();
                m.insert("validation_library".into(), json!(self.mode));
                if !self.mappings.is_empty() {
                    m.insert("type_mappings".into(), self.mappings_json());
                }
                m.insert("force".into(), json!(f));
                std::fs::write(&p, serde_json::to_string_pretty(&Value::Object(m)).unwrap()).unwrap();
            } else {
                let _ = std::fs::remove_file(&p);
            }
        }
    }

    pub fn args(&self, force: Force) -> Vec<&'static str> {
        let mut a = vec!["generate"];
        if matches!(force, Force::Cfile | Force::FlagCfileFalse) {
            a.push("-c");
            a.push("typegen.config.json");
        }
        if matches!(force, Force::Flag | Force::FlagConfFalse | Force::FlagCfileFalse) {
            a.push("--force");
        }
        a
    }

    pub fn run(&self, force: Force, stats: &mut Stats) -> ProcOut {
        stats.eval();
        if self.path == "buildrs" {
            run_buildrs(&self.cwd)
        } else {
            run_cli(&self.args(force), &self.cwd)
        }
    }

    pub fn command_line(&self, force: Force) -> String {
        if self.path == "buildrs" {
            "buildrs_driver (BuildSystem::generate_at_build_time(), cwd = src-tauri)".to_string()
        } else {
            format!("cargo-tauri-typegen tauri-typegen {}", self.args(force).join(" "))
        }
    }

    pub fn snap(&self) -> Snapshot {
        snapshot(&self.out_dir)
    }

    pub fn cleanup(&self) {
        let _ = std::fs::remove_dir_all(&self.top);
    }
}

fn header_timestamp(dir: &Path, file: &str) -> Option<String> {
    let text = std::fs::read_to_string(dir.join(file)).ok()?;
    text.lines().find(|l| l.trim_start().starts_with("* Generated at:")).map(|l| l.trim().to_string())
}

fn command_order(dir: &Path) -> Vec<String> {
    let text = std::fs::read_to_string(dir.join("commands.ts")).unwrap_or_default();
    let mut v = vec![];
    for l in text.lines() {
        if let Some(i) = l.find("invoke(") {
            let rest = &l[i + 7..];
            let name: String = rest.chars().skip(1).take_while(|c| *c != '\'' && *c != '"').collect();
            v.push(name);
        }
    }
    v
}

fn cache_fields(dir: &Path) -> Option<Value> {
    serde_json::from_str(&std::fs::read_to_string(dir.join(".typecache")).ok()?).ok()
}

fn changed_hashes(before: &Option<Value>, after: &Option<Value>) -> Vec<String> {
    let mut v = vec![];
    if let (Some(b), Some(a)) = (before, after) {
        for k in ["commands_hash", "structs_hash", "config_hash"] {
            if b[k] != a[k] {
                v.push(k.to_string());
            }
        }
    }
    v
}

fn render_changes(ch: &[Change]) -> String {
    ch.iter()
        .map(|c| match c {
            Change::Created(p) => format!("created {}", p),
            Change::Deleted(p) => format!("deleted {}", p),
            Change::Modified(p) => format!("rewritten {}", p),
            Change::Touched(p) => format!("rewritten with the same bytes {}", p),
        })
        .collect::<Vec<_>>()
        .join(", ")
}

/// oracle of a forced run: every binding file has a new timestamp header and a new mtime
fn forced_run_failures(sb: &Sandbox, force: Force, before: &Snapshot, ts_before: &[(String, Option<String>)], out: &ProcOut, mk: &dyn Fn(&str) -> Failure) -> Vec<Failure> {
    let mut fails = vec![];
    if !out.ok() {
        fails.push(mk("forced_run_failed").observed(format!("exit {:?}; stderr: {}", out.status, truncate(out.stderr.trim(), 300))).expected("exit 0"));
        return fails;
    }
    let after = sb.snap();
    let changes = diff(before, &after);
    let mut stale = vec![];
    for (file, ts0) in ts_before {
        let ts1 = header_timestamp(&sb.out_dir, file);
        let rewritten = changes.iter().any(|c| matches!(c, Change::Modified(p) | Change::Created(p) if p == file));
        if ts1.is_none() || &ts1 == ts0 || !rewritten {
            stale.push(format!("{} ({} -> {})", file, ts0.clone().unwrap_or("(absent)".into()), ts1.unwrap_or("(absent)".into())));
        }
    }
    if !stale.is_empty() {
        fails.push(
            mk("force_ignored")
                .observed(format!("not regenerated: {}; stdout says up to date: {}", stale.join("; "), out.stdout.contains("up to date")))
                .expected(format!("force requested by {}: commands.ts, types.ts and index.ts rewritten with a new `Generated at:` line and a new mtime", force.name())),
        );
    }
    fails
}

const BINDINGS: &[&str] = &["commands.ts", "types.ts", "index.ts"];

fn timestamps(dir: &Path) -> Vec<(String, Option<String>)> {
    BINDINGS.iter().map(|f| (f.to_string(), header_timestamp(dir, f))).filter(|(_, ts)| ts.is_some()).collect()
}

// ---------------------------------------------------------------------------------------------
// c14.rerun

pub fn check_rerun(t: &mut Tape, reruns: usize, stats: &mut Stats) -> Vec<Failure> {
    let p = gen_project(t);
    let path: &'static str = if t.bool() { "buildrs" } else { "cli" };
    // the non-forced runs either have no force key at all or an explicit force:false
    let quiet = if t.pick(3) == 2 { Force::ConfFalse } else { Force::None };
    let final_force = if path == "buildrs" { Force::Conf } else { *t.choose(&[Force::Flag, Force::Conf, Force::Cfile, Force::FlagConfFalse, Force::FlagCfileFalse]) };
    // while proptest shrinks / re-evaluates a failing tape (stats.frozen): cases that cannot depend on
    // the hash seed need one re-run; the others get more, so that a 2-order flip reproduces (miss 2^-6)
    let order_dependent = p.cmd_files >= 2 || p.mappings.len() >= 2;
    let reruns = if !stats.frozen { reruns } else if order_dependent { reruns.max(6) } else { 1 };
    let sb = Sandbox::new(path, &p.files, &p.mode, &p.mappings);
    sb.write_config(quiet);
    let key = (p.files.clone(), p.mappings.clone(), p.mode.clone(), path);
    stats.label(&format!("rerun:path={}", path));
    stats.label(&format!("rerun:files={}", p.files.len()));
    stats.label(&format!("rerun:cmd_files={}", p.cmd_files));
    {
        let mut base: Vec<&str> = p.files.iter().map(|f| f.0.rsplit('/').next().unwrap_or("")).collect();
        base.sort();
        let n = base.len();
        base.dedup();
        if base.len() < n {
            stats.label("rerun:same_named_files");
        }
    }
    stats.label(&format!("rerun:mappings={}", if p.mappings.is_empty() { "0" } else { ">=2" }));
    if p.cmd_files >= 2 {
        stats.nontrivial(&("rerun", &key));
    }
    let history = json!([{"run": sb.command_line(quiet), "times": 1 + reruns, "fresh_process_each": true}, {"run": sb.command_line(final_force), "force_source": final_force.name()}]);
    let case = json!({"project": p.to_json(), "path": path, "non_forced_config": quiet.name(), "history": history});
    stats.sample(|| case.clone());
    let tags = {
        let mut v = p.tags();
        v.push(format!("path={}", path));
        v
    };
    let mk = |kind: &str| Failure::new(kind).tags(tags.clone()).case(case.clone());
    let mut fails = vec![];

    let first = sb.run(quiet, stats);
    if !first.ok() || header_timestamp(&sb.out_dir, "commands.ts").is_none() {
        fails.push(mk("first_run_failed").observed(format!("exit {:?}; commands.ts present: {}; stderr: {}", first.status, sb.out_dir.join("commands.ts").exists(), truncate(first.stderr.trim(), 300))).expected("exit 0 and bindings written for a project with commands"));
        sb.cleanup();
        return fails;
    }
    let mut before = sb.snap();
    let mut cache_before = cache_fields(&sb.out_dir);
    let case_id = crate::run::stable_hash(&key);
    stats.distinct("orders", &(case_id, command_order(&sb.out_dir)));
    stats.distinct("typecache_contents", &(case_id, cache_before.as_ref().map(|v| v.to_string())));
    let mut orders = std::collections::BTreeSet::new();
    orders.insert(command_order(&sb.out_dir));
    for i in 1..=reruns {
        let out = sb.run(quiet, stats);
        let after = sb.snap();
        let cache_after = cache_fields(&sb.out_dir);
        stats.distinct("orders", &(case_id, command_order(&sb.out_dir)));
        stats.distinct("typecache_contents", &(case_id, cache_after.as_ref().map(|v| v.to_string())));
        orders.insert(command_order(&sb.out_dir));
        let changes = diff(&before, &after);
        if !out.ok() {
            fails.push(mk("rerun_failed").observed(format!("re-run {}: exit {:?}; stderr: {}", i, out.status, truncate(out.stderr.trim(), 300))).expected("exit 0"));
            break;
        }
        if !changes.is_empty() {
            let hashes = changed_hashes(&cache_before, &cache_after);
            fails.push(
                mk("rewritten_without_change")
                    .observed(format!("re-run {} of {}: {}; cache components that changed: {:?}", i, reruns, render_changes(&changes), hashes))
                    .expected("sources and configuration unchanged: every file of the output directory keeps its bytes, mtime and inode"),
            );
            break;
        }
        if path == "cli" && !out.stdout.contains("up to date") {
            fails.push(mk("not_reported_up_to_date").observed(format!("re-run {}: nothing rewritten, stdout: {}", i, truncate(out.stdout.trim(), 200))).expected("the run says the bindings are up to date"));
            break;
        }
        before = after;
        cache_before = cache_after;
    }
    if orders.len() > 1 {
        stats.label("rerun:case saw >1 command order");
    }
    if !fails.iter().any(|f| f.kind == "rerun_failed") {
        // forced run from the cache as the last run left it (force must not depend on it)
        stats.nontrivial(&("force-from-matching", &key, final_force));
        stats.label(&format!("rerun:final_force={}", final_force.name()));
        sb.write_config(final_force);
        let before = sb.snap();
        let ts = timestamps(&sb.out_dir);
        let out = sb.run(final_force, stats);
        let mkf = |kind: &str| mk(kind).tag("cache=matching").tag(format!("force={}", final_force.name()));
        fails.extend(forced_run_failures(&sb, final_force, &before, &ts, &out, &mkf));
    }
    sb.cleanup();
    fails
}

// ---------------------------------------------------------------------------------------------
// c14.force

pub const CACHE_STATES: &[&str] = &["absent", "matching", "mismatching", "corrupt_truncated", "corrupt_nonjson", "corrupt_version"];

#[derive(Clone, Debug, PartialEq, Eq, Hash)]
pub struct ForceKey {
    pub path: String,
    pub cache: String,
    pub force: String,
    /// "single" (one file, one command) | "base" (sandbox::base_project)
    pub project: String,
    pub mode: String,
}

impl ForceKey {
    pub fn to_json(&self) -> Value {
        json!({"path": self.path, "cache": self.cache, "force": self.force, "project": self.project, "mode": self.mode})
    }
    pub fn from_json(v: &Value) -> Option<ForceKey> {
        let s = |k: &str| v[k].as_str().map(String::from);
        Some(ForceKey { path: s("path")?, cache: s("cache")?, force: s("force")?, project: s("project")?, mode: s("mode")? })
    }
}

pub fn force_keys() -> Vec<ForceKey> {
    let mut keys = vec![];
    for project in ["single", "base"] {
        for mode in ["none", "zod"] {
            for cache in CACHE_STATES {
                for (path, force) in [("cli", Force::Flag), ("cli", Force::Conf), ("cli", Force::Cfile), ("cli", Force::FlagConfFalse), ("cli", Force::FlagCfileFalse), ("buildrs", Force::Conf)] {
                    keys.push(ForceKey { path: path.into(), cache: cache.to_string(), force: force.name().into(), project: project.into(), mode: mode.into() });
                }
            }
        }
    }
    keys
}

pub fn check_force(k: &ForceKey, stats: &mut Stats) -> Vec<Failure> {
    let force = Force::from_name(&k.force).unwrap_or_else(|| infra_exit("c14.force: unknown force source in key"));
    let files = if k.project == "single" { vec![("src/lib.rs".to_string(), "#[tauri::command]\npub fn greet(name: String) -> String {\n    todo!()\n}\n".to_string())] } else { base_project() };
    let path: &'static str = if k.path == "buildrs" { "buildrs" } else { "cli" };
    let sb = Sandbox::new(path, &files, &k.mode, &[]);
    let case = json!({"key": k.to_json(), "files": files.iter().map(|(a, b)| (a.clone(), json!(b))).collect::<serde_json::Map<_, _>>(),
        "history": ["generate without force", format!("put the cache into state `{}`", k.cache), format!("write force source `{}`", k.force), sb.command_line(force)]});
    stats.label(&format!("force:cache={}", k.cache));
    stats.label(&format!("force:source={}", k.force));
    stats.sample(|| case.clone());
    let mk = |kind: &str| Failure::new(kind).tag(format!("path={}", k.path)).tag(format!("cache={}", k.cache)).tag(format!("force={}", k.force)).tag(format!("project={}", k.project)).tag(format!("mode={}", k.mode)).case(case.clone());
    let mut fails = vec![];
    let first = sb.run(Force::None, stats);
    if !first.ok() || header_timestamp(&sb.out_dir, "commands.ts").is_none() {
        fails.push(mk("first_run_failed").observed(format!("exit {:?}; stderr: {}", first.status, truncate(first.stderr.trim(), 300))).expected("exit 0 and bindings written"));
        sb.cleanup();
        return fails;
    }
    let cache_path = sb.out_dir.join(".typecache");
    let cache_text = std::fs::read_to_string(&cache_path).unwrap_or_default();
    match k.cache.as_str() {
        "absent" => {
            let _ = std::fs::remove_file(&cache_path);
        }
        "matching" => {
            // control: these projects have a single file with commands, so the cache must hit
            let b = sb.snap();
            let r = sb.run(Force::None, stats);
            if !diff(&b, &sb.snap()).is_empty() || !r.ok() {
                stats.label("force:matching cache did not hit in the control run");
            } else {
                stats.nontrivial(&("force-grid", k));
            }
        }
        "mismatching" => {
            let lib = sb.src_dir.join("src/lib.rs");
            let mut s = std::fs::read_to_string(&lib).unwrap_or_default();
            s.push_str("\n#[tauri::command]\npub fn added_later(flag: bool) -> i32 {\n    todo!()\n}\n");
            std::fs::write(&lib, s).unwrap();
        }
        "corrupt_truncated" => std::fs::write(&cache_path, &cache_text[..cache_text.len() / 2]).unwrap(),
        "corrupt_nonjson" => std::fs::write(&cache_path, "this is not JSON\n").unwrap(),
        "corrupt_version" => std::fs::write(&cache_path, cache_text.replace("\"version\": 1", "\"version\": 999")).unwrap(),
        _ => infra_exit("c14.force: unknown cache state in key"),
    }
    sb.write_config(force);
    let before = sb.snap();
    let ts = timestamps(&sb.out_dir);
    let out = sb.run(force, stats);
    fails.extend(forced_run_failures(&sb, force, &before, &ts, &out, &mk));
    if fails.is_empty() && force.effective() {
        // the forced run must leave a usable cache behind: cache file present and parseable
        if cache_fields(&sb.out_dir).is_none() {
            stats.label("force:no valid cache after the forced run");
        }
    }
    sb.cleanup();
    fails
}

// ---------------------------------------------------------------------------------------------

pub fn run(ctx: &Ctx) {
    let projects = ctx.tier.pick(1000u32, 10000u32);
    let reruns = ctx.tier.pick(3usize, 6usize);
    let keys = force_keys();
    ctx.set_rule(&format!(
        "{} tape-generated projects (1..6 source files, 1..3 commands per command file, 0..3 shared structs, 0 or 2..5 type mappings, mode none/zod) on the CLI or the build-script path: generate, {} non-forced re-runs, one forced run (force source from the tape), every run a fresh process; \
         plus the force grid: {} scenarios = 6 cache states x 6 (path, force source) pairs x 2 projects x 2 modes. non-trivial = >= 2 files with commands (distinct by project+config+path), or a forced run from a cache that demonstrably matched",
        projects,
        reruns,
        keys.len()
    ));
    ctx.assume("hash-seed schedules are sampled (one fresh process per run), not enumerated; distinct_counts.orders / typecache_contents count (case, order) and (case, cache content) pairs seen");
    ctx.assume("'untouched' is judged on the files of the output directory (bytes, mtime in ns, inode); the directory's own mtime is not part of the oracle");
    ctx.search("c14.rerun", projects, 300, |tape, stats| check_rerun(tape, reruns, stats));
    ctx.enumerate("c14.force", &keys, |k| k.to_json(), |k, stats| check_force(k, stats));
}

pub fn replay(check: &str, input: &Value, stats: &mut Stats) -> Option<Vec<Failure>> {
    match check {
        "c14.rerun" => {
            // order-dependent cases: a handful of attempts here, `ttgv --replay` adds up to 64 more
            let mut fails = vec![];
            for _ in 0..4 {
                let mut tape = Tape::new(super::tape_of(input));
                fails = check_rerun(&mut tape, 6, stats);
                if !fails.is_empty() {
                    break;
                }
            }
            Some(fails)
        }
        "c14.force" => Some(check_force(&ForceKey::from_json(input)?, stats)),
        _ => None,
    }
}
