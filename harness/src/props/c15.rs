//! C15 — no input makes analysis or generation panic; bad files are isolated.
//!
//! Engines: grammar-generated exotic Rust (proptest), a real-world corpus (every .rs of the
//! repository and of the vendored dependency sources) with truncations and single-character
//! mutations, a sample through the real binary, and — in the thorough tier — libFuzzer campaigns
//! (harness/fuzz).

use crate::gen::rustsyntax;
use crate::run::{Ctx, Failure, Stats, Tier};
use crate::tape::Tape;
use crate::tool::{self, generate, Cfg};
use serde_json::{json, Value};
use std::path::PathBuf;

fn panic_site(p: &str) -> String {
    // "... at /repo/src/analysis/validator_parser.rs:214"
    p.rsplit(" at ").next().unwrap_or("").rsplit('/').next().unwrap_or("").to_string()
}

pub fn check_files(files: &[(String, String)], extra_tags: &[String], case: Value, stats: &mut Stats) -> Vec<Failure> {
    let mut fails = vec![];
    for mode in ["none", "zod"] {
        stats.eval();
        let out = generate(files, &Cfg::mode(mode));
        if let Some(p) = &out.panic {
            fails.push(
                Failure::new("panic")
                    .tags(extra_tags.iter().cloned())
                    .tag(format!("mode={}", mode))
                    .tag(format!("panic_at={}", panic_site(p)))
                    .observed(p.clone())
                    .expected("analysis and generation return Ok or Err, never panic")
                    .case(case.clone()),
            );
            break; // the same input panics in the analysis phase in both modes
        }
    }
    fails
}

fn classify(src: &str, stats: &mut Stats) -> bool {
    let parses = syn::parse_file(src).is_ok();
    stats.label(if parses { "parses_as_rust" } else { "not_rust" });
    let nontrivial = parses && (src.contains("#[") || src.contains('<'));
    nontrivial
}

pub fn corpus_files() -> Vec<PathBuf> {
    let mut out = vec![];
    let home = std::env::var("CARGO_HOME").map(PathBuf::from).unwrap_or_else(|_| PathBuf::from(std::env::var("HOME").unwrap_or("/root".into())).join(".cargo"));
    let roots = [home.join("registry").join("src"), PathBuf::from("/repo/src"), PathBuf::from("/repo/tests")];
    fn walk(d: &PathBuf, out: &mut Vec<PathBuf>) {
        let Ok(rd) = std::fs::read_dir(d) else { return };
        let mut entries: Vec<_> = rd.flatten().map(|e| e.path()).collect();
        entries.sort();
        for p in entries {
            if p.is_dir() {
                if p.file_name().map_or(false, |n| n == "target" || n == ".git") {
                    continue;
                }
                walk(&p, out);
            } else if p.extension().map_or(false, |e| e == "rs") {
                out.push(p);
            }
        }
    }
    for r in &roots {
        walk(r, &mut out);
    }
    out
}

fn cut_at_char_boundary(s: &str, mut n: usize) -> &str {
    n = n.min(s.len());
    while !s.is_char_boundary(n) {
        n -= 1;
    }
    &s[..n]
}

/// variant: "" | "trunc:<n>" | "mut:<pos>:<char>"
fn apply_variant(content: &str, variant: &str) -> String {
    if let Some(n) = variant.strip_prefix("trunc:") {
        return cut_at_char_boundary(content, n.parse().unwrap_or(0)).to_string();
    }
    if let Some(rest) = variant.strip_prefix("mut:") {
        let mut it = rest.splitn(2, ':');
        let pos: usize = it.next().and_then(|x| x.parse().ok()).unwrap_or(0);
        let ch = it.next().unwrap_or("x");
        let head = cut_at_char_boundary(content, pos);
        let tail = &content[head.len()..];
        let mut tail_chars = tail.chars();
        tail_chars.next();
        return format!("{}{}{}", head, ch, tail_chars.as_str());
    }
    content.to_string()
}

pub fn check_corpus_file(path: &PathBuf, variant: &str, stats: &mut Stats) -> Vec<Failure> {
    let Ok(content) = std::fs::read_to_string(path) else {
        stats.label("corpus:not_utf8_skipped");
        return vec![];
    };
    if content.len() > 600_000 {
        stats.label("corpus:too_large_skipped");
        return vec![];
    }
    let src = apply_variant(&content, variant);
    let nontrivial = classify(&src, stats);
    if nontrivial {
        stats.nontrivial(&(path, variant));
    }
    stats.label(if variant.is_empty() { "corpus:verbatim" } else if variant.starts_with("trunc") { "corpus:truncated" } else { "corpus:mutated" });
    stats.sample(|| json!({"corpus_file": path.display().to_string(), "variant": variant, "bytes": src.len()}));
    check_files(&[("src/lib.rs".to_string(), src)], &["engine=corpus".to_string()], json!({"corpus_file": path.display().to_string(), "variant": variant}), stats)
}

fn grammar_case(t: &mut Tape) -> Vec<(String, String)> {
    let n = t.range(1, 3);
    (0..n).map(|i| (format!("src/f{}.rs", i), rustsyntax::exotic_file(t))).collect()
}

fn check_grammar(files: &[(String, String)], stats: &mut Stats) -> Vec<Failure> {
    let mut nontrivial = false;
    for (_, s) in files {
        nontrivial |= classify(s, stats);
    }
    if nontrivial {
        stats.nontrivial(&files);
    }
    stats.sample(|| json!({"engine": "grammar", "file": files[0].1}));
    check_files(files, &["engine=grammar".to_string()], json!({"files": files.iter().map(|(p, s)| json!({"path": p, "content": s})).collect::<Vec<_>>()}), stats)
}

/// isolation: P ∪ {unparsable / exotic extra file} generates the same declarations as P
fn check_isolation(t: &mut Tape, stats: &mut Stats) -> Vec<Failure> {
    let base = crate::sandbox::base_project();
    let extra = match t.pick(4) {
        0 => "fn broken( {".to_string(),
        1 => rustsyntax::random_text(t, 30),
        2 => {
            let f = rustsyntax::exotic_file(t);
            cut_at_char_boundary(&f, f.len() * 2 / 3).to_string()
        }
        _ => "#[tauri::command]\npub fn lost(a: i32 -> i32 { }".to_string(),
    };
    if syn::parse_file(&extra).is_ok() {
        stats.label("isolation:extra_file_parses_skipped");
        return vec![];
    }
    stats.label("isolation");
    let mode = if t.bool() { "zod" } else { "none" };
    let mut with = base.clone();
    with.push(("src/zz_broken.rs".to_string(), extra.clone()));
    stats.eval();
    let a = generate(&base, &Cfg::mode(mode));
    let b = generate(&with, &Cfg::mode(mode));
    let case = json!({"mode": mode, "extra_file": extra});
    if let Some(p) = &b.panic {
        return vec![Failure::new("panic").tag("engine=isolation").tag(format!("panic_at={}", panic_site(p))).observed(p.clone()).expected("no panic").case(case)];
    }
    if b.result.is_err() && a.result.is_ok() {
        return vec![Failure::new("bad_file_fails_whole_run").tag("engine=isolation").observed(format!("{:?}", b.result)).expected("the unparsable file is skipped").case(case)];
    }
    for f in ["types.ts", "commands.ts", "events.ts", "index.ts"] {
        let ma = a.file(f).map(crate::sandbox::declaration_map);
        let mb = b.file(f).map(crate::sandbox::declaration_map);
        if ma != mb {
            return vec![Failure::new("bad_file_changes_output").tag("engine=isolation").tag(format!("file={}", f)).observed(format!("{} differs when an unparsable file is added", f)).expected("identical declarations").case(case)];
        }
    }
    vec![]
}

fn check_cli(t: &mut Tape, stats: &mut Stats) -> Vec<Failure> {
    let files = grammar_case(t);
    let mode = if t.bool() { "zod" } else { "none" };
    stats.eval();
    stats.label("engine=real_binary");
    let dir = tool::fresh_dir("c15");
    tool::write_project(&dir.join("proj"), &files);
    let o = tool::run_cli(&["generate", "-p", "proj", "-o", "out", "-v", mode], &dir);
    let _ = std::fs::remove_dir_all(&dir);
    if !(o.status == Some(0) || o.status == Some(1)) {
        return vec![Failure::new("abnormal_exit").tag("engine=real_binary").tag(format!("mode={}", mode)).observed(format!("status {:?} signal {:?}: {}", o.status, o.signal, crate::run::truncate(&o.stderr, 400))).expected("exit status 0 or 1").case(json!({"files": files.iter().map(|(p, s)| json!({"path": p, "content": s})).collect::<Vec<_>>(), "mode": mode}))];
    }
    vec![]
}

/// cyclic / recursive type graphs through the real binary with --visualize-deps (the dependency
/// listing walks the graph): exit status 0 or 1, no signal, both graph files written on success
fn check_viz(t: &mut Tape, stats: &mut Stats) -> Vec<Failure> {
    let g = crate::gen::graph::random_graph(t, true);
    let files = g.render();
    let mode = if t.bool() { "zod" } else { "none" };
    stats.eval();
    stats.label("engine=viz_cli");
    let cyclic = g.edges.iter().any(|e| e.to <= e.from);
    if cyclic {
        stats.label("viz:cyclic_graph");
        stats.nontrivial(&format!("{:?}", files));
    }
    let dir = tool::fresh_dir("c15v");
    tool::write_project(&dir.join("proj"), &files);
    let o = tool::run_cli(&["generate", "-p", "proj", "-o", "out", "-v", mode, "--visualize-deps"], &dir);
    let produced = tool::read_dir_files(&dir.join("out"));
    let _ = std::fs::remove_dir_all(&dir);
    let case = json!({"graph": g.summary(), "mode": mode, "files": files.iter().map(|(p, s)| json!({"path": p, "content": s})).collect::<Vec<_>>()});
    if !(o.status == Some(0) || o.status == Some(1)) {
        return vec![Failure::new("abnormal_exit").tag("engine=viz_cli").tag(format!("mode={}", mode)).tag(if cyclic { "graph=cyclic" } else { "graph=acyclic" }).observed(format!("status {:?} signal {:?}: {}", o.status, o.signal, crate::run::truncate(&o.stderr, 300))).expected("exit status 0 or 1").case(case)];
    }
    if o.status == Some(0) && produced.contains_key("commands.ts") && !(produced.contains_key("dependency-graph.txt") && produced.contains_key("dependency-graph.dot")) {
        return vec![Failure::new("viz_files_missing").tag("engine=viz_cli").observed(format!("{:?}", produced.keys().collect::<Vec<_>>())).expected("dependency-graph.txt and dependency-graph.dot").case(case)];
    }
    vec![]
}

fn fuzz_campaign(ctx: &Ctx, target: &str, seconds: u64) {
    // thorough tier only: coverage-guided campaign. The fuzz build is instrumented (ASan, debug
    // assertions): its stack frames are several times larger than those of the tool as shipped, so
    // a deeply nested input can exhaust the stack there and nowhere else. A crash artifact is
    // therefore replayed against the real binary, and only what the real binary does counts:
    // an exit status other than 0 or 1 is a violation, anything else is recorded and dropped.
    for (bytes, log) in crate::fuzz::campaign(ctx, target, seconds, &[], "/repo/tests/fixtures") {
        let text = String::from_utf8_lossy(&bytes).to_string();
        let source = match target {
            "fz_file" => text.clone(),
            _ => {
                // the same source the target builds, plus a command that reaches the struct
                let mut parts = text.splitn(3, '\u{1}');
                let a = parts.next().unwrap_or("");
                let b = parts.next().unwrap_or("");
                let c = parts.next().unwrap_or("i32");
                format!(
                    "use serde::{{Deserialize, Serialize}};\n\n#[derive(Serialize, Deserialize)]\n#[serde({b})]\npub struct S {{\n    #[validate({a})]\n    #[serde({b})]\n    pub f: {c},\n    #[validate(length(min = 1, message = {lit}))]\n    pub g: String,\n}}\n\n#[tauri::command]\npub fn take(s: S) {{}}\n",
                    a = a,
                    b = b,
                    c = c,
                    lit = crate::gen::rust::rust_str_lit(a)
                )
            }
        };
        let mut fails = vec![];
        for mode in ["none", "zod"] {
            let dir = tool::fresh_dir("c15fz");
            tool::write_project(&dir.join("proj"), &[("src/lib.rs".to_string(), source.clone())]);
            let o = tool::run_cli(&["generate", "-p", "proj", "-o", "out", "-v", mode], &dir);
            let _ = std::fs::remove_dir_all(&dir);
            if !(o.status == Some(0) || o.status == Some(1)) {
                fails.push(
                    Failure::new("abnormal_exit")
                        .tag("engine=libfuzzer")
                        .tag(format!("target={}", target))
                        .tag(format!("mode={}", mode))
                        .observed(format!("real binary: status {:?} signal {:?}: {}", o.status, o.signal, crate::run::truncate(&o.stderr, 300)))
                        .expected("exit status 0 or 1")
                        .case(json!({"fuzz_target": target, "input": text, "source": source, "fuzzer_log_tail": crate::run::truncate(&log, 600)})),
                );
                break;
            }
        }
        let reproduced = !fails.is_empty();
        ctx.single(&format!("c15.fuzz.{}", target), json!({"fuzz_target": target, "input": text}), |stats| {
            stats.count(if reproduced { "fuzz_crashes_reproduced_with_the_real_binary" } else { "fuzz_crashes_of_the_instrumented_build_only" }, 1);
            fails
        });
    }
}

pub fn run(ctx: &Ctx) {
    ctx.set_rule("(1) grammar-generated exotic Rust files (generics, lifetimes, where-clauses, impl/dyn, fn pointers, arrays, never, qualified paths, macros, raw and non-ASCII identifiers, attributes with arbitrary-Unicode payloads, malformed validator/serde attributes), 1-3 files per project; (2) real-world corpus: .rs files of /repo and of the vendored dependency sources, verbatim, truncated and with single-character mutations; (3) isolation: the base project plus one unparsable file must generate what the base project generates; (4) a sample through the real binary (exit status 0 or 1), and type graphs with cycles / self-references through the real binary with --visualize-deps; (5, thorough) libFuzzer campaigns on harness/fuzz targets; a crash artifact counts once the real binary, run on the same input, ends with a status other than 0 or 1 (the instrumented fuzz build exhausts its stack on deeply nested expressions that the shipped binary parses). evaluation = one generation run (project x mode); non-trivial = the input parses as Rust and contains an attribute or a generic type");
    ctx.set_exhaustive(false);
    ctx.assume("termination is observed through generous timeouts; a timeout is inconclusive (exit 2), never a violation");
    let files = corpus_files();
    ctx.note("corpus_files_available", json!(files.len()));
    if files.len() < 50 {
        crate::run::infra_exit("corpus of .rs files not found (cargo registry sources missing)");
    }
    let quick = ctx.tier == Tier::Quick;
    // deterministic sample: stride through the sorted list, offset by the seed
    let want = if quick { 1500 } else { files.len() };
    let stride = (files.len() / want).max(1);
    let offset = (ctx.seed as usize) % stride;
    let mut keys: Vec<(PathBuf, String)> = files.iter().skip(offset).step_by(stride).map(|p| (p.clone(), String::new())).collect();
    // truncations and mutations on a sub-sample
    let sub = if quick { 150 } else { 1500 };
    let sstride = (files.len() / sub).max(1);
    for (k, p) in files.iter().skip((ctx.seed as usize / 7) % sstride).step_by(sstride).enumerate() {
        let len = std::fs::metadata(p).map(|m| m.len() as usize).unwrap_or(0);
        if len == 0 || len > 200_000 {
            continue;
        }
        for j in 1..=(if quick { 3 } else { 8 }) {
            keys.push((p.clone(), format!("trunc:{}", len * j / (if quick { 4 } else { 9 }))));
        }
        if len < 4000 && !quick {
            let mut n = 97;
            while n < len {
                keys.push((p.clone(), format!("trunc:{}", n)));
                n += 97;
            }
        }
        let chars = ["\"", "(", ")", "<", ">", "é", "#", ",", "'", "{"];
        for j in 0..(if quick { 2 } else { 6 }) {
            let pos = (k * 7919 + j * 104729 + ctx.seed as usize) % len;
            keys.push((p.clone(), format!("mut:{}:{}", pos, chars[(k + j) % chars.len()])));
        }
    }
    ctx.note("corpus_cases", json!(keys.len()));
    ctx.enumerate("c15.corpus", &keys, |(p, v)| json!({"path": p.display().to_string(), "variant": v}), |(p, v), stats| check_corpus_file(p, v, stats));
    let cases = ctx.tier.pick(3000, 60000);
    ctx.search("c15.grammar", cases, 600, |tape, stats| {
        let files = grammar_case(tape);
        check_grammar(&files, stats)
    });
    ctx.search("c15.isolation", ctx.tier.pick(200, 3000), 200, |tape, stats| check_isolation(tape, stats));
    ctx.search("c15.cli", ctx.tier.pick(60, 600), 600, |tape, stats| check_cli(tape, stats));
    ctx.search("c15.viz", ctx.tier.pick(150, 2000), 200, |tape, stats| check_viz(tape, stats));
    if !quick {
        for target in ["fz_file", "fz_attr"] {
            fuzz_campaign(ctx, target, 180);
        }
    }
}

pub fn replay(check: &str, input: &Value, stats: &mut Stats) -> Option<Vec<Failure>> {
    match check {
        "c15.corpus" => Some(check_corpus_file(&PathBuf::from(input["path"].as_str()?), input["variant"].as_str().unwrap_or(""), stats)),
        "c15.grammar" => {
            let mut tape = Tape::new(super::tape_of(input));
            Some(check_grammar(&grammar_case(&mut tape), stats))
        }
        "c15.isolation" => {
            let mut tape = Tape::new(super::tape_of(input));
            Some(check_isolation(&mut tape, stats))
        }
        "c15.viz" => {
            let mut tape = Tape::new(super::tape_of(input));
            Some(check_viz(&mut tape, stats))
        }
        "c15.cli" => {
            let mut tape = Tape::new(super::tape_of(input));
            Some(check_cli(&mut tape, stats))
        }
        c if c.starts_with("c15.fuzz.") || c == "c15.source" => {
            let text = input["input"].as_str().or(input["source"].as_str())?.to_string();
            Some(check_files(&[("src/lib.rs".to_string(), text.clone())], &["engine=replay".to_string()], json!({"input": text}), stats))
        }
        _ => None,
    }
}
