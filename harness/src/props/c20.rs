//! C20 — dependency ordering routines are correct on every graph.
//!
//! Exhaustive: all 65 536 digraphs on 4 labelled nodes (self-loops included) x all 15 non-empty
//! requested subsets x R fresh hash seeds; random graphs of 5..12 nodes through proptest.
//! Oracle: transitive closure by Floyd–Warshall on the bit matrix.

use crate::run::{Ctx, Failure, Stats};
use crate::tape::Tape;
use crate::tool::guarded;
use serde_json::{json, Value};
use std::collections::{HashMap, HashSet};
use tauri_typegen::analysis::dependency_graph::TypeDependencyGraph;
use tauri_typegen::build::dependency_resolver::{Dependency, DependencyNode, DependencyNodeType, DependencyResolver, DependencyType};

fn name(i: usize) -> String {
    format!("T{}", i)
}

/// adjacency as a list of bitmasks: adj[u] bit v set ⇔ u depends on v
#[derive(Clone, Debug, PartialEq, Eq, Hash)]
pub struct G {
    pub n: usize,
    pub adj: Vec<u16>,
    /// extra parallel edges (resolver only)
    pub multi: Vec<(usize, usize)>,
}

impl G {
    pub fn from_bits4(bits: u32) -> G {
        let mut adj = vec![0u16; 4];
        for u in 0..4 {
            adj[u] = ((bits >> (4 * u)) & 0xf) as u16;
        }
        G { n: 4, adj, multi: vec![] }
    }
    pub fn closure(&self) -> Vec<u16> {
        let mut r = self.adj.clone();
        for k in 0..self.n {
            for i in 0..self.n {
                if r[i] >> k & 1 == 1 {
                    r[i] |= r[k];
                }
            }
        }
        r
    }
    pub fn edges(&self) -> Vec<(usize, usize)> {
        let mut e = vec![];
        for u in 0..self.n {
            for v in 0..self.n {
                if self.adj[u] >> v & 1 == 1 {
                    e.push((u, v));
                }
            }
        }
        e
    }
    pub fn acyclic(&self) -> bool {
        let c = self.closure();
        (0..self.n).all(|i| c[i] >> i & 1 == 0)
    }
    pub fn to_json(&self) -> Value {
        json!({"n": self.n, "edges": self.edges(), "multi": self.multi})
    }
    pub fn from_json(v: &Value) -> Option<G> {
        let n = v["n"].as_u64()? as usize;
        let mut adj = vec![0u16; n];
        for e in v["edges"].as_array()? {
            let u = e[0].as_u64()? as usize;
            let w = e[1].as_u64()? as usize;
            adj[u] |= 1 << w;
        }
        let multi = v["multi"].as_array().map(|a| a.iter().filter_map(|e| Some((e[0].as_u64()? as usize, e[1].as_u64()? as usize))).collect()).unwrap_or_default();
        Some(G { n, adj, multi })
    }
}

pub fn check_toposort(g: &G, requested: u16, stats: &mut Stats) -> Vec<Failure> {
    stats.eval();
    let edges = g.edges();
    if edges.iter().any(|(u, v)| u != v) {
        stats.nontrivial(&("topo", g, requested));
    }
    let mut graph = TypeDependencyGraph::new();
    for u in 0..g.n {
        // nodes without dependencies get an entry or not, both occur in the tool's own use
        if g.adj[u] != 0 || u % 2 == 0 {
            let deps: HashSet<String> = (0..g.n).filter(|v| g.adj[u] >> v & 1 == 1).map(name).collect();
            graph.add_dependencies(name(u), deps);
        }
    }
    let req: HashSet<String> = (0..g.n).filter(|i| requested >> i & 1 == 1).map(name).collect();
    let case = json!({"routine": "topological_sort_types", "graph": g.to_json(), "requested": req.iter().cloned().collect::<std::collections::BTreeSet<_>>()});
    let res = match guarded(|| graph.topological_sort_types(&req)) {
        Ok(r) => r,
        Err(p) => return vec![Failure::new("panic").tag("routine=toposort").observed(p).expected("an ordering").case(case)],
    };
    verify_order(g, requested, &res, "routine=toposort", &case)
}

/// `res` must hold each requested type and each transitive dependency exactly once, with every
/// dependency before its dependents unless the two lie on a common cycle
fn verify_order(g: &G, requested: u16, res: &[String], routine: &str, case: &Value) -> Vec<Failure> {
    let edges = g.edges();
    let clo = g.closure();
    let mut expect_set: u16 = requested;
    for i in 0..g.n {
        if requested >> i & 1 == 1 {
            expect_set |= clo[i];
        }
    }
    let mut pos: HashMap<String, usize> = HashMap::new();
    let mut fails = vec![];
    let observed = format!("{:?}", res);
    for (i, n) in res.iter().enumerate() {
        if pos.insert(n.clone(), i).is_some() {
            fails.push(Failure::new("duplicate_in_order").tag(routine).observed(observed.clone()).expected("each type exactly once").case(case.clone()));
            return fails;
        }
    }
    let got_set: u16 = (0..g.n).filter(|i| pos.contains_key(&name(*i))).fold(0, |a, i| a | 1 << i);
    if got_set != expect_set || pos.len() != expect_set.count_ones() as usize {
        let exp: Vec<String> = (0..g.n).filter(|i| expect_set >> i & 1 == 1).map(name).collect();
        fails.push(Failure::new("wrong_member_set").tag(routine).observed(observed.clone()).expected(format!("exactly {:?} (requested plus transitive dependencies)", exp)).case(case.clone()));
        return fails;
    }
    for (u, v) in edges {
        if u == v {
            continue;
        }
        let on_cycle = clo[v] >> u & 1 == 1;
        if on_cycle {
            continue;
        }
        if let (Some(pu), Some(pv)) = (pos.get(&name(u)), pos.get(&name(v))) {
            if pv > pu {
                fails.push(
                    Failure::new("dependency_after_dependent")
                        .tag(routine)
                        .observed(observed.clone())
                        .expected(format!("{} before {} ({} depends on it, no common cycle)", name(v), name(u), name(u)))
                        .case(case.clone()),
                );
                return fails;
            }
        }
    }
    fails
}

/// The routine as the generators reach it: `CommandAnalyzer::topological_sort_types` after a real
/// analysis. The graph becomes a project (one serde struct per node, one `Vec<Tj>` field per
/// edge, one command mentioning every type so that all of them are resolved); every non-empty
/// requested subset is then sorted through the analyzer.
pub fn check_analyzer(g: &G, stats: &mut Stats) -> Vec<Failure> {
    let mut src = String::from("use serde::{Deserialize, Serialize};\n\n");
    for u in 0..g.n {
        src.push_str(&format!("#[derive(Serialize, Deserialize)]\npub struct {} {{\n    pub id: u32,\n", name(u)));
        for v in 0..g.n {
            if g.adj[u] >> v & 1 == 1 {
                src.push_str(&format!("    pub to_{}: Vec<{}>,\n", v, name(v)));
            }
        }
        if u % 2 == 1 {
            // a type the project does not define (an external crate's): still a dependency
            src.push_str(&format!("    pub ext: Option<{}>,\n", name(g.n)));
        }
        src.push_str("}\n\n");
    }
    // the model graph gets the external type as node n
    let mut ext = G { n: g.n + 1, adj: g.adj.clone(), multi: vec![] };
    ext.adj.push(0);
    for u in (1..g.n).step_by(2) {
        ext.adj[u] |= 1 << g.n;
    }
    let model = ext;
    let params: Vec<String> = (0..g.n).map(|i| format!("p{}: {}", i, name(i))).collect();
    src.push_str(&format!("#[tauri::command]\npub fn root({}) {{}}\n", params.join(", ")));
    let dir = crate::tool::fresh_dir("c20a");
    crate::tool::write_project(&dir, &[("src/lib.rs".to_string(), src.clone())]);
    let mut analyzer = tauri_typegen::analysis::CommandAnalyzer::new();
    let analysed = guarded(|| analyzer.analyze_project(dir.to_str().unwrap_or(".")).map(|c| c.len()).map_err(|e| e.to_string()));
    let _ = std::fs::remove_dir_all(&dir);
    let case0 = json!({"routine": "CommandAnalyzer::topological_sort_types", "graph": g.to_json(), "rust": src});
    match analysed {
        Ok(Ok(1)) => {}
        other => return vec![Failure::new("tool_error").tag("routine=analyzer").observed(format!("{:?}", other)).expected("the project is analysed (one command)").case(case0)],
    }
    let mut fails = vec![];
    for requested in 1..(1u32 << g.n) as u16 {
        stats.eval();
        if g.edges().iter().any(|(u, v)| u != v) {
            stats.nontrivial(&("analyzer", g, requested));
        }
        let req: HashSet<String> = (0..g.n).filter(|i| requested >> i & 1 == 1).map(name).collect();
        let case = json!({"routine": "CommandAnalyzer::topological_sort_types", "graph": g.to_json(), "requested": req.iter().cloned().collect::<std::collections::BTreeSet<_>>(), "rust": src});
        let res = match guarded(|| analyzer.topological_sort_types(&req)) {
            Ok(r) => r,
            Err(p) => return vec![Failure::new("panic").tag("routine=analyzer").observed(p).expected("an ordering").case(case)],
        };
        fails.extend(verify_order(&model, requested, &res, "routine=analyzer", &case));
        if !fails.is_empty() {
            break;
        }
    }
    fails
}

fn node(i: usize) -> DependencyNode {
    DependencyNode { name: name(i), path: format!("src/{}.rs", name(i)), node_type: if i % 2 == 0 { DependencyNodeType::Struct } else { DependencyNodeType::Enum } }
}

pub fn check_resolver(g: &G, isolated: u16, stats: &mut Stats) -> Vec<Failure> {
    stats.eval();
    let edges = g.edges();
    if edges.iter().any(|(u, v)| u != v) {
        stats.nontrivial(&("resolver", g, isolated));
    }
    let mut r = DependencyResolver::new();
    let mut present: u16 = 0;
    for (u, v) in edges.iter().chain(g.multi.iter()) {
        r.add_dependency(Dependency { from: node(*u), to: node(*v), dependency_type: DependencyType::Field });
        present |= 1 << u | 1 << v;
    }
    for i in 0..g.n {
        if isolated >> i & 1 == 1 {
            r.add_node(node(i));
            present |= 1 << i;
        }
    }
    let case = json!({"routine": "resolve_build_order", "graph": g.to_json(), "isolated_nodes": isolated});
    let res = match guarded(|| r.resolve_build_order().map(|v| v.into_iter().map(|n| n.name).collect::<Vec<_>>()).map_err(|e| e.to_string())) {
        Ok(r) => r,
        Err(p) => return vec![Failure::new("panic").tag("routine=resolver").observed(p).expected("Ok(order) or Err(CircularDependency)").case(case)],
    };
    let acyclic = g.acyclic();
    let mk = |kind: &str, obs: String, exp: String| Failure::new(kind).tag("routine=resolver").observed(obs).expected(exp).case(case.clone());
    match res {
        Ok(order) => {
            if !acyclic {
                return vec![mk("cycle_not_reported", format!("Ok({:?})", order), "Err(CircularDependency)".into())];
            }
            let mut pos = HashMap::new();
            for (i, n) in order.iter().enumerate() {
                if pos.insert(n.clone(), i).is_some() {
                    return vec![mk("duplicate_in_order", format!("{:?}", order), "a permutation of all nodes".into())];
                }
            }
            if pos.len() != present.count_ones() as usize || (0..g.n).any(|i| (present >> i & 1 == 1) != pos.contains_key(&name(i))) {
                return vec![mk("wrong_member_set", format!("{:?}", order), "a permutation of all nodes".into())];
            }
            for (u, v) in edges {
                if pos[&name(v)] > pos[&name(u)] {
                    return vec![mk("dependency_after_dependent", format!("{:?}", order), format!("{} before {}", name(v), name(u)))];
                }
            }
            vec![]
        }
        Err(e) => {
            if acyclic {
                return vec![mk("spurious_cycle", format!("Err({})", e), "Ok(valid topological order)".into())];
            }
            if !e.to_lowercase().contains("circular") {
                return vec![mk("wrong_error", format!("Err({})", e), "Err(CircularDependency)".into())];
            }
            vec![]
        }
    }
}

/// digraph on n <= 4 labelled nodes from an adjacency bit matrix (row-major, n bits per row)
fn graph_of(n: usize, bits: u32) -> G {
    let mut adj = vec![0u16; n];
    for u in 0..n {
        adj[u] = ((bits >> (n * u)) & ((1 << n) - 1)) as u16;
    }
    G { n, adj, multi: vec![] }
}

fn random_graph(t: &mut Tape) -> (G, u16, u16) {
    let n = t.range(5, 12);
    let density = t.range(1, 6);
    let mut adj = vec![0u16; n];
    let dag_only = t.bool();
    for u in 0..n {
        for v in 0..n {
            if dag_only && v >= u {
                continue;
            }
            if t.pick(12) < density {
                adj[u] |= 1 << v;
            }
        }
    }
    let mut multi = vec![];
    let k = t.pick(3);
    let g0 = G { n, adj: adj.clone(), multi: vec![] };
    let edges = g0.edges();
    for _ in 0..k {
        if !edges.is_empty() {
            multi.push(edges[t.pick(edges.len())]);
        }
    }
    let requested = (t.raw() as u16 & ((1u32 << n) - 1) as u16).max(1);
    let isolated = t.raw() as u16 & ((1u32 << n) - 1) as u16;
    (G { n, adj, multi }, requested, isolated)
}

fn silence_stderr() {
    // the routine prints one warning per detected cycle: millions of lines in the exhaustive tier
    unsafe {
        let fd = libc::open(b"/dev/null\0".as_ptr() as *const libc::c_char, libc::O_WRONLY);
        if fd >= 0 {
            libc::dup2(fd, 2);
            libc::close(fd);
        }
    }
}

pub fn run(ctx: &Ctx) {
    silence_stderr();
    let reps = ctx.tier.pick(2u32, 16u32);
    ctx.set_rule(&format!(
        "all 65536 digraphs on 4 labelled nodes (self-loops included) x all 15 non-empty requested subsets for topological_sort_types, x all 16 isolated-node subsets for resolve_build_order, each x {} evaluations with freshly built hash collections; plus the same ordering oracle applied to CommandAnalyzer::topological_sort_types after a real analysis of a project rendered from the graph (all 512 graphs on 3 nodes and, quick: every 16th / thorough: every graph on 4 nodes, x all non-empty requested subsets); plus random graphs of 5..12 nodes (with multi-edges for the resolver); non-trivial = at least one edge between distinct nodes, distinct by (routine, graph, subset)",
        reps
    ));
    ctx.set_exhaustive(true);
    ctx.assume("hash-seed schedules are sampled (fresh RandomState per collection instance), not enumerated");
    let keys: Vec<u32> = (0..65536u32).collect();
    ctx.enumerate(
        "c20.exhaustive4",
        &keys,
        |bits| json!({"bits": bits}),
        |bits, stats| {
            let g = G::from_bits4(*bits);
            let mut fails = vec![];
            for _ in 0..reps {
                for req in 1..16u16 {
                    fails.extend(check_toposort(&g, req, stats));
                    if !fails.is_empty() {
                        return fails;
                    }
                }
                for iso in 0..16u16 {
                    fails.extend(check_resolver(&g, iso, stats));
                    if !fails.is_empty() {
                        return fails;
                    }
                }
            }
            stats.sample(|| json!({"graph": g.to_json(), "requested_subsets": "1..15", "isolated_subsets": "0..15", "acyclic": g.acyclic()}));
            fails
        },
    );
    // through the analyzer: all graphs on 3 nodes, and every 16th (quick) / every (thorough) graph on 4
    let stride = ctx.tier.pick(16u32, 1u32);
    let mut akeys: Vec<(usize, u32)> = (0..512u32).map(|b| (3usize, b)).collect();
    akeys.extend((0..65536u32).filter(|b| b % stride == 7 % stride).map(|b| (4usize, b)));
    ctx.note("analyzer_graphs", json!(akeys.len()));
    ctx.enumerate("c20.analyzer", &akeys, |(n, bits)| json!({"n": n, "bits": bits}), |(n, bits), stats| check_analyzer(&graph_of(*n, *bits), stats));
    let cases = ctx.tier.pick(5000, 200000);
    ctx.search("c20.random", cases, 200, |tape, stats| {
        let (g, req, iso) = random_graph(tape);
        stats.label(if g.acyclic() { "random:acyclic" } else { "random:cyclic" });
        stats.label(&format!("random:n={}", g.n));
        let mut f = check_toposort(&g, req, stats);
        f.extend(check_resolver(&g, iso, stats));
        stats.sample(|| json!({"graph": g.to_json(), "requested_mask": req, "isolated_mask": iso}));
        f
    });
}

pub fn replay(check: &str, input: &Value, stats: &mut Stats) -> Option<Vec<Failure>> {
    silence_stderr();
    match check {
        "c20.exhaustive4" => {
            let g = G::from_bits4(input["bits"].as_u64()? as u32);
            let mut fails = vec![];
            for _ in 0..64 {
                for req in 1..16u16 {
                    fails.extend(check_toposort(&g, req, stats));
                }
                for iso in 0..16u16 {
                    fails.extend(check_resolver(&g, iso, stats));
                }
                if !fails.is_empty() {
                    break;
                }
            }
            Some(fails)
        }
        "c20.analyzer" => Some(check_analyzer(&graph_of(input["n"].as_u64()? as usize, input["bits"].as_u64()? as u32), stats)),
        "c20.random" => {
            let mut fails = vec![];
            for _ in 0..64 {
                let mut tape = Tape::new(super::tape_of(input));
                let (g, req, iso) = random_graph(&mut tape);
                fails.extend(check_toposort(&g, req, stats));
                fails.extend(check_resolver(&g, iso, stats));
                if !fails.is_empty() {
                    break;
                }
            }
            Some(fails)
        }
        _ => None,
    }
}
