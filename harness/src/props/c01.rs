//! C01 — every generated file is syntactically valid TypeScript.

use crate::gen::project::{random_project, Proj};
use crate::gen::rust::must_parse;
use crate::run::{Ctx, Failure, Stats};
use crate::tape::Tape;
use crate::tool::generate;
use crate::ts::lex::ErrKind;
use crate::ts::parse::parse_module;
use serde_json::{json, Value};

pub fn check_files(files: &std::collections::BTreeMap<String, String>, tags: &[String], case: &Value) -> Vec<Failure> {
    let mut fails = vec![];
    for (name, src) in files {
        if !name.ends_with(".ts") {
            continue;
        }
        let m = parse_module(src, true);
        for e in &m.errors {
            if e.kind == ErrKind::Unmodelled {
                crate::run::infra_exit(&format!("{} uses TypeScript outside the modelled subset: {}", name, e));
            }
            fails.push(Failure::new("syntax_error").tags(tags.iter().cloned()).tag(format!("file={}", name)).observed(format!("{}:{}:{}: {}", name, e.line, e.col, e.msg)).expected("the file parses as a TypeScript module").case(case.clone()));
        }
        // Rust surface syntax that could survive inside comments or strings is harmless; outside
        // them the lexer / parser has already rejected `::`, `r#`, unbalanced brackets.
    }
    fails
}

pub fn check_project(p: &Proj, stats: &mut Stats) -> Vec<Failure> {
    let files = p.render();
    for (path, s) in &files {
        must_parse(path, s);
    }
    stats.eval();
    let nontrivial = p.features.iter().any(|f| {
        f == "has=type_depth>=2" || f == "has=nonident_rename" || f == "has=event_colon_or_slash" || f == "has=reserved_command_name" || f == "has=raw_ident" || f == "has=type_mapping" || f == "has=validator"
    });
    if nontrivial {
        stats.nontrivial(&format!("{:?}{:?}", files, p.cfg));
    }
    for f in &p.features {
        stats.label(f);
    }
    stats.label(&format!("files={}", p.n_files));
    let out = generate(&files, &p.cfg);
    let case = json!({"config": p.cfg.to_json(), "files": files.iter().map(|(p, s)| json!({"path": p, "content": s})).collect::<Vec<_>>()});
    let tags: Vec<String> = p.features.iter().cloned().collect();
    if let Err(e) = &out.result {
        return vec![Failure::new(if out.panic.is_some() { "panic" } else { "tool_error" }).tags(tags).observed(e.clone()).expected("generation succeeds").case(case)];
    }
    stats.sample(|| json!({"config": p.cfg.to_json(), "features": p.features, "rust_files": files.iter().map(|(p, s)| format!("{} ({} bytes)", p, s.len())).collect::<Vec<_>>(), "first_file": files[0].1, "generated": out.files.keys().collect::<Vec<_>>()}));
    check_files(&out.files, &tags, &case)
}

pub fn run(ctx: &Ctx) {
    ctx.set_rule("whole projects from the documented feature set: 1-5 files, 0-4 structs (serde rename / rename_all over all 8 rules / skip, validator length/range/email/url/message), 0-2 unit enums, 1-6 commands (names incl. JS reserved words, raw identifiers, odd underscores; value / injected / channel parameters; types nested to depth 3 over Option/Vec/sets/maps/tuples/refs/Result), events (names over [A-Za-z0-9_-/:], literal / struct / typed-parameter / call payloads), type mappings, naming-case settings, both modes; every generated .ts file must be consumed completely by the TypeScript-subset parser. evaluation = one generation run; non-trivial = the project has a type of depth >= 2, a non-identifier rename, an event name with ':' or '/', a reserved-word name, a raw identifier, a mapping or a validator");
    ctx.set_exhaustive(false);
    ctx.assume("validity is relative to the harness's TypeScript-subset parser (stricter than nothing, never stricter than tsc on the fragment the templates emit)");
    let cases = ctx.tier.pick(3000, 400000);
    ctx.search("c01.project", cases, 400, |tape, stats| {
        let mut avoided = 0;
        let p = random_project(tape, false, &mut avoided);
        check_project(&p, stats)
    });
    if ctx.tier == crate::run::Tier::Thorough {
        // second engine: libFuzzer drives the same generator through the choice tape, with the
        // parse oracle inside the target (strict mode: any C01 failure aborts)
        for (bytes, _log) in crate::fuzz::campaign(ctx, "fz_tape", 240, &[("TTGV_FUZZ_STRICT", "1")], "/nonexistent") {
            let input = json!({"bytes": bytes});
            let mut tape = Tape::from_bytes(&bytes);
            let mut avoided = 0;
            let p = random_project(&mut tape, false, &mut avoided);
            ctx.single("c01.fuzz_tape", input, |stats| check_project(&p, stats));
        }
    }
}

fn tape_from_byte_json(input: &Value) -> Tape {
    let bytes: Vec<u8> = input["bytes"].as_array().map(|a| a.iter().filter_map(|x| x.as_u64().map(|v| v as u8)).collect()).unwrap_or_default();
    Tape::from_bytes(&bytes)
}

pub fn replay(check: &str, input: &Value, stats: &mut Stats) -> Option<Vec<Failure>> {
    match check {
        "c01.files" => {
            // explicit sources: [{path, content}], mode
            let files: Vec<(String, String)> = input["files"].as_array()?.iter().filter_map(|f| Some((f["path"].as_str()?.to_string(), f["content"].as_str()?.to_string()))).collect();
            let cfg = crate::tool::Cfg::mode(input["mode"].as_str().unwrap_or("none"));
            stats.eval();
            let out = generate(&files, &cfg);
            let case = json!({"files": input["files"], "mode": cfg.mode});
            if let Err(e) = &out.result {
                return Some(vec![Failure::new("tool_error").observed(e.clone()).expected("generation succeeds").case(case)]);
            }
            Some(check_files(&out.files, &[format!("mode={}", cfg.mode)], &case))
        }
        "c01.fuzz_tape" => {
            let mut tape = tape_from_byte_json(input);
            let mut avoided = 0;
            let p = random_project(&mut tape, false, &mut avoided);
            Some(check_project(&p, stats))
        }
        "c01.project" => {
            let mut tape = Tape::new(super::tape_of(input));
            let mut avoided = 0;
            let p = random_project(&mut tape, false, &mut avoided);
            Some(check_project(&p, stats))
        }
        _ => None,
    }
}
