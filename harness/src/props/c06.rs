//! C06 — property keys and enum literals equal the names serde uses on the wire.

use crate::gen::names;
use crate::gen::rust::{must_parse, rust_str_lit, PRELUDE};
use crate::model::serde_names::{self, wire_name, FIELD_IDENTS, RULES, VARIANT_IDENTS};
use crate::run::{Ctx, Failure, Stats};
use crate::tape::Tape;
use crate::tool::{generate, Cfg};
use crate::ts::ast::{Member, Type};
use crate::tsx;
use crate::zodm;
use serde_json::{json, Value};

pub const FIELD_FORMS: &[&str] =
    &["none", "rename", "skip", "skip_serializing_if", "default", "default_path", "rename_default", "default_rename", "two_attrs", "validate_doc_rename", "ssi_path_default", "skip_default", "rename_then_default_attr", "rename_then_ssi_attr", "three_attrs_rename_mid", "rename_raw_literal", "skip_then_default_attr"];
pub const VARIANT_FORMS: &[&str] = &["none", "rename", "doc_rename", "two_attrs", "rename_then_alias_attr", "rename_raw_literal", "skip", "skip_then_alias_attr"];

pub const RENAMES: &[&str] = &[
    "userId", "user-id", "USER-ID", "with space", "rename_all", "skip", "quo\"te", "back\\slash", "ünï-cödé", "a.b", "123abc", "type", "rename", "skip_me", "x", "dollar$", "emoji😀",
    "tab\there", "it's", "delete",
];

#[derive(Clone, Debug)]
pub struct ItemM {
    pub ident: String,
    pub form: String,
    pub rename: Option<String>,
    pub skipped: bool,
    /// attribute lines, rendered
    pub attrs: String,
    pub optional_ty: bool,
}

#[derive(Clone, Debug)]
pub struct TypeM {
    pub name: String,
    pub is_enum: bool,
    pub rule: Option<String>,
    pub items: Vec<ItemM>,
    /// how the container's serde attributes are written (CONTAINER_FORMS)
    pub container: String,
}

/// container-level spellings: rename_all alone, sharing an attribute with other keys (before /
/// after them), in a separate attribute (before / after another serde attribute), next to a
/// container-level `rename` (which renames the type on the wire, never its members), and below
/// a doc comment that mentions another rule in prose. Without a rule only the noise remains.
pub const CONTAINER_FORMS: &[&str] = &["plain", "rule_then_key", "key_then_rule", "attr_then_rule_attr", "rule_attr_then_attr", "with_container_rename", "doc_mentions_rule"];

fn container_attrs(t: &TypeM) -> String {
    let other = "deny_unknown_fields";
    let rule = t.rule.as_ref().map(|r| format!("rename_all = \"{}\"", r));
    match (t.container.as_str(), rule) {
        ("rule_then_key", Some(r)) => format!("#[serde({}, {})]\n", r, other),
        ("key_then_rule", Some(r)) => format!("#[serde({}, {})]\n", other, r),
        ("attr_then_rule_attr", Some(r)) => format!("#[serde({})]\n#[serde({})]\n", other, r),
        ("rule_attr_then_attr", Some(r)) => format!("#[serde({})]\n#[serde({})]\n", r, other),
        ("with_container_rename", Some(r)) => format!("#[serde(rename = \"wire_type_name\", {})]\n", r),
        ("doc_mentions_rule", Some(r)) => format!("/// not #[serde(rename_all = \"SCREAMING-KEBAB-CASE\")], and no skip\n#[serde({})]\n", r),
        (_, Some(r)) => format!("#[serde({})]\n", r),
        ("plain", None) => String::new(),
        ("with_container_rename", None) => "#[serde(rename = \"wire_type_name\")]\n".to_string(),
        ("doc_mentions_rule", None) => "/// not #[serde(rename_all = \"SCREAMING-KEBAB-CASE\")], and no skip\n".to_string(),
        (_, None) => format!("#[serde({})]\n", other),
    }
}

pub fn rename_class(s: &str) -> &'static str {
    if s.contains("skip") {
        "contains_skip"
    } else if s.contains("rename") {
        "contains_rename"
    } else if s.contains('"') {
        "quote"
    } else if s.contains('\\') {
        "backslash"
    } else if s.contains('\'') {
        "apostrophe"
    } else if s.chars().any(|c| (c as u32) < 0x20) {
        "control"
    } else if !s.is_ascii() {
        "nonascii"
    } else if crate::ts::lex::is_identifier_name(s) {
        "identlike"
    } else {
        "nonident"
    }
}

pub fn make_item(ident: &str, form: &str, rename: &str, idx: usize) -> ItemM {
    let lit = rust_str_lit(rename);
    let (attrs, ren, skipped, opt): (String, Option<&str>, bool, bool) = match form {
        "none" => (String::new(), None, false, false),
        "rename" => (format!("#[serde(rename = {})]", lit), Some(rename), false, false),
        // skip every other item so that the type keeps some members
        "skip" => {
            if idx % 2 == 0 {
                ("#[serde(skip)]".into(), None, true, false)
            } else {
                (String::new(), None, false, false)
            }
        }
        "skip_serializing_if" => ("#[serde(skip_serializing_if = \"Option::is_none\")]".into(), None, false, true),
        "default" => ("#[serde(default)]".into(), None, false, false),
        "default_path" => {
            let p = ["skip_it", "rename_me", "defaults::skip", "make_default"][idx % 4];
            (format!("#[serde(default = \"{}\")]", p), None, false, false)
        }
        "rename_default" => (format!("#[serde(rename = {}, default)]", lit), Some(rename), false, false),
        "default_rename" => (format!("#[serde(default, rename = {})]", lit), Some(rename), false, false),
        "two_attrs" => (format!("#[serde(default)]\n    #[serde(rename = {})]", lit), Some(rename), false, false),
        "validate_doc_rename" => (format!("/// documented, says skip and rename in prose\n    #[validate(range(min = 1))]\n    #[serde(rename = {})]", lit), Some(rename), false, false),
        "ssi_path_default" => ("#[serde(skip_serializing_if = \"skip_check\", default)]".into(), None, false, true),
        "skip_default" => {
            if idx % 2 == 1 {
                ("#[serde(skip, default)]".into(), None, true, false)
            } else {
                ("#[serde(default)]".into(), None, false, false)
            }
        }
        "rename_then_default_attr" => (format!("#[serde(rename = {})]\n    #[serde(default)]", lit), Some(rename), false, false),
        "rename_then_ssi_attr" => (format!("#[serde(rename = {})]\n    #[serde(skip_serializing_if = \"Option::is_none\")]", lit), Some(rename), false, true),
        "three_attrs_rename_mid" => (format!("#[serde(default)]\n    #[serde(rename = {})]\n    #[serde(alias = \"other_name\")]", lit), Some(rename), false, false),
        "rename_then_alias_attr" => (format!("#[serde(rename = {})]\n    #[serde(alias = \"old_name\")]", lit), Some(rename), false, false),
        "doc_rename" => (format!("/// the skip of rename\n    #[serde(rename = {})]", lit), Some(rename), false, false),
        // skip in its own attribute, followed by another serde attribute of the same item
        "skip_then_default_attr" => {
            if idx % 2 == 0 {
                ("#[serde(skip)]\n    #[serde(default)]".into(), None, true, false)
            } else {
                ("#[serde(default)]".into(), None, false, false)
            }
        }
        "skip_then_alias_attr" => {
            if idx % 2 == 0 {
                ("#[serde(skip)]\n    #[serde(alias = \"old_name\")]".into(), None, true, false)
            } else {
                ("#[serde(alias = \"old_name\")]".into(), None, false, false)
            }
        }
        // the same string as a raw literal (r#"..."#): escapes are not processed inside one, so the
        // value is the text between the delimiters
        "rename_raw_literal" => {
            if rename.contains("\"#") || rename.contains('\r') {
                (format!("#[serde(rename = {})]", lit), Some(rename), false, false)
            } else {
                (format!("#[serde(rename = r#\"{}\"#)]", rename), Some(rename), false, false)
            }
        }
        _ => unreachable!("form {}", form),
    };
    ItemM { ident: ident.to_string(), form: form.to_string(), rename: ren.map(String::from), skipped, attrs, optional_ty: opt }
}

pub fn render_type(t: &TypeM) -> String {
    let mut s = String::new();
    if t.is_enum {
        s.push_str("#[derive(Debug, Clone, Serialize, Deserialize)]\n");
    } else {
        s.push_str("#[derive(Debug, Clone, Serialize, Deserialize, Validate)]\n");
    }
    s.push_str(&container_attrs(t));
    if t.is_enum {
        s.push_str("#[allow(clippy::upper_case_acronyms)]\n");
        s.push_str(&format!("pub enum {} {{\n", t.name));
        for it in &t.items {
            if !it.attrs.is_empty() {
                s.push_str(&format!("    {}\n", it.attrs));
            }
            s.push_str(&format!("    {},\n", it.ident));
        }
    } else {
        s.push_str(&format!("pub struct {} {{\n", t.name));
        for it in &t.items {
            if !it.attrs.is_empty() {
                s.push_str(&format!("    {}\n", it.attrs));
            }
            // visibility is not serde's business: private and pub(crate) fields are serialised too
            let vis = ["pub ", "pub ", "", "pub(crate) "][(it.ident.len() + t.items.len()) % 4];
            s.push_str(&format!("    {}{}: {},\n", vis, it.ident, if it.optional_ty { "Option<i32>" } else { "i32" }));
        }
    }
    s.push_str("}\n\n");
    s
}

pub fn render_project(types: &[TypeM]) -> String {
    let mut s = String::from(PRELUDE);
    s.push_str("use validator::Validate;\n\n");
    for t in types {
        s.push_str(&render_type(t));
    }
    // one command per type keeps every type reachable and every Params interface small
    for (i, t) in types.iter().enumerate() {
        s.push_str(&format!("#[tauri::command]\npub fn use_{}(v: {}) {{}}\n\n", i, t.name));
    }
    s
}

pub fn expected_names(t: &TypeM) -> Vec<(String, &ItemM)> {
    t.items.iter().filter(|i| !i.skipped).map(|i| (wire_name(&i.ident, t.is_enum, i.rename.as_deref(), t.rule.as_deref()), i)).collect()
}

pub enum ObsNames {
    Names(Vec<String>, String),
    Bad(&'static str, String),
}

pub fn observe_names(types: &tsx::Parsed, t: &TypeM, zod: bool) -> ObsNames {
    if zod {
        let konst = format!("{}Schema", t.name);
        let head = format!("export const {} ", konst);
        return match types.konst(&konst) {
            Some(e) => {
                let src = types.src_of(&konst).unwrap_or_default();
                match zodm::from_expr(e) {
                    Ok(zodm::Z::Object(fields)) if !t.is_enum => ObsNames::Names(fields.into_iter().map(|(k, _)| k).collect(), src),
                    Ok(zodm::Z::Enum(v)) if t.is_enum => ObsNames::Names(v, src),
                    Ok(other) => ObsNames::Bad("wrong_schema_kind", format!("{} ⟸ {}", zodm::kind_name(&other), src)),
                    Err(zodm::ZErr::Unmodelled(m)) => crate::run::infra_exit(&format!("Zod API outside the model: {} in {}", m, src)),
                    Err(e) => ObsNames::Bad("not_a_schema", format!("{} ⟸ {}", e, src)),
                }
            }
            None => match types.error_in_decl(&head) {
                Some((e, text)) => ObsNames::Bad("unparsable", format!("{} ⟸ {}", e.msg, text)),
                None => ObsNames::Bad("missing_decl", format!("no `{}` in types.ts", head)),
            },
        };
    }
    if t.is_enum {
        let head = format!("export type {} ", t.name);
        match types.alias(&t.name) {
            Some(ty) => {
                let src = types.src_of(&t.name).unwrap_or_default();
                let parts: Vec<&Type> = match ty {
                    Type::Union(v) => v.iter().collect(),
                    other => vec![other],
                };
                let mut names = vec![];
                for p in parts {
                    match p {
                        Type::LitStr(s) => names.push(s.clone()),
                        other => return ObsNames::Bad("not_a_literal_union", format!("{:?} ⟸ {}", other, src)),
                    }
                }
                ObsNames::Names(names, src)
            }
            None => match types.error_in_decl(&head) {
                Some((e, text)) => ObsNames::Bad("unparsable", format!("{} ⟸ {}", e.msg, text)),
                None => ObsNames::Bad("missing_decl", format!("no `{}` in types.ts", head)),
            },
        }
    } else {
        let head = format!("export interface {} ", t.name);
        match types.interface(&t.name) {
            Some(i) => {
                let src = types.src_of(&t.name).unwrap_or_default();
                let names = i.members.iter().filter_map(|m| match m {
                    Member::Prop { key, .. } => Some(key.name()),
                    _ => None,
                }).collect();
                ObsNames::Names(names, src)
            }
            None => match types.error_in_decl(&head) {
                Some((e, text)) => ObsNames::Bad("unparsable", format!("{} ⟸ {}", e.msg, text)),
                None => ObsNames::Bad("missing_decl", format!("no `{}` in types.ts", head)),
            },
        }
    }
}

fn item_tags(t: &TypeM, it: &ItemM, mode: &str) -> Vec<String> {
    let mut v = vec![
        format!("kind={}", if t.is_enum { "variant" } else { "field" }),
        format!("rule={}", t.rule.as_deref().unwrap_or("none")),
        format!("form={}", it.form),
        format!("mode={}", mode),
        format!("ident={}", it.ident),
    ];
    if let Some(r) = &it.rename {
        v.push(format!("rename={}", rename_class(r)));
    }
    if it.ident.starts_with("r#") {
        v.push("raw_ident".into());
    }
    if t.container != "plain" {
        v.push(format!("container={}", t.container));
    }
    v
}

pub fn check_project(types: &[TypeM], mode: &str, stats: &mut Stats) -> Vec<Failure> {
    let src = render_project(types);
    must_parse("src/lib.rs", &src);
    let out = generate(&[("src/lib.rs".into(), src.clone())], &Cfg::mode(mode));
    let mut fails = vec![];
    if let Err(e) = &out.result {
        stats.eval();
        fails.push(Failure::new(if out.panic.is_some() { "panic" } else { "tool_error" }).tag(format!("mode={}", mode)).observed(e.clone()).expected("generation succeeds").case(json!({"source": src})));
        return fails;
    }
    let parsed = tsx::parse(out.file("types.ts").unwrap_or(""));
    for t in types {
        let exp = expected_names(t);
        for (_, it) in &exp {
            stats.eval();
            if t.rule.is_some() || it.form != "none" {
                stats.nontrivial(&(&t.rule, t.is_enum, &it.form, &it.ident, &it.rename, mode));
            }
        }
        stats.evals(t.items.iter().filter(|i| i.skipped).count() as u64);
        stats.label(&format!("kind={}", if t.is_enum { "variant" } else { "field" }));
        stats.label(&format!("rule={}", t.rule.as_deref().unwrap_or("none")));
        for it in &t.items {
            stats.label(&format!("form={}", it.form));
        }
        let case = |extra: Value| json!({"mode": mode, "rust": render_type(t), "detail": extra});
        let obs = observe_names(&parsed, t, mode == "zod");
        stats.sample(|| {
            json!({"mode": mode, "rust": render_type(t), "expected": exp.iter().map(|(n, _)| n.clone()).collect::<Vec<_>>(),
                   "observed": match &obs { ObsNames::Names(n, _) => json!(n), ObsNames::Bad(k, d) => json!(format!("{}: {}", k, d)) }})
        });
        match obs {
            ObsNames::Bad(kind, detail) => {
                // attribute a syntax error to the member on whose line it occurred, if we can tell
                let line = detail.split(" in line: ").nth(1).map(|l| l.split(" ⟸ ").next().unwrap_or("").trim().to_string()).unwrap_or_default();
                let culprit = t.items.iter().filter(|it| !it.skipped || kind == "unparsable").find(|it| {
                    let wn = wire_name(&it.ident, t.is_enum, it.rename.as_deref(), t.rule.as_deref());
                    let raw_applied = if t.is_enum { it.ident.clone() } else { it.ident.clone() };
                    !line.is_empty()
                        && it.ident != "keep"
                        && it.ident != "Keep"
                        && (line.starts_with(&wn) || line.starts_with(&format!("\"{}", wn)) || line.contains(&raw_applied) || it.rename.as_deref().map_or(false, |r| !r.is_empty() && line.contains(r.split(['"', '\\']).next().unwrap_or(r))))
                });
                let exp_s = format!("{:?}", exp.iter().map(|(n, _)| n).collect::<Vec<_>>());
                match culprit {
                    Some(it) if t.items.len() <= 2 || kind == "unparsable" => {
                        fails.push(Failure::new(kind).tags(item_tags(t, it, mode)).observed(detail).expected(exp_s).case(case(json!({"item": it.ident}))));
                    }
                    _ => {
                        let mut tags: std::collections::BTreeSet<String> = Default::default();
                        for it in &t.items {
                            for tg in item_tags(t, it, mode) {
                                if !tg.starts_with("ident=") {
                                    tags.insert(tg);
                                }
                            }
                        }
                        fails.push(Failure::new(kind).tags(tags).tag("whole_type").observed(detail).expected(exp_s).case(case(Value::Null)));
                    }
                }
            }
            ObsNames::Names(obs_names, src_text) => {
                let exp_names: Vec<String> = exp.iter().map(|(n, _)| n.clone()).collect();
                if obs_names == exp_names {
                    continue;
                }
                if obs_names.len() == exp_names.len() {
                    for (i, (en, it)) in exp.iter().enumerate() {
                        if &obs_names[i] != en {
                            fails.push(
                                Failure::new("wrong_wire_name").tags(item_tags(t, it, mode)).observed(format!("{:?} ⟸ {}", obs_names[i], src_text)).expected(format!("{:?}", en)).case(case(json!({"item": it.ident}))),
                            );
                        }
                    }
                } else {
                    // align by Rust declaration order: walk both lists
                    let mut remaining: Vec<String> = obs_names.clone();
                    for (en, it) in &exp {
                        if let Some(p) = remaining.iter().position(|x| x == en) {
                            remaining.remove(p);
                        } else {
                            fails.push(Failure::new("missing_item").tags(item_tags(t, it, mode)).observed(format!("{:?} ⟸ {}", obs_names, src_text)).expected(format!("a member named {:?}", en)).case(case(json!({"item": it.ident}))));
                        }
                    }
                    for extra in remaining {
                        // which skipped item does it come from?
                        let origin = t.items.iter().find(|i| i.skipped && (wire_name(&i.ident, t.is_enum, i.rename.as_deref(), t.rule.as_deref()) == extra || i.ident == extra));
                        let mut f = Failure::new("unexpected_item").observed(format!("{:?} ⟸ {}", extra, src_text)).expected(format!("{:?}", exp_names)).case(case(json!({"extra": extra})));
                        f = match origin {
                            Some(it) => f.tags(item_tags(t, it, mode)),
                            None => f.tag(format!("kind={}", if t.is_enum { "variant" } else { "field" })).tag(format!("mode={}", mode)),
                        };
                        fails.push(f);
                    }
                }
            }
        }
    }
    fails
}

/// the full grid: 9 container settings x 2 kinds x attribute forms x 14 identifier shapes
pub fn grid_types(rule: Option<&str>, is_enum: bool) -> Vec<TypeM> {
    let forms: &[&str] = if is_enum { VARIANT_FORMS } else { FIELD_FORMS };
    let idents: &[&str] = if is_enum { VARIANT_IDENTS } else { FIELD_IDENTS };
    // one item per type (plus an inert `keep` member) so that every failure is attributable
    let mut out = vec![];
    for (fi, form) in forms.iter().enumerate() {
        for (i, id) in idents.iter().enumerate() {
            let mut items = vec![make_item(id, form, RENAMES[(i + fi * 5) % RENAMES.len()], if form.starts_with("skip") && *form != "skip_serializing_if" && *form != "skip_default" { 0 } else { 1 })];
            items.push(make_item(if is_enum { "Keep" } else { "keep" }, "none", "", 1));
            out.push(TypeM { name: format!("{}{}x{}", if is_enum { "En" } else { "St" }, fi, i), is_enum, rule: rule.map(String::from), items, container: CONTAINER_FORMS[(fi + i) % CONTAINER_FORMS.len()].to_string() });
        }
    }
    // later addition (appended): variant identifiers with an underscore inside, which serde's
    // variant rules treat differently from its field rules (`Utf_8` is "utf_8" under camelCase)
    if is_enum {
        for (i, id) in ["Utf_8", "X_Custom", "Mixed_Case_Name", "A_b"].iter().enumerate() {
            let items = vec![make_item(id, "none", "", 0), make_item("Keep", "none", "", 1)];
            out.push(TypeM { name: format!("EnLate{}", i), is_enum, rule: rule.map(String::from), items, container: CONTAINER_FORMS[i % CONTAINER_FORMS.len()].to_string() });
        }
    }
    out
}

fn random_rename(t: &mut Tape) -> String {
    if t.chance(1, 2) {
        return t.choose(RENAMES).to_string();
    }
    const ALPHA: &[&str] = &["a", "B", "z", "_", "-", " ", ".", "9", "\"", "\\", "'", "é", "日", "😀", "skip", "rename", "$", "/", ":", "\t", "{", "}", ","];
    let n = t.range(1, 6);
    (0..n).map(|_| *t.choose(ALPHA)).collect()
}

fn random_types(t: &mut Tape) -> (Vec<TypeM>, &'static str) {
    let mode = if t.bool() { "zod" } else { "none" };
    let n_types = t.range(1, 3);
    let mut types = vec![];
    for ti in 0..n_types {
        let is_enum = t.bool();
        let rule = if t.chance(1, 4) { None } else { Some(t.choose(RULES).to_string()) };
        let n_items = t.range(1, 6);
        let forms: &[&str] = if is_enum { VARIANT_FORMS } else { FIELD_FORMS };
        let mut items: Vec<ItemM> = vec![];
        for i in 0..n_items {
            let ident = loop {
                let cand = if is_enum { names::random_pascal(t) } else { names::random_snake(t) };
                let cand = if is_enum && !names::is_rust_ident(&cand) { format!("V{}", i) } else { cand };
                if !items.iter().any(|x: &ItemM| x.ident == cand) {
                    break cand;
                }
                if t.consumed() > 400 {
                    break format!("{}{}", if is_enum { "Var" } else { "fld" }, i);
                }
            };
            let form = *t.choose(forms);
            let ren = random_rename(t);
            items.push(make_item(&ident, form, &ren, i));
        }
        // wire names inside one type must be distinct (serde itself rejects duplicates for structs)
        let container = if t.chance(1, 2) { "plain".to_string() } else { t.choose(CONTAINER_FORMS).to_string() };
        let t0 = TypeM { name: format!("{}{}", if is_enum { "En" } else { "St" }, ti), is_enum, rule, items, container };
        let mut seen = std::collections::HashSet::new();
        let mut dedup = t0.clone();
        dedup.items.retain(|i| seen.insert(wire_name(&i.ident, is_enum, i.rename.as_deref(), t0.rule.as_deref())));
        if dedup.items.iter().all(|i| i.skipped) {
            dedup.items.push(make_item(if is_enum { "Keep" } else { "keep" }, "none", "", 1));
        }
        types.push(dedup);
    }
    (types, mode)
}

pub fn run(ctx: &Ctx) {
    let validated = serde_names::validate();
    ctx.note("oracle_fixtures_validated", json!(validated));
    ctx.set_rule("full grid: container rename_all in {none + 8 rules} x {struct field, enum variant} x item-level attribute forms (17 for fields, 8 for variants incl. skip alone and skip followed by another attribute, one of them the rename as a raw string literal) x 14 identifier shapes x both modes, field visibility rotating over pub / private / pub(crate), the container attributes written in 7 rotating spellings (rename_all alone / before or after another key / in its own attribute before or after another one / beside a container-level rename / under a doc comment naming another rule), renames drawn from a pool of 20 strings; plus random types with random identifiers and random rename strings. evaluation = one item (field/variant) whose wire name is compared; non-trivial = container rule present or item-level attribute present; distinct by (rule, kind, form, identifier, rename, mode)");
    ctx.set_exhaustive(false);
    ctx.assume("expected names come from a port of serde_derive's case rules, validated at start-up against types compiled with the real serde_derive");
    ctx.assume("default_field_case stays at its default (snake_case = identity)");
    let mut keys: Vec<(Option<&str>, bool, &str)> = vec![];
    for rule in std::iter::once(None).chain(RULES.iter().map(|r| Some(*r))) {
        for is_enum in [false, true] {
            for mode in ["none", "zod"] {
                keys.push((rule, is_enum, mode));
            }
        }
    }
    ctx.enumerate("c06.grid", &keys, |(r, e, m)| json!({"rule": r, "is_enum": e, "mode": m}), |(r, e, m), stats| check_project(&grid_types(*r, *e), m, stats));
    let cases = ctx.tier.pick(1000, 400000);
    ctx.search("c06.random", cases, 160, |tape, stats| {
        let (types, mode) = random_types(tape);
        check_project(&types, mode, stats)
    });
}

pub fn replay(check: &str, input: &Value, stats: &mut Stats) -> Option<Vec<Failure>> {
    match check {
        "c06.grid" => {
            let rule = input["rule"].as_str();
            Some(check_project(&grid_types(rule, input["is_enum"].as_bool()?), input["mode"].as_str()?, stats))
        }
        "c06.random" => {
            let mut tape = Tape::new(super::tape_of(input));
            let (types, mode) = random_types(&mut tape);
            Some(check_project(&types, mode, stats))
        }
        _ => None,
    }
}
