//! One module per property. Each exposes `run(&Ctx)` and `replay(check, input, stats)`.

use crate::run::{Ctx, Failure, Stats};
use serde_json::Value;

pub mod c01;
pub mod c02;
pub mod c03;
pub mod c04;
pub mod c05;
pub mod c06;
pub mod c07;
pub mod c08;
pub mod c09;
pub mod c10;
pub mod c11;
pub mod c12;
pub mod c13;
pub mod c14;
pub mod c15;
pub mod c16;
pub mod c17;
pub mod c18;
pub mod c19;
pub mod c20;

pub struct PropDef {
    pub id: &'static str,
    pub level: &'static str,
    pub run: fn(&Ctx),
    pub replay: fn(&str, &Value, &mut Stats) -> Option<Vec<Failure>>,
}

pub fn all() -> Vec<PropDef> {
    vec![
        PropDef { id: "C01", level: "exploration", run: c01::run, replay: c01::replay },
        PropDef { id: "C02", level: "exploration", run: c02::run, replay: c02::replay },
        PropDef { id: "C03", level: "exploration", run: c03::run, replay: c03::replay },
        PropDef { id: "C04", level: "exploration", run: c04::run, replay: c04::replay },
        PropDef { id: "C05", level: "exploration", run: c05::run, replay: c05::replay },
        PropDef { id: "C06", level: "exploration", run: c06::run, replay: c06::replay },
        PropDef { id: "C07", level: "exploration", run: c07::run, replay: c07::replay },
        PropDef { id: "C08", level: "exploration", run: c08::run, replay: c08::replay },
        PropDef { id: "C09", level: "exploration", run: c09::run, replay: c09::replay },
        PropDef { id: "C10", level: "exploration", run: c10::run, replay: c10::replay },
        PropDef { id: "C11", level: "exploration", run: c11::run, replay: c11::replay },
        PropDef { id: "C12", level: "exploration", run: c12::run, replay: c12::replay },
        PropDef { id: "C13", level: "exploration", run: c13::run, replay: c13::replay },
        PropDef { id: "C14", level: "exploration", run: c14::run, replay: c14::replay },
        PropDef { id: "C15", level: "exploration", run: c15::run, replay: c15::replay },
        PropDef { id: "C16", level: "exploration", run: c16::run, replay: c16::replay },
        PropDef { id: "C17", level: "fault_enumeration", run: c17::run, replay: c17::replay },
        PropDef { id: "C18", level: "exploration", run: c18::run, replay: c18::replay },
        PropDef { id: "C19", level: "exploration", run: c19::run, replay: c19::replay },
        PropDef { id: "C20", level: "exploration", run: c20::run, replay: c20::replay },
    ]
}

pub fn tape_of(input: &Value) -> Vec<u32> {
    input["tape"].as_array().map(|a| a.iter().filter_map(|x| x.as_u64().map(|v| v as u32)).collect()).unwrap_or_default()
}
