//! One module per property. Each exposes `run(&Ctx)` and `replay(check, input, stats)`.

use crate::run::{Ctx, Failure, Stats};
use serde_json::Value;

pub mod c05;
pub mod c06;
pub mod c20;

pub struct PropDef {
    pub id: &'static str,
    pub level: &'static str,
    pub run: fn(&Ctx),
    pub replay: fn(&str, &Value, &mut Stats) -> Option<Vec<Failure>>,
}

pub fn all() -> Vec<PropDef> {
    vec![
        PropDef { id: "C05", level: "exploration", run: c05::run, replay: c05::replay },
        PropDef { id: "C06", level: "exploration", run: c06::run, replay: c06::replay },
        PropDef { id: "C20", level: "exploration", run: c20::run, replay: c20::replay },
    ]
}

pub fn tape_of(input: &Value) -> Vec<u32> {
    input["tape"].as_array().map(|a| a.iter().filter_map(|x| x.as_u64().map(|v| v as u32)).collect()).unwrap_or_default()
}
