//! C17 — a failed run is never remembered as up to date (level: fault_enumeration).
//!
//! Faults are injected through the file system around the unmodified binary (the harness runs as
//! root, permission bits are useless): for each file of the write sequence a directory at that
//! path (EISDIR), a symlink to /dev/full (ENOSPC; never for `.typecache`, which is also read), a
//! dangling symlink into a missing directory (ENOENT); plus unusable output paths (a regular
//! file at the output path, the output path below a regular file).
//!
//! Scenario (one per grid cell):
//!   [clean run, cache-visible edit]  ->  obstacle placed  ->  FAULTY non-forced run
//!   ->  obstacle removed [-> edit reverted]  ->  RECOVERY non-forced run
//!   ->  reference = fresh `--force` generation of the current sources into an empty directory.
//!
//! Two checks: `c17.grid` is the grid of the property's quantifier (fault x first run / run after a
//! cache-visible edit x path x mode). `c17.grid_revert` is an extension over histories: the edit
//! is taken back together with the obstacle, so the *previous* cache record matches the sources
//! again; it asks whether a failed run that overwrote part of the bindings left a record behind
//! that still vouches for them. It is a separate check id so that it can be triaged (or dropped)
//! on its own.
//!
//! Oracle: the faulty run exits non-zero (a failed `.typecache` write is only a warning: exit 0
//! is allowed then, but all bindings must be current); the recovery run exits 0 and leaves the
//! output directory equal (declaration maps of every file) to the reference; whenever a
//! non-forced run answers "up to date" the files must be current.

use crate::run::{infra_exit, Ctx, Failure, Stats};
use crate::sandbox::{self, Change};
use crate::tool;
use serde_json::{json, Value};
use std::collections::BTreeMap;
use std::path::{Path, PathBuf};

const TARGETS: &[&str] = &["types.ts", "commands.ts", "events.ts", "index.ts", "dependency-graph.txt", "dependency-graph.dot", ".typecache"];

#[derive(Clone, Debug, PartialEq, Eq, Hash)]
pub struct Key {
    /// eisdir | devfull | dangling | out_is_file | below_file
    pub fault: String,
    /// file of the write sequence, or "-" for unusable output paths
    pub target: String,
    /// first | after_add_command | after_add_field
    pub phase: String,
    /// the edit is taken back together with the obstacle (separate check `c17.grid_revert`)
    pub revert: bool,
    /// cli | buildrs
    pub path: String,
    /// none | zod
    pub mode: String,
    pub viz: bool,
    /// base | extra
    pub project: String,
    /// rel | abs  (spelling of the output path)
    pub out_form: String,
    /// the faulty run is made with --force (CLI path only)
    pub forced_fault: bool,
}

impl Key {
    pub fn to_json(&self) -> Value {
        json!({"fault": self.fault, "target": self.target, "phase": self.phase, "revert": self.revert, "path": self.path, "mode": self.mode, "viz": self.viz, "project": self.project, "out_form": self.out_form, "forced_fault": self.forced_fault})
    }
    pub fn from_json(v: &Value) -> Option<Key> {
        Some(Key {
            fault: v["fault"].as_str()?.to_string(),
            target: v["target"].as_str()?.to_string(),
            phase: v["phase"].as_str()?.to_string(),
            revert: v["revert"].as_bool().unwrap_or(false),
            path: v["path"].as_str()?.to_string(),
            mode: v["mode"].as_str()?.to_string(),
            viz: v["viz"].as_bool()?,
            project: v["project"].as_str().unwrap_or("base").to_string(),
            out_form: v["out_form"].as_str().unwrap_or("rel").to_string(),
            forced_fault: v["forced_fault"].as_bool().unwrap_or(false),
        })
    }
    fn phase_tag(&self) -> String {
        if self.revert {
            format!("{}_reverted", self.phase)
        } else {
            self.phase.clone()
        }
    }
    fn tags(&self) -> Vec<String> {
        vec![
            format!("fault={}", self.fault),
            format!("target={}", self.target),
            format!("phase={}", self.phase_tag()),
            format!("path={}", self.path),
            format!("mode={}", self.mode),
            format!("viz={}", self.viz),
            format!("project={}", self.project),
            format!("out_form={}", self.out_form),
            format!("faulty_run={}", if self.forced_fault { "forced" } else { "non_forced" }),
        ]
    }
}

/// the fault grid, simplest cells first
pub fn grid(revert: bool, projects: &[&str], out_forms: &[&str]) -> Vec<Key> {
    let mut faults: Vec<(String, String, Vec<bool>)> = vec![];
    for t in TARGETS {
        let vizs: Vec<bool> = if t.starts_with("dependency-graph") { vec![true] } else { vec![false, true] };
        faults.push(("eisdir".into(), t.to_string(), vizs.clone()));
        if *t != ".typecache" {
            // NEVER /dev/full for .typecache: it is also read and would never reach EOF
            faults.push(("devfull".into(), t.to_string(), vizs.clone()));
        }
        faults.push(("dangling".into(), t.to_string(), vizs));
    }
    faults.push(("out_is_file".into(), "-".into(), vec![false, true]));
    faults.push(("below_file".into(), "-".into(), vec![false, true]));
    let phases: &[&str] = if revert { &["after_add_command", "after_add_field"] } else { &["first", "after_add_command", "after_add_field"] };
    let mut keys = vec![];
    for project in projects {
        for out_form in out_forms {
            for phase in phases {
                for path in ["cli", "buildrs"] {
                    for mode in ["none", "zod"] {
                        for (fault, target, vizs) in &faults {
                            for viz in vizs {
                                keys.push(Key {
                                    fault: fault.clone(),
                                    target: target.clone(),
                                    phase: phase.to_string(),
                                    revert,
                                    path: path.to_string(),
                                    mode: mode.to_string(),
                                    viz: *viz,
                                    project: project.to_string(),
                                    out_form: out_form.to_string(),
                                    forced_fault: false,
                                });
                                // a forced run that fails part-way must not leave the old record
                                // behind either (CLI path, after an edit)
                                if revert && path == "cli" {
                                    let mut k = keys.last().unwrap().clone();
                                    k.forced_fault = true;
                                    keys.push(k);
                                }
                            }
                        }
                    }
                }
            }
        }
    }
    keys
}

// ------------------------------------------------------------------------------------------

struct Sb {
    root: PathBuf,
    src_tauri: PathBuf,
    out: PathBuf,
    /// output path as spelled in the configuration / on the command line
    out_spelled: String,
}

fn must<T, E: std::fmt::Display>(r: Result<T, E>, what: &str) -> T {
    r.unwrap_or_else(|e| infra_exit(&format!("c17 sandbox: {}: {}", what, e)))
}

fn project_files(project: &str) -> Vec<(String, String)> {
    let mut f = sandbox::base_project();
    if project == "extra" {
        f.push(("src/extra.rs".to_string(), "use serde::Serialize;\n\n#[derive(Serialize)]\npub struct Stats {\n    pub users: u64,\n}\n\n#[tauri::command]\npub async fn stats(active_only: bool) -> Result<Stats, String> {\n    todo!()\n}\n".to_string()));
    }
    f
}

/// both edits change what the cache hashes (commands / struct fields) and what is generated
fn apply_edit(phase: &str, files: &mut Vec<(String, String)>) {
    match phase {
        "after_add_command" => {
            let lib = files.iter_mut().find(|(n, _)| n == "src/lib.rs").unwrap();
            lib.1.push_str("\n#[tauri::command]\npub fn extra_cmd(flag: bool, user: User) -> i32 {\n    0\n}\n");
        }
        "after_add_field" => {
            let m = files.iter_mut().find(|(n, _)| n == "src/models.rs").unwrap();
            m.1 = m.1.replace("    pub tags: Vec<String>,\n", "    pub tags: Vec<String>,\n    pub email: Option<String>,\n");
            assert!(m.1.contains("pub email"), "harness: edit did not apply");
        }
        _ => {}
    }
}

fn build(key: &Key) -> Sb {
    let root = tool::fresh_dir("c17_");
    let src_tauri = root.join("src-tauri");
    must(std::fs::create_dir_all(&src_tauri), "mkdir src-tauri");
    tool::write_project(&src_tauri, &project_files(&key.project));
    let out = root.join("src").join("generated");
    let out_spelled = if key.out_form == "abs" { out.display().to_string() } else { "../src/generated".to_string() };
    let conf = json!({
        "productName": "app",
        "plugins": { "typegen": { "projectPath": ".", "outputPath": out_spelled, "validationLibrary": key.mode, "visualizeDeps": key.viz, "force": false } }
    });
    must(std::fs::write(src_tauri.join("tauri.conf.json"), serde_json::to_string_pretty(&conf).unwrap()), "write tauri.conf.json");
    Sb { root, src_tauri, out, out_spelled }
}

fn cli_args(key: &Key, out: &str, force: bool) -> Vec<String> {
    let mut a: Vec<String> = vec!["generate".into(), "-p".into(), ".".into(), "-o".into(), out.to_string(), "-v".into(), key.mode.clone()];
    if key.viz {
        a.push("--visualize-deps".into());
    }
    if force {
        a.push("--force".into());
    }
    a
}

fn command_line(key: &Key, sb: &Sb) -> String {
    if key.path == "cli" {
        format!("(cwd <SANDBOX>/src-tauri) cargo-tauri-typegen tauri-typegen {}", cli_args(key, &sb.out_spelled, false).join(" ").replace(&sb.root.display().to_string(), "<SANDBOX>"))
    } else {
        format!(
            "(cwd <SANDBOX>/src-tauri) buildrs_driver = BuildSystem::generate_at_build_time(), tauri.conf.json plugins.typegen = {{projectPath: \".\", outputPath: {:?}, validationLibrary: {:?}, visualizeDeps: {}, force: false}}",
            sb.out_spelled.replace(&sb.root.display().to_string(), "<SANDBOX>"),
            key.mode,
            key.viz
        )
    }
}

struct RunObs {
    out: tool::ProcOut,
    /// generated files (direct children of the output dir) created / rewritten by this run
    written: Vec<String>,
    /// the run answered "up to date" (CLI: says so on stdout; build path: exit 0 and no file written)
    skipped: bool,
}

/// one non-forced run through the path under test
fn run_tool(key: &Key, sb: &Sb) -> RunObs {
    run_tool_with(key, sb, false)
}

fn run_tool_with(key: &Key, sb: &Sb, force: bool) -> RunObs {
    let before = if sb.out.is_dir() { sandbox::snapshot(&sb.out) } else { Default::default() };
    let out = if key.path == "cli" {
        let args = cli_args(key, &sb.out_spelled, force);
        let argv: Vec<&str> = args.iter().map(|s| s.as_str()).collect();
        tool::run_cli(&argv, &sb.src_tauri)
    } else {
        tool::run_buildrs(&sb.src_tauri)
    };
    let after = if sb.out.is_dir() { sandbox::snapshot(&sb.out) } else { Default::default() };
    let written: Vec<String> = sandbox::diff(&before, &after)
        .into_iter()
        .filter_map(|c| match c {
            Change::Created(p) | Change::Modified(p) | Change::Touched(p) if !p.contains('/') => Some(p),
            _ => None,
        })
        .collect();
    let skipped = if key.path == "cli" { out.ok() && out.stdout.contains("up to date") } else { out.ok() && written.is_empty() };
    RunObs { out, written, skipped }
}

/// fresh forced generation of the sandbox's current sources into an empty directory
fn reference(key: &Key, sb: &Sb) -> BTreeMap<String, String> {
    let dir = sb.root.join("reference-out");
    let _ = std::fs::remove_dir_all(&dir);
    let args = cli_args(key, &dir.display().to_string(), true);
    let argv: Vec<&str> = args.iter().map(|s| s.as_str()).collect();
    let r = tool::run_cli(&argv, &sb.src_tauri);
    if !r.ok() {
        infra_exit(&format!("c17: reference generation (forced, empty directory, no obstacle) failed: exit {:?}, stderr {}", r.status, crate::run::truncate(&r.stderr, 300)));
    }
    let files = sandbox::read_tree_text(&dir);
    let _ = std::fs::remove_dir_all(&dir);
    if !files.contains_key("types.ts") || !files.contains_key("commands.ts") || !files.contains_key("index.ts") {
        infra_exit("c17: reference generation produced no bindings");
    }
    files
}

fn place_obstacle(key: &Key, sb: &Sb) {
    let src = sb.root.join("src");
    match key.fault.as_str() {
        "eisdir" | "devfull" | "dangling" => {
            must(std::fs::create_dir_all(&sb.out), "mkdir output dir");
            let t = sb.out.join(&key.target);
            if std::fs::symlink_metadata(&t).is_ok() {
                must(std::fs::remove_file(&t), "remove the generated file that the obstacle replaces");
            }
            match key.fault.as_str() {
                "eisdir" => must(std::fs::create_dir(&t), "mkdir obstacle"),
                "devfull" => {
                    if key.target == ".typecache" {
                        infra_exit("c17: /dev/full must never be used for .typecache");
                    }
                    must(std::os::unix::fs::symlink("/dev/full", &t), "symlink to /dev/full")
                }
                _ => must(std::os::unix::fs::symlink(format!("no-such-dir/{}", key.target), &t), "dangling symlink"),
            }
        }
        "out_is_file" => {
            if sb.out.is_dir() {
                must(std::fs::rename(&sb.out, src.join("generated.aside")), "move output dir aside");
            }
            must(std::fs::create_dir_all(&src), "mkdir src");
            must(std::fs::write(&sb.out, "a regular file where the output directory should be\n"), "write blocking file");
        }
        "below_file" => {
            if src.is_dir() {
                must(std::fs::rename(&src, sb.root.join("src.aside")), "move src aside");
            }
            must(std::fs::write(&src, "a regular file where a parent of the output directory should be\n"), "write blocking file");
        }
        other => infra_exit(&format!("c17: unknown fault {}", other)),
    }
}

fn remove_obstacle(key: &Key, sb: &Sb) {
    let src = sb.root.join("src");
    match key.fault.as_str() {
        "eisdir" => {
            let _ = std::fs::remove_dir_all(sb.out.join(&key.target));
        }
        "devfull" | "dangling" => {
            let t = sb.out.join(&key.target);
            // only remove what is still our symlink; a regular file there would be the tool's
            if std::fs::symlink_metadata(&t).map(|m| m.file_type().is_symlink()).unwrap_or(false) {
                let _ = std::fs::remove_file(&t);
            }
        }
        "out_is_file" => {
            if sb.out.is_file() {
                must(std::fs::remove_file(&sb.out), "remove blocking file");
            }
            let aside = src.join("generated.aside");
            if aside.is_dir() && !sb.out.exists() {
                must(std::fs::rename(&aside, &sb.out), "move output dir back");
            }
        }
        "below_file" => {
            if src.is_file() {
                must(std::fs::remove_file(&src), "remove blocking file");
            }
            let aside = sb.root.join("src.aside");
            if aside.is_dir() && !src.exists() {
                must(std::fs::rename(&aside, &src), "move src back");
            }
        }
        _ => {}
    }
}

fn listing(dir: &Path) -> Vec<String> {
    let mut v: Vec<String> = sandbox::snapshot(dir).into_iter().map(|(p, e)| format!("{} [{}]", p, match e {
        sandbox::Entry::Dir => "dir".to_string(),
        sandbox::Entry::File { len, .. } => format!("file {}b", len),
        sandbox::Entry::Symlink(t) => format!("symlink -> {}", t),
        sandbox::Entry::Other => "special".to_string(),
    })).collect();
    v.sort();
    v
}

fn proc_json(o: &tool::ProcOut, root: &Path) -> Value {
    let r = root.display().to_string();
    json!({"exit": o.status, "signal": o.signal, "stdout": crate::run::truncate(&o.stdout.replace(&r, "<SANDBOX>"), 500), "stderr": crate::run::truncate(&o.stderr.replace(&r, "<SANDBOX>"), 500)})
}

pub fn eval_key(key: &Key, stats: &mut Stats) -> Vec<Failure> {
    stats.eval();
    let sb = build(key);
    let mut fails: Vec<Failure> = vec![];
    let mut steps: Vec<Value> = vec![];
    let original = project_files(&key.project);
    let mut current = original.clone();
    let cmd = command_line(key, &sb);

    // ---- optional prefix: clean run, then a cache-visible edit
    if key.phase != "first" {
        let r0 = run_tool(key, &sb);
        if !r0.out.ok() || r0.skipped || !sb.out.join(".typecache").is_file() {
            infra_exit(&format!("c17: the clean initial run of the scenario did not generate (exit {:?}, stderr {}); cannot set up the fault", r0.out.status, crate::run::truncate(&r0.out.stderr, 300)));
        }
        steps.push(json!({"step": "clean run", "command": cmd, "result": proc_json(&r0.out, &sb.root), "written": r0.written}));
        apply_edit(&key.phase, &mut current);
        tool::write_project(&sb.src_tauri, &current);
        steps.push(json!({"step": "edit", "edit": key.phase}));
    }

    // ---- the faulty run
    // In the revert grid the obstacle is transient: the file it shadows comes back with its old
    // bytes afterwards, so that whatever is stale later was made stale by the tool's own partial
    // writes and not by the harness removing a file. (`.typecache` is never brought back: a cache
    // record reappearing after the tool failed to replace it would be the harness's doing.)
    let shadowed: Option<Vec<u8>> = if key.revert && key.target != "-" && key.target != ".typecache" {
        let t = sb.out.join(&key.target);
        if std::fs::symlink_metadata(&t).map(|m| m.file_type().is_file()).unwrap_or(false) { std::fs::read(&t).ok() } else { None }
    } else {
        None
    };
    place_obstacle(key, &sb);
    steps.push(json!({"step": "obstacle placed", "fault": key.fault, "target": key.target, "output_dir_listing": listing(&sb.root.join("src"))}));
    let cache_path = sb.out.join(".typecache");
    let cache_before: Option<Vec<u8>> = if std::fs::symlink_metadata(&cache_path).map(|m| m.file_type().is_file()).unwrap_or(false) { std::fs::read(&cache_path).ok() } else { None };
    let faulty = run_tool_with(key, &sb, key.forced_fault);
    let cache_after_fault = sb.out.join(".typecache").is_file();
    let cache_after: Option<Vec<u8>> = if std::fs::symlink_metadata(&cache_path).map(|m| m.file_type().is_file()).unwrap_or(false) { std::fs::read(&cache_path).ok() } else { None };
    let past_first_write = faulty.written.iter().any(|w| w == "types.ts");
    steps.push(json!({"step": "faulty run (non-forced)", "command": cmd, "result": proc_json(&faulty.out, &sb.root), "written": faulty.written, "answered_up_to_date": faulty.skipped, "typecache_file_present_afterwards": cache_after_fault, "output_dir_listing": listing(&sb.root.join("src"))}));
    if past_first_write {
        stats.nontrivial(key);
    }
    stats.label(&format!("fault:{}", key.fault));
    stats.label(&format!("target:{}", key.target));
    stats.label(&format!("phase:{}", key.phase_tag()));
    stats.label(&format!("path:{}", key.path));
    stats.label(if past_first_write { "faulty_run:got_past_first_write" } else { "faulty_run:failed_at_or_before_first_write" });
    stats.label(if cache_after_fault { "after_fault:typecache_present" } else { "after_fault:no_typecache" });
    let faulty_failed = !faulty.out.ok();
    stats.label(if faulty_failed {
        "faulty_run:exit_nonzero"
    } else if faulty.skipped {
        "faulty_run:answered_up_to_date"
    } else if key.target == ".typecache" {
        "faulty_run:exit0_cache_write_warning"
    } else {
        "faulty_run:exit0"
    });

    // ---- obstacle removed (optionally the edit is taken back as well)
    remove_obstacle(key, &sb);
    // judged against the sources as they were during the faulty run
    let ref_during_fault = reference(key, &sb);
    let files_after_fault = sandbox::read_tree_text(&sb.out);
    let mk = |kind: &str, observed: String, expected: String, steps: &Vec<Value>| {
        Failure::new(kind).tags(key.tags()).observed(observed).expected(expected).case(json!({
            "key": key.to_json(),
            "layout": "<SANDBOX>/src-tauri/{tauri.conf.json, src/lib.rs, src/models.rs[, src/extra.rs]} (sandbox::base_project), output directory <SANDBOX>/src/generated, all runs with cwd <SANDBOX>/src-tauri",
            "obstacle": match key.fault.as_str() {
                "eisdir" => format!("mkdir <out>/{}", key.target),
                "devfull" => format!("ln -s /dev/full <out>/{}", key.target),
                "dangling" => format!("ln -s no-such-dir/{} <out>/{}", key.target, key.target),
                "out_is_file" => "a regular file at <SANDBOX>/src/generated (an existing output directory is moved aside and moved back afterwards)".to_string(),
                _ => "a regular file at <SANDBOX>/src (an existing directory is moved aside and moved back afterwards)".to_string(),
            },
            "steps": steps,
        }))
    };
    if faulty_failed && key.target != ".typecache" {
        // "does not record the run as current" / "at no point is the cache record newer than the
        // files it vouches for": a run that fails must not write a cache record, and must not keep
        // one once it has started rewriting files
        if cache_after.is_some() && cache_after != cache_before {
            fails.push(mk(
                "cache_written_by_failed_run",
                format!("the run exited {:?} but wrote a new .typecache ({} bytes)", faulty.out.status, cache_after.as_ref().map_or(0, |c| c.len())),
                "a run that fails part-way does not record itself as current".into(),
                &steps,
            ).tag("step=faulty"));
        } else if cache_after.is_some() && past_first_write {
            fails.push(mk(
                "old_cache_kept_over_rewritten_files",
                "the run rewrote types.ts, then failed, and the previous .typecache is still in place".into(),
                "at no point is the cache record newer or older than the files it vouches for: the record is dropped once files are rewritten".into(),
                &steps,
            ).tag("step=faulty"));
        }
    }
    if !faulty_failed {
        if faulty.skipped {
            // the run never attempted the write; only the invariant applies
            let d = sandbox::compare_generated(&ref_during_fault, &files_after_fault);
            if !d.is_empty() {
                fails.push(mk(
                    "up_to_date_but_stale",
                    format!("the non-forced run answered \"up to date\" (exit 0, nothing written) although the output differs from a fresh generation: {}", d.iter().take(4).cloned().collect::<Vec<_>>().join("; ")),
                    "a run that answers \"up to date\" vouches for current files".into(),
                    &steps,
                ).tag("step=faulty"));
            }
        } else if key.target == ".typecache" {
            // allowed: the failed cache write is only a warning — then every binding must be current
            let d = sandbox::compare_generated(&ref_during_fault, &files_after_fault);
            if !d.is_empty() {
                fails.push(mk(
                    "bindings_stale_after_cache_warning",
                    format!("exit 0 with an unwritable .typecache, but the bindings differ from a fresh generation: {}", d.iter().take(4).cloned().collect::<Vec<_>>().join("; ")),
                    "when only the cache write fails (warning), all bindings are current".into(),
                    &steps,
                ));
            }
        } else {
            fails.push(mk(
                "failure_not_reported",
                format!("exit 0 although {} could not be written; stdout: {} | stderr: {}", if key.target == "-" { "the output directory".to_string() } else { key.target.clone() }, crate::run::truncate(faulty.out.stdout.trim(), 160), crate::run::truncate(faulty.out.stderr.trim(), 160)),
                "a run whose write fails reports failure (non-zero exit)".into(),
                &steps,
            ));
        }
    }

    if key.revert {
        current = original.clone();
        tool::write_project(&sb.src_tauri, &current);
        let mut restored = false;
        if let Some(bytes) = &shadowed {
            let t = sb.out.join(&key.target);
            if std::fs::symlink_metadata(&t).is_err() {
                must(std::fs::write(&t, bytes), "restore the shadowed file");
                restored = true;
            }
        }
        steps.push(json!({"step": "obstacle removed, edit reverted", "file_shadowed_by_the_obstacle_restored_with_its_old_bytes": restored}));
    } else {
        steps.push(json!({"step": "obstacle removed"}));
    }

    // ---- recovery: a non-forced run must bring the directory to the state of a fresh generation
    let rec = run_tool(key, &sb);
    steps.push(json!({"step": "recovery run (non-forced)", "command": cmd, "result": proc_json(&rec.out, &sb.root), "written": rec.written, "answered_up_to_date": rec.skipped, "output_dir_listing": listing(&sb.root.join("src"))}));
    stats.label(if !rec.out.ok() { "recovery:failed" } else if rec.skipped { "recovery:answered_up_to_date" } else { "recovery:regenerated" });
    let reference_now = if key.revert { reference(key, &sb) } else { ref_during_fault };
    let files_now = sandbox::read_tree_text(&sb.out);
    if !rec.out.ok() {
        fails.push(mk(
            "recovery_failed",
            format!("the recovery run exited {:?}: {}", rec.out.status, crate::run::truncate(rec.out.stderr.trim(), 240)),
            "once the obstacle is removed the next non-forced run succeeds".into(),
            &steps,
        ));
    } else {
        let d = sandbox::compare_generated(&reference_now, &files_now);
        if !d.is_empty() {
            let shown = d.iter().take(4).cloned().collect::<Vec<_>>().join("; ");
            if rec.skipped {
                let kind = if faulty_failed { "stale_cache_after_failure" } else { "up_to_date_but_stale" };
                fails.push(mk(
                    kind,
                    format!("after the {} run the next non-forced run answered \"up to date\" and regenerated nothing, but the output differs from a fresh generation: {}", if faulty_failed { "failed" } else { "faulty" }, shown),
                    "a failed run is not recorded as current: the next non-forced run regenerates and ends in the state of a fresh generation".into(),
                    &steps,
                ).tag("step=recovery"));
            } else {
                fails.push(mk(
                    "recovery_differs",
                    format!("the recovery run regenerated (wrote {:?}) but the output differs from a fresh generation: {}", rec.written, shown),
                    "the recovery run ends in the same state as a fresh forced generation into an empty directory".into(),
                    &steps,
                ));
            }
        }
    }
    stats.sample(|| json!({"key": key.to_json(), "steps": steps, "failures": fails.len()}));
    let _ = std::fs::remove_dir_all(&sb.root);
    fails
}

pub fn run(ctx: &Ctx) {
    if !Path::new("/dev/full").exists() {
        infra_exit("c17: /dev/full does not exist; the ENOSPC obstacle cannot be built");
    }
    let projects: &[&str] = ctx.tier.pick(&["base"][..], &["base", "extra"][..]);
    let forms: &[&str] = ctx.tier.pick(&["rel"][..], &["rel", "abs"][..]);
    let main = grid(false, projects, forms);
    let rev = grid(true, projects, forms);
    ctx.set_rule(&format!(
        "exhaustive fault grid: 7 files of the write sequence (types.ts, commands.ts, events.ts, index.ts, dependency-graph.txt, dependency-graph.dot, .typecache) x obstacle (directory at the path = EISDIR; symlink to /dev/full = ENOSPC, not for .typecache; dangling symlink = ENOENT) x --visualize-deps off/on (on only, for the dependency-graph files), plus two unusable output paths (regular file at the output path; output path below a regular file) x phase (first run; run after adding a command; run after adding a struct field) x path (real CLI binary; build-script path BuildSystem::generate_at_build_time) x mode (none, zod) x project {:?} x output path spelling {:?} = {} scenarios (check c17.grid); the same grid with the edit taken back together with the obstacle = {} scenarios (check c17.grid_revert). Each scenario = [clean run, edit,] obstacle, faulty non-forced run, obstacle removed, non-forced recovery run, compared with a fresh --force generation into an empty directory. evaluations = scenarios; non-trivial = the faulty run got past the first write (types.ts was rewritten before the fault hit)",
        projects,
        forms,
        main.len(),
        rev.len()
    ));
    ctx.set_exhaustive(true);
    ctx.assume("write failures are modelled as whole-file file-system obstacles (EISDIR, ENOSPC via /dev/full, ENOENT via a dangling symlink, ENOTDIR/EEXIST for the output path); short writes and crashes between bytes are not covered");
    ctx.assume("on the build-script path a run counts as having answered \"up to date\" iff it exits 0 and no file directly inside the output directory was created or rewritten (mtime/inode/content)");
    ctx.assume("the reference state is a forced CLI generation of the same sources and flags into an empty directory; directories are compared by declaration maps of every .ts file and presence of the dependency-graph files (the header timestamp and .typecache are not compared)");
    ctx.enumerate("c17.grid", &main, |k| k.to_json(), |k, stats| eval_key(k, stats));
    ctx.enumerate("c17.grid_revert", &rev, |k| k.to_json(), |k, stats| eval_key(k, stats));
}

pub fn replay(check: &str, input: &Value, stats: &mut Stats) -> Option<Vec<Failure>> {
    match check {
        "c17.grid" | "c17.grid_revert" => {
            let key = Key::from_json(input)?;
            Some(eval_key(&key, stats))
        }
        _ => None,
    }
}
