//! C10 — Zod schemas describe the same structure as the plain TypeScript declarations.
//!
//! Oracle 1 (structural): the same Rust item generated in both modes; per key
//! shape(TS member) ≍ infer(schema), with a key-level Option allowed to be rendered as omittable.
//! Oracle 2 (values): a JSON value of the declared type that Rust accepts is pushed through the
//! parameter schema (harness interpreter): it must be accepted, and what comes out must still be
//! JSON-serialisable and equal to the input.

use super::c05::{self, Obs, ENUM, STRUCT};
use crate::gen::rust::must_parse;
use crate::gen::ty::*;
use crate::run::{Ctx, Failure, Stats};
use crate::tape::Tape;
use crate::tool::{generate, Cfg};
use crate::ts::ast::Item;
use crate::ts::shape::Shape;
use crate::tsx;
use crate::zodm::{self, V, Z};
use serde_json::{json, Value};
use std::collections::BTreeMap;

/// key-level canonical form: a top-level Option may be "omittable" instead of nullable
fn canon_top(s: &Shape) -> Shape {
    match s {
        Shape::Union(set) => Shape::union(set.iter().filter(|x| !matches!(x, Shape::Null | Shape::Undefined)).cloned()),
        other => other.clone(),
    }
}

/// a JSON value of type `ty` (as the frontend would send it); None when the type has no
/// JSON-serialisable inhabitant of its declared TS type (unit)
pub fn value_of(ty: &Ty, t: &mut Tape, top: bool) -> Option<V> {
    Some(match ty {
        Ty::Prim(p) => match *p {
            "String" | "&str" => V::Str(t.choose(&["", "abc", "42", "ünï"]).to_string()),
            "bool" => V::Bool(t.bool()),
            "()" => return None,
            "f32" | "f64" => V::Num(*t.choose(&[0.0, 1.5, -2.25, 1e10])),
            p if p.starts_with('u') => V::Num(*t.choose(&[0.0, 1.0, 255.0])),
            _ => V::Num(*t.choose(&[0.0, -1.0, 7.0, 2147483647.0])),
        },
        Ty::Named(n) if n == STRUCT => V::Obj(vec![("id".into(), V::Num(1.0))]),
        Ty::Named(n) if n == ENUM => V::Str(t.choose(&["Alpha", "Beta"]).to_string()),
        Ty::Named(_) => return None,
        Ty::Option(i) => {
            if t.bool() {
                if top {
                    V::Undefined
                } else {
                    V::Null
                }
            } else {
                value_of(i, t, false)?
            }
        }
        Ty::Vec(i) => {
            let n = t.pick(3);
            let mut v = vec![];
            for _ in 0..n {
                v.push(value_of(i, t, false)?);
            }
            V::Arr(v)
        }
        Ty::HashSet(i) | Ty::BTreeSet(i) => {
            let n = t.pick(3);
            let mut v: Vec<V> = vec![];
            for _ in 0..n {
                let x = value_of(i, t, false)?;
                if !v.contains(&x) {
                    v.push(x);
                }
            }
            V::Arr(v)
        }
        Ty::HashMap(k, v) | Ty::BTreeMap(k, v) => {
            let n = t.pick(3);
            let mut f: Vec<(String, V)> = vec![];
            for i in 0..n {
                let key = match &**k {
                    Ty::Prim("String") | Ty::Prim("&str") => format!("k{}", i),
                    Ty::Prim(_) => format!("{}", i + 1),
                    Ty::Named(n) if n == ENUM => ["Alpha", "Beta"][i % 2].to_string(),
                    _ => return None,
                };
                if f.iter().any(|(kk, _)| kk == &key) {
                    continue;
                }
                f.push((key, value_of(v, t, false)?));
            }
            V::Obj(f)
        }
        Ty::Tuple(v) => {
            let mut out = vec![];
            for x in v {
                out.push(value_of(x, t, false)?);
            }
            V::Arr(out)
        }
        Ty::Ref(i) => value_of(i, t, top)?,
        Ty::Result(..) => return None,
    })
}

fn v_json(v: &V) -> Value {
    match v {
        V::Undefined => json!("<undefined>"),
        V::Null => Value::Null,
        V::Bool(b) => json!(b),
        V::Num(n) => json!(n),
        V::Str(s) => json!(s),
        V::Arr(a) => Value::Array(a.iter().map(v_json).collect()),
        V::Obj(f) => Value::Object(f.iter().map(|(k, x)| (k.clone(), v_json(x))).collect()),
        V::JsSet(a) => json!({"<Set>": a.iter().map(v_json).collect::<Vec<_>>()}),
        V::JsMap(a) => json!({"<Map>": a.iter().map(|(k, x)| json!([v_json(k), v_json(x)])).collect::<Vec<_>>()}),
    }
}

/// all schema constants of a zod-mode types.ts
pub fn schema_env(types_ts: &str) -> BTreeMap<String, Z> {
    let p = tsx::parse(types_ts);
    let mut m = BTreeMap::new();
    for it in &p.module.items {
        if let Item::Const { name, init: Some(e), .. } = &it.item {
            if let Ok(z) = zodm::from_expr(e) {
                m.insert(name.clone(), z);
            }
        }
    }
    m
}

pub fn check_type(ty: &Ty, tape: &mut Tape, n_values: usize, stats: &mut Stats) -> Vec<Failure> {
    let src = c05::source_for(ty);
    must_parse("src/lib.rs", &src);
    let files = [("src/lib.rs".to_string(), src.clone())];
    let out_n = generate(&files, &Cfg::mode("none"));
    let out_z = generate(&files, &Cfg::mode("zod"));
    let case = |site: &str| json!({"rust_type": ty.rust(false), "site": site, "depth": ty.depth()});
    let mut fails = vec![];
    for (o, m) in [(&out_n, "none"), (&out_z, "zod")] {
        if let Err(e) = &o.result {
            return vec![Failure::new(if o.panic.is_some() { "panic" } else { "tool_error" }).tags(ty.tags()).tag(format!("mode={}", m)).observed(e.clone()).expected("generation succeeds").case(case("*"))];
        }
    }
    // same set of type names and parameter-object names
    let names = |o: &crate::tool::GenOut, zod: bool| -> std::collections::BTreeSet<String> {
        let p = tsx::parse(o.file("types.ts").unwrap_or(""));
        let mut s = std::collections::BTreeSet::new();
        for (n, is_type, is_value, _) in p.declared() {
            if is_type {
                s.insert(n.clone());
            }
            if zod && is_value && n.ends_with("Schema") {
                s.insert(n.trim_end_matches("Schema").to_string());
            }
        }
        s
    };
    let (nn, nz) = (names(&out_n, false), names(&out_z, true));
    let both_parse = tsx::parse(out_n.file("types.ts").unwrap_or("")).errors().is_empty() && tsx::parse(out_z.file("types.ts").unwrap_or("")).errors().is_empty();
    if nn != nz && both_parse {
        fails.push(Failure::new("declared_names_differ").tags(ty.tags()).observed(format!("only plain: {:?}; only zod: {:?}", nn.difference(&nz).collect::<Vec<_>>(), nz.difference(&nn).collect::<Vec<_>>())).expected("the same type and parameter-object names in both modes").case(case("*")));
    }
    for site in ["field", "param"] {
        stats.eval();
        if ty.depth() >= 1 {
            stats.nontrivial(&(ty, site));
        }
        stats.label(&format!("site={}", site));
        stats.label(&format!("depth={}", ty.depth().min(5)));
        let on = c05::observe(&out_n, site, false);
        let oz = c05::observe(&out_z, site, true);
        let mk = |kind: &str, obs: String, exp: String| Failure::new(kind).tags(ty.tags()).tag(format!("site={}", site)).observed(obs).expected(exp).case(case(site));
        match (&on, &oz) {
            (Obs::Shape(sn, srcn), Obs::Shape(sz, srcz)) => {
                stats.sample(|| json!({"rust_type": ty.rust(false), "site": site, "plain": format!("{} ⟸ {}", sn, srcn), "zod": format!("{} ⟸ {}", sz, srcz)}));
                if canon_top(sn) != canon_top(sz) {
                    fails.push(mk("structure_differs", format!("zod infers {} ⟸ {}", sz, srcz), format!("{} ⟸ {}", sn, srcn)));
                }
            }
            (Obs::Bad(..), Obs::Bad(..)) => stats.excluded_known += 1,
            (Obs::Shape(sn, _), Obs::Bad(k, d)) => fails.push(mk("schema_unusable", format!("{}: {}", k, d), format!("a schema for {}", sn))),
            (Obs::Bad(k, d), Obs::Shape(..)) => {
                let _ = (k, d);
                stats.excluded_known += 1; // the plain declaration is broken: C01/C05 own it
            }
        }
    }
    // value level, parameter site
    if let Some(types_z) = out_z.file("types.ts") {
        let env = schema_env(types_z);
        if let Some(schema) = env.get("TakeParamsSchema") {
            let lookup = |n: &str| env.get(n).cloned();
            for _ in 0..n_values {
                let Some(v) = value_of(ty, tape, true) else { break };
                stats.eval();
                stats.label("value_check");
                let mut input = vec![];
                if v != V::Undefined {
                    input.push(("x".to_string(), v.clone()));
                }
                let input = V::Obj(input);
                let mk = |kind: &str, obs: String, exp: String| {
                    Failure::new(kind).tags(ty.tags()).tag("site=param").tag("level=value").observed(obs).expected(exp).case(json!({"rust_type": ty.rust(false), "value": v_json(&input), "schema": tsx::parse(types_z).src_of("TakeParamsSchema")}))
                };
                match zodm::parse(schema, &input, &lookup, 0) {
                    Err(e) => fails.push(mk("schema_rejects_valid_value", e, format!("{} accepted", v_json(&input)))),
                    Ok(out) => {
                        if !out.json_serialisable() {
                            fails.push(mk("schema_output_not_json", v_json(&out).to_string(), "a JSON-serialisable value handed to invoke".into()));
                        } else if out != input {
                            fails.push(mk("schema_changes_value", v_json(&out).to_string(), v_json(&input).to_string()));
                        }
                    }
                }
                if !fails.is_empty() {
                    break;
                }
            }
        }
    }
    fails
}

/// Names and parameter objects: project types whose own name ends in `Schema`, next to a type
/// with the un-suffixed name, referenced through every wrap; commands with channel-only, mixed and
/// optional parameters whose names are several words long. Both modes must declare the same
/// names, the same keys (with the same omittability) and per key the same shape.
pub fn check_names(w: &str, stats: &mut Stats) -> Vec<Failure> {
    use crate::gen::graph::wrap;
    let ty = wrap(w, Ty::named("FormSchema"), false);
    let mut src = String::from(crate::gen::rust::PRELUDE);
    src.push_str("#[derive(Debug, Clone, Serialize, Deserialize, PartialEq, Eq, Hash)]\npub struct Form {\n    pub id: i32,\n}\n\n");
    src.push_str("#[derive(Debug, Clone, Serialize, Deserialize, PartialEq, Eq, Hash)]\npub struct FormSchema {\n    pub title: String,\n    pub first: Form,\n}\n\n");
    src.push_str(&format!("#[derive(Debug, Clone, Serialize, Deserialize)]\npub struct Page {{\n    pub layout: {},\n    pub form: Form,\n    pub plain_schema: FormSchema,\n}}\n\n", ty.rust(true)));
    src.push_str(&format!("#[tauri::command]\npub fn save_layout(new_layout: {}, page_id: Option<u32>) {{}}\n\n", ty.rust(false)));
    src.push_str("#[tauri::command]\npub fn keep(p: Page) {}\n\n#[tauri::command]\npub fn subscribe(on_event: Channel<Form>) {}\n\n");
    src.push_str("#[tauri::command]\npub fn mixed(user_id: i32, on_big_event: Channel<FormSchema>, opt_name: Option<String>) {}\n");
    // a mapped external type (Timestamp -> number in both runs) as a parameter and inside a channel message
    src.push_str("\n#[tauri::command]\npub fn ticks(since: Timestamp, on_tick: Channel<Vec<Timestamp>>) {}\n");
    // a mapped type that the project defines itself (Stamp -> number): neither mode declares it or
    // what only it reaches
    src.push_str("\n#[derive(Debug, Clone, Serialize, Deserialize)]\npub struct Zone {\n    pub offset: i32,\n}\n\n#[derive(Debug, Clone, Serialize, Deserialize)]\npub struct Stamp {\n    pub secs: u64,\n    pub zone: Zone,\n}\n\n#[derive(Debug, Clone, Serialize, Deserialize)]\npub struct Entry {\n    pub at: Stamp,\n    pub label: String,\n}\n\n#[tauri::command]\npub fn log_entry(e: Entry, at: Option<Stamp>) -> Vec<Entry> {\n    todo!()\n}\n");
    // types that only an event payload reaches (no command mentions them), nested through the same wrap
    let via = wrap(w, Ty::named("Origin"), false);
    src.push_str("\n#[derive(Debug, Clone, Default, Serialize, Deserialize, PartialEq, Eq, Hash)]\npub struct Origin {\n    pub host: String,\n    pub stage: Stage,\n}\n\n");
    src.push_str("#[derive(Debug, Clone, Default, Serialize, Deserialize, PartialEq, Eq, Hash)]\npub enum Stage {\n    #[default]\n    Queued,\n    Done,\n}\n\n");
    src.push_str(&format!("#[derive(Debug, Clone, Default, Serialize, Deserialize)]\npub struct Notice {{\n    pub text: String,\n    pub origin: {},\n}}\n\n", via.rust(true)));
    src.push_str("pub fn announce(app: &AppHandle) {\n    app.emit(\"notice\", Notice { text: String::new(), origin: Default::default() }).unwrap();\n}\n");
    must_parse("src/lib.rs", &src);
    let files = [("src/lib.rs".to_string(), src.clone())];
    let mapping = vec![("Timestamp".to_string(), "number".to_string()), ("Stamp".to_string(), "number".to_string())];
    let out_n = generate(&files, &Cfg { type_mappings: mapping.clone(), ..Cfg::mode("none") });
    let out_z = generate(&files, &Cfg { type_mappings: mapping, ..Cfg::mode("zod") });
    stats.eval();
    stats.nontrivial(&("names", w));
    stats.label("names_and_params");
    let tags = vec![format!("wrap={}", w), "sub=names".to_string()];
    let case = json!({"wrap": w, "rust": src});
    for (o, m) in [(&out_n, "none"), (&out_z, "zod")] {
        if let Err(e) = &o.result {
            return vec![Failure::new("tool_error").tags(tags).tag(format!("mode={}", m)).observed(e.clone()).expected("generation succeeds").case(case)];
        }
    }
    let pn = tsx::parse(out_n.file("types.ts").unwrap_or(""));
    let pz = tsx::parse(out_z.file("types.ts").unwrap_or(""));
    let mut fails = vec![];
    let mk = |kind: &str, obs: String, exp: String| Failure::new(kind).tags(tags.clone()).observed(obs).expected(exp).case(case.clone());
    // parameter objects: same keys, same omittability
    for params in ["SaveLayoutParams", "KeepParams", "SubscribeParams", "MixedParams", "TicksParams"] {
        // members written out in both modes (the channels): the same TypeScript type
        if let (Some(a), Some(b)) = (pn.interface(params), pz.interface(params)) {
            let ma = crate::ts::shape::members_to_obj(&a.members);
            let mb = crate::ts::shape::members_to_obj(&b.members);
            for (k, (_, sb)) in &mb {
                if let Some((_, sa)) = ma.get(k) {
                    if sa != sb {
                        fails.push(mk("param_member_type_differs", format!("zod: {}: {}", k, sb), format!("plain: {}: {}", k, sa)).tag(format!("params={}", params)));
                    }
                }
            }
        }
        let kn = super::c04::keys_of_type(&pn, params);
        let kz = super::c04::keys_of_type(&pz, params);
        match (&kn, &kz) {
            (Ok(a), Ok(b)) => {
                if a != b {
                    fails.push(mk("param_keys_differ", format!("zod: {:?}", b), format!("plain: {:?}", a)).tag(format!("params={}", params)));
                }
            }
            (Err(e), _) | (_, Err(e)) => fails.push(mk("param_object_unreadable", e.clone(), format!("{} readable in both modes", params)).tag(format!("params={}", params))),
        }
    }
    // the same set of type names in both modes (project types and parameter objects)
    {
        let names = |text: &str, zod: bool| -> std::collections::BTreeSet<String> {
            let p = tsx::parse(text);
            let mut out = std::collections::BTreeSet::new();
            for (name, is_type, is_value, _) in p.declared() {
                if is_type {
                    out.insert(name.to_string());
                } else if zod && is_value {
                    // a schema constant stands for the type it describes
                    out.insert(name.strip_suffix("Schema").unwrap_or(&name).to_string());
                }
            }
            out
        };
        let a = names(out_n.file("types.ts").unwrap_or(""), false);
        let b = names(out_z.file("types.ts").unwrap_or(""), true);
        let only_plain: Vec<&String> = a.difference(&b).collect();
        let only_zod: Vec<&String> = b.difference(&a).collect();
        if !only_plain.is_empty() || !only_zod.is_empty() {
            fails.push(mk("declared_names_differ", format!("only in plain mode: {:?}; only in zod mode: {:?}", only_plain, only_zod), "the same set of type and parameter-object names in both modes".into()));
        }
    }
    // structs: same keys, per key the same shape
    let env = schema_env(out_z.file("types.ts").unwrap_or(""));
    for st in ["Form", "FormSchema", "Page", "Notice", "Origin"] {
        let Some(iface) = pn.interface(st) else {
            fails.push(mk("missing_decl", format!("no interface {} in plain mode", st), "declared".into()));
            continue;
        };
        let Some(Z::Object(fields)) = env.get(&format!("{}Schema", st)) else {
            fails.push(mk("missing_decl", format!("no object schema {}Schema in zod mode", st), "declared".into()));
            continue;
        };
        let plain = crate::ts::shape::members_to_obj(&iface.members);
        let plain_keys: Vec<&String> = plain.keys().collect();
        let mut zod_keys: Vec<&String> = fields.iter().map(|(k, _)| k).collect();
        zod_keys.sort();
        if plain_keys != zod_keys {
            fails.push(mk("struct_keys_differ", format!("zod: {:?}", zod_keys), format!("plain: {:?}", plain_keys)).tag(format!("struct={}", st)));
            continue;
        }
        for (k, z) in fields {
            let sz = zodm::infer(z);
            let sn = &plain[k].1;
            if canon_top(sn) != canon_top(&sz) {
                let f = mk("structure_differs", format!("zod infers {} for {}.{} ⟸ {}", sz, st, k, pz.src_of(&format!("{}Schema", st)).unwrap_or_default()), format!("{} ⟸ {}", sn, pn.src_of(st).unwrap_or_default())).tag(format!("struct={}", st)).tags(ty.tags());
                fails.push(f);
            }
        }
    }
    stats.sample(|| json!({"sub": "names", "wrap": w, "plain_Page": pn.src_of("Page"), "zod_Page": pz.src_of("PageSchema")}));
    fails
}

/// whole projects (C01's generator: unit structs, skipped fields, naming-case settings, renames,
/// validators, events, channels) generated in both modes: the same set of declared names and,
/// per struct and parameter object, the same keys
pub fn check_project_modes(p: &crate::gen::project::Proj, stats: &mut Stats) -> Vec<Failure> {
    let files = p.render();
    for (path, s) in &files {
        must_parse(path, s);
    }
    let cfg_n = Cfg { mode: "none".into(), ..p.cfg.clone() };
    let cfg_z = Cfg { mode: "zod".into(), ..p.cfg.clone() };
    let out_n = generate(&files, &cfg_n);
    let out_z = generate(&files, &cfg_z);
    stats.eval();
    let interesting = p.structs.iter().any(|s| s.unit || s.fields.iter().all(|f| f.skip) || s.rename_all.is_some()) || p.cfg.field_case.is_some() || p.cfg.param_case.is_some();
    if interesting {
        stats.nontrivial(&format!("{:?}{:?}", files, p.cfg.to_json()));
    }
    for f in &p.features {
        if f.starts_with("has=unit") || f.starts_with("has=field_case") || f.starts_with("has=param_case") {
            stats.label(f);
        }
    }
    if p.structs.iter().any(|s| !s.unit && s.fields.iter().all(|f| f.skip)) {
        stats.label("has=struct_without_visible_fields");
    }
    let mut tags: Vec<String> = vec!["sub=project_modes".to_string()];
    if p.cfg.field_case.is_some() {
        tags.push("has=field_case".into());
    }
    if p.structs.iter().any(|s| s.unit) {
        tags.push("has=unit_struct".into());
    }
    let case = json!({"config": p.cfg.to_json(), "files": files.iter().map(|(p, s)| json!({"path": p, "content": s})).collect::<Vec<_>>()});
    for (o, m) in [(&out_n, "none"), (&out_z, "zod")] {
        if let Err(e) = &o.result {
            return vec![Failure::new("tool_error").tags(tags).tag(format!("mode={}", m)).observed(e.clone()).expected("generation succeeds").case(case)];
        }
    }
    let pn = tsx::parse(out_n.file("types.ts").unwrap_or(""));
    let pz = tsx::parse(out_z.file("types.ts").unwrap_or(""));
    if !pn.errors().is_empty() || !pz.errors().is_empty() {
        // a file that does not parse is C01's finding, not a difference between the modes
        stats.label("skipped=types_ts_does_not_parse");
        return vec![];
    }
    let mut fails = vec![];
    let mk = |kind: &str, obs: String, exp: String| Failure::new(kind).tags(tags.clone()).observed(obs).expected(exp).case(case.clone());
    let names = |p: &tsx::Parsed, zod: bool| -> std::collections::BTreeSet<String> {
        let mut out = std::collections::BTreeSet::new();
        for (name, is_type, is_value, _) in p.declared() {
            if is_type {
                out.insert(name.to_string());
            } else if zod && is_value {
                out.insert(name.strip_suffix("Schema").unwrap_or(&name).to_string());
            }
        }
        out
    };
    let a = names(&pn, false);
    let b = names(&pz, true);
    let only_plain: Vec<&String> = a.difference(&b).collect();
    let only_zod: Vec<&String> = b.difference(&a).collect();
    if !only_plain.is_empty() || !only_zod.is_empty() {
        fails.push(mk("declared_names_differ", format!("only in plain mode: {:?}; only in zod mode: {:?}", only_plain, only_zod), "the same set of type and parameter-object names in both modes".into()));
    }
    // keys of every struct and parameter object that both modes declare
    let enum_names: std::collections::BTreeSet<&str> = p.enums.iter().map(|e| e.name.as_str()).collect();
    for name in a.intersection(&b) {
        if enum_names.contains(name.as_str()) || pn.interface(name).is_none() {
            continue;
        }
        let kn = super::c04::keys_of_type(&pn, name);
        let kz = super::c04::keys_of_type(&pz, name);
        if let (Ok(x), Ok(y)) = (&kn, &kz) {
            let xs: Vec<&String> = x.keys().collect();
            let ys: Vec<&String> = y.keys().collect();
            if xs != ys {
                fails.push(mk("keys_differ", format!("zod: {:?} ⟸ {}", ys, pz.src_of(&format!("{}Schema", name)).unwrap_or_default()), format!("plain: {:?} ⟸ {}", xs, pn.src_of(name).unwrap_or_default())).tag(format!("decl={}", name)));
            }
        } else {
            stats.label("skipped=keys_unreadable");
        }
    }
    stats.sample(|| json!({"sub": "project_modes", "config": p.cfg.to_json(), "names": a}));
    fails
}

fn random_case(t: &mut Tape) -> Ty {
    let depth = t.range(1, 4);
    let structs = vec![STRUCT.to_string()];
    let enums = vec![ENUM.to_string()];
    let mut ty = random_ty(t, depth, &structs, &enums);
    let mut d = depth;
    while ty.nodes() > 10 && d > 1 {
        d -= 1;
        ty = random_ty(t, d, &structs, &enums);
    }
    ty
}

pub fn run(ctx: &Ctx) {
    let depth = ctx.tier.pick(2, 3);
    ctx.set_rule(&format!("C05's enumeration (constructor chains to depth {} over 12 contexts x 20 leaves, plus random trees) placed at field and parameter sites; each project generated in both modes and compared key by key (structure), then 3 (quick) / 8 (thorough) generated JSON values per type pushed through the parameter schema with the harness's Zod interpreter; evaluation = one (type, site) comparison or one value; non-trivial = the member type is composite (depth >= 1), distinct by (type, site)", depth));
    ctx.set_exhaustive(true);
    ctx.assume("Zod semantics (infer / safeParse incl. coercion, optional, nullable, record keys) are those of the harness model");
    ctx.assume("a key-level Option may be rendered as omittable (`.optional()` ≍ `?: T | null`)");
    let chains = enumerate_chains(depth, STRUCT, ENUM);
    let n_values = ctx.tier.pick(3usize, 8usize);
    let keys: Vec<(usize, Ty)> = chains.into_iter().enumerate().collect();
    let seed = ctx.seed;
    ctx.enumerate(
        "c10.chain",
        &keys,
        |(i, t)| json!({"ty": c05::ty_to_json(t), "index": i}),
        |(i, t), stats| {
            // values come from a tape derived from the seed and the index: deterministic
            let mut sm = crate::tape::SplitMix(seed ^ (*i as u64).wrapping_mul(0x9E3779B97F4A7C15));
            let data: Vec<u32> = (0..64).map(|_| sm.next() as u32).collect();
            let mut tape = Tape::new(data);
            check_type(t, &mut tape, n_values, stats)
        },
    );
    let wraps: Vec<String> = crate::gen::graph::WRAPS.iter().map(|w| w.to_string()).collect();
    ctx.enumerate("c10.names", &wraps, |w| json!({"wrap": w}), |w, stats| check_names(w, stats));
    let cases = ctx.tier.pick(2000, 200000);
    ctx.search("c10.tree", cases, 96, |tape, stats| {
        let ty = random_case(tape);
        check_type(&ty, tape, n_values, stats)
    });
    let cases = ctx.tier.pick(1500, 60000);
    ctx.search("c10.project_modes", cases, 400, |tape, stats| {
        let mut avoided = 0;
        let p = crate::gen::project::random_project(tape, true, &mut avoided);
        check_project_modes(&p, stats)
    });
}

pub fn replay(check: &str, input: &Value, stats: &mut Stats) -> Option<Vec<Failure>> {
    match check {
        "c10.chain" => {
            let ty = c05::ty_from_json(&input["ty"])?;
            // try several value tapes
            let mut fails = vec![];
            for k in 0..32u64 {
                let mut sm = crate::tape::SplitMix(k);
                let data: Vec<u32> = (0..64).map(|_| sm.next() as u32).collect();
                let mut tape = Tape::new(data);
                fails = check_type(&ty, &mut tape, 8, stats);
                if !fails.is_empty() {
                    break;
                }
            }
            Some(fails)
        }
        "c10.names" => Some(check_names(input["wrap"].as_str()?, stats)),
        "c10.project_modes" => {
            let mut tape = Tape::new(super::tape_of(input));
            let mut avoided = 0;
            let p = crate::gen::project::random_project(&mut tape, true, &mut avoided);
            Some(check_project_modes(&p, stats))
        }
        "c10.tree" => {
            let mut tape = Tape::new(super::tape_of(input));
            let ty = random_case(&mut tape);
            Some(check_type(&ty, &mut tape, 8, stats))
        }
        _ => None,
    }
}
