//! C03 — exactly one wrapper per discovered command, invoking exactly its Rust name.

use crate::gen::rust::PRELUDE;
use crate::gen::ty::{bx, Ty};
use crate::run::{Ctx, Failure, Stats};
use crate::tape::Tape;
use crate::tool::{self, generate, Cfg};
use crate::ts::shape::normalise;
use crate::tsx;
use serde_json::{json, Value};
use std::collections::BTreeMap;

pub const CMD_ATTRS: &[&str] = &["#[tauri::command]", "#[command]", "#[tauri::command(async)]", "#[tauri::command(rename_all = \"snake_case\")]", "#[tauri::command(async, rename_all = \"camelCase\")]", "#[command(async)]", "#[command(rename_all = \"snake_case\")]"];
pub const LOOKALIKE_ATTRS: &[&str] = &[
    "",
    "#[tauri::commands]",
    "#[my::command]",
    "#[cfg_attr(test, command)]",
    "#[commands]",
    "#[tauri::command_handler]",
    "#[doc = \"#[tauri::command]\"]",
    "#[inline]",
    "#[tauri::ipc::command]",
    "#[allow(command)]",
];
pub const EXTRA_ATTRS: &[&str] = &["#[allow(unused)]", "#[cfg(not(test))]", "/// documented\n/// #[tauri::command] in prose", "#[inline]", "#[doc(hidden)]", "#[must_use]"];
pub const VIS: &[&str] = &["pub ", "pub(crate) ", "", "pub(super) "];

#[derive(Clone, Debug)]
pub enum ItemM {
    Command { name: String, attr: String, extra_before: Vec<String>, extra_after: Vec<String>, vis: String, is_async: bool, ret: Option<Ty>, with_param: bool },
    Decoy { name: String, attr: String, vis: String },
    ImplMethod { ty: String, name: String },
    InlineMod { module: String, name: String },
    Struct { name: String },
}

#[derive(Clone, Debug)]
pub enum FileM {
    Rust { path: String, items: Vec<ItemM> },
    /// a `.rs` file that does not parse
    Broken { path: String, text: String },
    /// not a `.rs` file (content may look like Rust)
    Other { path: String, text: String },
}

#[derive(Clone, Debug)]
pub struct Layout {
    pub files: Vec<FileM>,
    /// index of a `.rs` file that is a symbolic link to a file kept outside the project path
    pub linked: Option<usize>,
}

pub const RETS: &[fn() -> Option<Ty>] = &[
    || None,
    || Some(Ty::Prim("i32")),
    || Some(Ty::Prim("String")),
    || Some(Ty::Prim("bool")),
    || Some(Ty::Option(bx(Ty::Prim("String")))),
    || Some(Ty::Vec(bx(Ty::Prim("u8")))),
    || Some(Ty::Result(bx(Ty::Prim("String")), Some(bx(Ty::Prim("String"))))),
    || Some(Ty::Result(bx(Ty::Prim("()")), Some(bx(Ty::Prim("String"))))),
    || Some(Ty::named("User")),
    || Some(Ty::Result(bx(Ty::named("User")), Some(bx(Ty::Prim("String"))))),
];

pub fn render_item(it: &ItemM) -> String {
    match it {
        ItemM::Command { name, attr, extra_before, extra_after, vis, is_async, ret, with_param } => {
            let mut s = String::new();
            for a in extra_before {
                s.push_str(a);
                s.push('\n');
            }
            s.push_str(attr);
            s.push('\n');
            for a in extra_after {
                s.push_str(a);
                s.push('\n');
            }
            let r = ret.as_ref().map(|t| format!(" -> {}", t.rust(true))).unwrap_or_default();
            s.push_str(&format!("{}{}fn {}({}){} {{\n    todo!()\n}}\n\n", vis, if *is_async { "async " } else { "" }, name, if *with_param { "count: u32" } else { "" }, r));
            s
        }
        ItemM::Decoy { name, attr, vis } => {
            let mut s = String::new();
            if !attr.is_empty() {
                s.push_str(attr);
                s.push('\n');
            }
            s.push_str(&format!("{}fn {}(x: i32) -> i32 {{\n    x\n}}\n\n", vis, name));
            s
        }
        ItemM::ImplMethod { ty, name } => format!("pub struct {ty};\n\nimpl {ty} {{\n    #[tauri::command]\n    pub fn {name}(&self) -> i32 {{\n        1\n    }}\n}}\n\n"),
        ItemM::InlineMod { module, name } => format!("pub mod {module} {{\n    #[tauri::command]\n    pub fn {name}() -> i32 {{\n        1\n    }}\n}}\n\n"),
        ItemM::Struct { name } => format!("#[derive(Debug, Clone, Serialize, Deserialize)]\npub struct {name} {{\n    pub id: i32,\n    pub name: String,\n}}\n\n"),
    }
}

pub fn render_layout(l: &Layout) -> Vec<(String, String)> {
    let mut out = vec![];
    for (fi, f) in l.files.iter().enumerate() {
        match f {
            FileM::Rust { path, items } => {
                // `tool::write_project` turns a file that starts with this line into a symbolic link
                let mut s = String::from(if l.linked == Some(fi) { crate::tool::SYMLINK_MARK } else { "" });
                s.push_str(PRELUDE);
                for it in items {
                    s.push_str(&render_item(it));
                }
                crate::gen::rust::must_parse(path, &s);
                out.push((path.clone(), s));
            }
            FileM::Broken { path, text } => {
                if syn::parse_file(text).is_ok() {
                    crate::run::infra_exit("harness bug: a file meant to be unparsable parses");
                }
                out.push((path.clone(), text.clone()));
            }
            FileM::Other { path, text } => out.push((path.clone(), text.clone())),
        }
    }
    out
}

fn excluded(path: &str) -> bool {
    // the walker excludes anything below a `target/` or `.git/` directory of the project
    let p = format!("/{}", path);
    p.contains("/target/") || p.contains("/.git/")
}

/// expected: command name -> return type
pub fn expected_commands(l: &Layout) -> BTreeMap<String, Option<Ty>> {
    let mut m = BTreeMap::new();
    for f in &l.files {
        if let FileM::Rust { path, items } = f {
            if excluded(path) {
                continue;
            }
            for it in items {
                if let ItemM::Command { name, ret, .. } = it {
                    m.insert(name.clone(), ret.clone());
                }
            }
        }
    }
    m
}

const BROKEN_TEXTS: &[&str] = &[
    "fn broken( {\n",
    "#[tauri::command]\npub fn half_written(a: i32 -> i32 {\n    a\n}\n",
    "this is not rust at all ~~~ {{{\n",
    "pub struct Unclosed {\n    a: i32,\n\n#[tauri::command]\npub fn hidden_in_broken_file() {}\n",
    "#[tauri::command]\npub fn trailing() {}\n}\n",
];

pub fn random_layout(t: &mut Tape) -> Layout {
    let dirs_pool = ["src", "src/commands", "src/commands/deep/er", "src/a/b/c/d", "lib", "src/models", "", "crates/core/src"];
    let n_files = t.range(1, 6);
    let mut files = vec![];
    let mut cmd_i = 0;
    let mut used_paths = std::collections::HashSet::new();
    let mut struct_defined = false;
    let mut name_pool_idx = 0usize;
    // ordinary names interleaved with shapes whose wrapper identifier differs from the name Tauri
    // registers (raw identifiers keep their `r#` in `stringify!`, underscores survive) and with pairs that differ only in underscores (`_ping` / `ping`, `a__b` / `a_b`): distinct commands for Tauri, one camelCase identifier; `ping2` is the name a numbered duplicate of `ping` would take
    let names = ["get_user", "_ping", "ping", "ping2", "r#type", "save", "list_items", "a__b", "a_b", "do_work2", "r#move", "fetch_all_the_things", "x", "open_file_", "run_task", "compute", "reset_state", "load_v2", "sync_now", "q1", "export_data_set"];
    let mut fresh_name = |prefix: &str| {
        name_pool_idx += 1;
        format!("{}{}", prefix, name_pool_idx)
    };
    for fi in 0..n_files {
        let dir = *t.choose(&dirs_pool);
        let mut path = if dir.is_empty() { format!("f{}.rs", fi) } else { format!("{}/f{}.rs", dir, fi) };
        if fi == 0 {
            path = "src/lib.rs".into();
        }
        if !used_paths.insert(path.clone()) {
            continue;
        }
        let n_items = t.range(1, 5);
        let mut items = vec![];
        if fi == 0 {
            items.push(ItemM::Struct { name: "User".into() });
            struct_defined = true;
        }
        for _ in 0..n_items {
            match t.pick(8) {
                0..=3 => {
                    let name = if cmd_i < names.len() { names[cmd_i].to_string() } else { format!("cmd_{}", cmd_i) };
                    cmd_i += 1;
                    let mut before = vec![];
                    let mut after = vec![];
                    let n_extra = t.pick(3);
                    for _ in 0..n_extra {
                        let a = t.choose(EXTRA_ATTRS).to_string();
                        if t.bool() {
                            before.push(a)
                        } else {
                            after.push(a)
                        }
                    }
                    let mut ret = RETS[t.pick(RETS.len())]();
                    if !struct_defined {
                        if let Some(r) = &ret {
                            let mut n = vec![];
                            r.named_refs(&mut n);
                            if !n.is_empty() {
                                ret = Some(Ty::Prim("i32"));
                            }
                        }
                    }
                    items.push(ItemM::Command {
                        name,
                        attr: t.choose(CMD_ATTRS).to_string(),
                        extra_before: before,
                        extra_after: after,
                        vis: t.choose(VIS).to_string(),
                        is_async: t.bool(),
                        ret,
                        with_param: t.chance(1, 3),
                    });
                }
                4 | 5 => items.push(ItemM::Decoy { name: fresh_name("helper_"), attr: t.choose(LOOKALIKE_ATTRS).to_string(), vis: t.choose(VIS).to_string() }),
                6 => items.push(ItemM::ImplMethod { ty: fresh_name("Service"), name: fresh_name("method_") }),
                _ => items.push(ItemM::InlineMod { module: fresh_name("inner_"), name: fresh_name("nested_") }),
            }
        }
        files.push(FileM::Rust { path, items });
    }
    // decoys under target/ and .git/ (top level), containing commands that must not be found
    if t.chance(1, 2) {
        let p = *t.choose(&["target/debug/build/gen.rs", "target/x.rs", ".git/hooks/pre.rs", "target/release/deps/y/z.rs"]);
        files.push(FileM::Rust { path: p.into(), items: vec![ItemM::Command { name: fresh_name("excluded_cmd_"), attr: "#[tauri::command]".into(), extra_before: vec![], extra_after: vec![], vis: "pub ".into(), is_async: false, ret: None, with_param: false }] });
    }
    // the same below a nested target/ or .git/ directory (a member crate's build output, a vendored checkout)
    if t.chance(1, 3) {
        let p = *t.choose(&["crates/core/target/debug/build/x/out/gen.rs", "src/target/y.rs", "vendor/dep/.git/hooks/z.rs", "src/commands/target/release/w.rs"]);
        files.push(FileM::Rust { path: p.into(), items: vec![ItemM::Command { name: fresh_name("nested_excluded_cmd_"), attr: "#[tauri::command]".into(), extra_before: vec![], extra_after: vec![], vis: "pub ".into(), is_async: false, ret: None, with_param: false }] });
    }
    // non-.rs files that look like Rust
    if t.chance(1, 3) {
        let p = *t.choose(&["src/notes.txt", "src/old.rs.bak", "README.md", "src/cmd.rs.orig", "src/rs"]);
        files.push(FileM::Other { path: p.into(), text: "#[tauri::command]\npub fn in_text_file() {}\n".into() });
    }
    // unparsable .rs files
    let n_broken = t.pick(3);
    for b in 0..n_broken {
        let dir = *t.choose(&["src", "src/commands", ""]);
        let path = if dir.is_empty() { format!("broken{}.rs", b) } else { format!("{}/broken{}.rs", dir, b) };
        files.push(FileM::Broken { path, text: t.choose(BROKEN_TEXTS).to_string() });
    }
    // later addition, drawn last (an exhausted tape yields 0 = no link): one of the scanned `.rs`
    // files is a symbolic link to a file outside the project path (a module shared between crates)
    let mut linked = None;
    if t.pick(4) == 3 {
        let candidates: Vec<usize> = files.iter().enumerate().filter(|(_, f)| matches!(f, FileM::Rust { path, items } if !excluded(path) && items.iter().any(|i| matches!(i, ItemM::Command { .. })))).map(|(i, _)| i).collect();
        if !candidates.is_empty() {
            linked = Some(candidates[t.pick(candidates.len())]);
        }
    }
    Layout { files, linked }
}

fn layout_json(l: &Layout) -> Value {
    let files = render_layout(l);
    json!(files.iter().map(|(p, s)| json!({"path": p, "content": s})).collect::<Vec<_>>())
}

pub fn observe_commands(commands_ts: &str) -> Result<Vec<(String, String, crate::ts::shape::Shape)>, Failure> {
    let p = tsx::parse(commands_ts);
    if let Some(e) = p.errors().first() {
        return Err(Failure::new("unparsable").observed(e.msg.clone()).expected("commands.ts parses"));
    }
    let mut out = vec![];
    for f in p.functions() {
        if !f.exported {
            continue;
        }
        let calls = tsx::invoke_calls(f);
        if calls.len() != 1 {
            return Err(Failure::new("wrapper_without_single_invoke").observed(format!("{} has {} invoke calls", f.name, calls.len())).expected("exactly one invoke call per wrapper"));
        }
        let Some(name) = calls[0].0.clone() else {
            return Err(Failure::new("invoke_without_literal_name").observed(p.src_of(&f.name).unwrap_or_default()).expected("invoke('<rust name>', …)"));
        };
        let ret = match f.ret.as_ref().and_then(tsx::promise_arg) {
            Some(t) => normalise(t),
            None => return Err(Failure::new("not_a_promise").observed(p.src_of(&f.name).unwrap_or_default()).expected("Promise<…> return type")),
        };
        out.push((f.name.clone(), name, ret));
    }
    Ok(out)
}

pub fn check_layout(l: &Layout, mode: &str, via_cli: bool, stats: &mut Stats) -> Vec<Failure> {
    let files = render_layout(l);
    let expected = expected_commands(l);
    if l.linked.is_some() {
        stats.label("has=symlinked_rs_file");
    }
    let n_rust = l.files.iter().filter(|f| matches!(f, FileM::Rust { .. })).count();
    let n_decoys = l.files.iter().map(|f| if let FileM::Rust { items, .. } = f { items.iter().filter(|i| !matches!(i, ItemM::Command { .. } | ItemM::Struct { .. })).count() } else { 1 }).sum::<usize>();
    let has_broken = l.files.iter().any(|f| matches!(f, FileM::Broken { .. }));
    stats.eval();
    if n_rust >= 2 && !expected.is_empty() && n_decoys >= 1 {
        stats.nontrivial(&(format!("{:?}", files), mode));
    }
    stats.label(&format!("files={}", n_rust.min(6)));
    stats.label(&format!("mode={}", mode));
    if has_broken {
        stats.label("has_unparsable_file");
    }
    if expected.is_empty() {
        stats.label("no_commands");
    }
    if via_cli {
        stats.label("via=real_binary");
    }
    let tags = |extra: &[&str]| {
        let mut t = vec![format!("mode={}", mode), format!("via={}", if via_cli { "cli" } else { "lib" })];
        if has_broken {
            t.push("has_unparsable_file".into());
        }
        t.extend(extra.iter().map(|s| s.to_string()));
        t
    };
    let case = json!({"mode": mode, "files": layout_json(l), "expected_commands": expected.keys().collect::<Vec<_>>()});
    let run = |files: &[(String, String)]| -> (Result<Vec<String>, String>, BTreeMap<String, String>, Option<String>) {
        if via_cli {
            let dir = tool::fresh_dir("c03");
            tool::write_project(&dir.join("proj"), files);
            std::fs::create_dir_all(dir.join("proj")).unwrap();
            let o = tool::run_cli(&["generate", "-p", "proj", "-o", "out", "-v", mode], &dir);
            let produced = tool::read_dir_files(&dir.join("out"));
            let _ = std::fs::remove_dir_all(&dir);
            if o.ok() {
                (Ok(produced.keys().cloned().collect()), produced, None)
            } else {
                (Err(format!("exit {:?} signal {:?}: {}", o.status, o.signal, o.stderr)), produced, if o.status == Some(101) || o.signal.is_some() { Some(o.stderr.clone()) } else { None })
            }
        } else {
            let o = generate(files, &Cfg::mode(mode));
            (o.result.clone(), o.files.clone(), o.panic.clone())
        }
    };
    let (result, produced, panic) = run(&files);
    stats.sample(|| json!({"mode": mode, "paths": files.iter().map(|(p, _)| p.clone()).collect::<Vec<_>>(), "expected_commands": expected.keys().collect::<Vec<_>>(), "generated": produced.keys().collect::<Vec<_>>()}));
    if let Err(e) = &result {
        return vec![Failure::new(if panic.is_some() { "panic" } else { "tool_error" }).tags(tags(&[])).observed(e.clone()).expected("generation succeeds (unparsable files are skipped)").case(case)];
    }
    let mut fails = vec![];
    if expected.is_empty() {
        let ts: Vec<&String> = produced.keys().filter(|k| k.ends_with(".ts")).collect();
        if !ts.is_empty() {
            fails.push(Failure::new("output_without_commands").tags(tags(&[])).observed(format!("{:?}", ts)).expected("nothing is written when no command is found").case(case));
        }
        return fails;
    }
    let Some(cmds) = produced.get("commands.ts") else {
        return vec![Failure::new("missing_commands_file").tags(tags(&[])).observed(format!("{:?}", produced.keys().collect::<Vec<_>>())).expected("commands.ts").case(case)];
    };
    let observed = match observe_commands(cmds) {
        Ok(o) => o,
        Err(f) => return vec![f.tags(tags(&[])).case(case)],
    };
    // "exactly one wrapper per command": two exported functions of one name are one binding
    {
        let mut seen = std::collections::BTreeMap::new();
        for (fname, name, _) in &observed {
            if let Some(first) = seen.insert(fname.clone(), name.clone()) {
                fails.push(Failure::new("duplicate_wrapper_identifier").tags(tags(&[])).observed(format!("`export async function {}` is declared for '{}' and again for '{}'", fname, first, name)).expected("one uniquely named wrapper per command").case(case.clone()));
                return fails;
            }
        }
    }
    let mut obs_names: Vec<String> = observed.iter().map(|(_, n, _)| n.clone()).collect();
    obs_names.sort();
    let exp_names: Vec<String> = expected.keys().cloned().collect();
    if obs_names != exp_names {
        let missing: Vec<&String> = exp_names.iter().filter(|n| !obs_names.contains(n)).collect();
        let extra: Vec<&String> = obs_names.iter().filter(|n| !exp_names.contains(n)).collect();
        let dup = obs_names.windows(2).any(|w| w[0] == w[1]);
        let kind = if !missing.is_empty() {
            "command_missing"
        } else if !extra.is_empty() {
            "wrapper_for_non_command"
        } else if dup {
            "duplicate_wrapper"
        } else {
            "command_set_mismatch"
        };
        fails.push(Failure::new(kind).tags(tags(&[])).observed(format!("invoked names {:?} (missing {:?}, extra {:?})", obs_names, missing, extra)).expected(format!("{:?}", exp_names)).case(case.clone()));
        return fails;
    }
    for (fname, name, ret) in &observed {
        let want = expected[name].as_ref().map(|t| t.d()).unwrap_or(crate::ts::shape::Shape::Void);
        if *ret != want {
            fails.push(Failure::new("wrong_return_type").tags(tags(&[])).tags(expected[name].as_ref().map(|t| t.tags()).unwrap_or_default()).observed(format!("{}: Promise<{}>", fname, ret)).expected(format!("Promise<{}>", want)).case(case.clone()));
        }
    }
    // metamorphic: the unparsable files do not influence the result
    if has_broken && !via_cli {
        let without: Vec<(String, String)> = files.iter().filter(|(p, _)| !l.files.iter().any(|f| matches!(f, FileM::Broken { path, .. } if path == p))).cloned().collect();
        let (_, produced2, _) = run(&without);
        stats.eval();
        for name in ["types.ts", "commands.ts", "index.ts"] {
            let a = produced.get(name).map(|s| crate::sandbox::declaration_map(s));
            let b = produced2.get(name).map(|s| crate::sandbox::declaration_map(s));
            if a != b {
                fails.push(Failure::new("unparsable_file_changes_output").tags(tags(&[])).observed(format!("{} differs once the unparsable files are removed", name)).expected("identical declarations").case(case.clone()));
                break;
            }
        }
    }
    fails
}

fn random_case(t: &mut Tape) -> (Layout, &'static str) {
    let mode = if t.bool() { "zod" } else { "none" };
    (random_layout(t), mode)
}

pub fn run(ctx: &Ctx) {
    ctx.set_rule("directory layouts of 1-6 .rs files at depth 0-4, decoy files below target/ and .git/ directories at the top level and nested, non-.rs files, 0-2 unparsable .rs files, one layout in four with a .rs file that is a symbolic link to a regular file outside the project path; items: commands with 7 attribute spellings (tauri::command / command, bare and with arguments), extra attributes before/after, 4 visibilities, async/sync, 10 shallow return types; decoys: helper fns with 10 look-alike attributes, #[tauri::command] inside impl blocks and inline modules; both modes; evaluation = one generation run (plus the metamorphic re-run without the unparsable files); non-trivial = >=2 .rs files, >=1 command, >=1 decoy; distinct by (rendered layout, mode)");
    ctx.set_exhaustive(false);
    ctx.assume("expected command set is computed from the layout model; return types are shallow so that C05's classes do not interfere");
    let cases = ctx.tier.pick(1200, 200000);
    ctx.search("c03.layout", cases, 220, |tape, stats| {
        let (l, mode) = random_case(tape);
        check_layout(&l, mode, false, stats)
    });
    let cli_cases = ctx.tier.pick(60, 500);
    ctx.search("c03.cli", cli_cases, 220, |tape, stats| {
        let (l, mode) = random_case(tape);
        check_layout(&l, mode, true, stats)
    });
}

pub fn replay(check: &str, input: &Value, stats: &mut Stats) -> Option<Vec<Failure>> {
    if check == "c03.names" {
        // explicit: one file with one plain command per given name
        let items: Vec<ItemM> = input["names"]
            .as_array()?
            .iter()
            .filter_map(|n| n.as_str())
            .map(|n| ItemM::Command { name: n.to_string(), attr: "#[tauri::command]".into(), extra_before: vec![], extra_after: vec![], vis: "pub ".into(), is_async: false, ret: Some(Ty::Prim("i32")), with_param: true })
            .collect();
        let l = Layout { files: vec![FileM::Rust { path: "src/lib.rs".into(), items }], linked: None };
        let mode = if input["mode"].as_str() == Some("zod") { "zod" } else { "none" };
        return Some(check_layout(&l, mode, false, stats));
    }
    let mut tape = Tape::new(super::tape_of(input));
    let (l, mode) = random_case(&mut tape);
    match check {
        "c03.layout" => Some(check_layout(&l, mode, false, stats)),
        "c03.cli" => Some(check_layout(&l, mode, true, stats)),
        _ => None,
    }
}
