//! C05 — each emitted TypeScript type denotes the JSON shape serde produces.
//!
//! Domain: constructor chains (exhaustive to depth 2 quick / 3 thorough) and random full trees,
//! each placed at the five translation sites, in both modes. Oracle: normalise(parse(emitted
//! text)) == D(Ty) (schemas are compared through `infer`).

use crate::gen::rust::{must_parse, PRELUDE};
use crate::gen::ty::*;
use crate::run::{Ctx, Failure, Stats};
use crate::tape::Tape;
use crate::tool::{generate, Cfg, GenOut};
use crate::ts::ast::{Member, Type};
use crate::ts::shape::{normalise, Shape};
use crate::tsx::{self, member_prop, Parsed};
use crate::zodm;
use serde_json::{json, Value};

pub const STRUCT: &str = "Item";
pub const ENUM: &str = "Kind";
pub const SITES: &[&str] = &["field", "param", "return", "channel", "event"];

pub fn source_for(ty: &Ty) -> String {
    source_for_spelled(ty, false)
}

/// `qualify`: every constructor and named type written with its path instead of relying on `use`
pub fn source_for_spelled(ty: &Ty, qualify: bool) -> String {
    let mut s = String::from(PRELUDE);
    s.push_str("#[derive(Debug, Clone, Serialize, Deserialize)]\npub struct Item {\n    pub id: i32,\n}\n\n");
    s.push_str("#[derive(Debug, Clone, Serialize, Deserialize, PartialEq, Eq, Hash, PartialOrd, Ord)]\npub enum Kind {\n    Alpha,\n    Beta,\n}\n\n");
    if let Ty::Result(..) = ty {
        s.push_str(&format!("#[tauri::command]\npub fn give() -> {} {{\n    todo!()\n}}\n", ty.rust_with(true, qualify)));
        return s;
    }
    s.push_str(&format!("#[derive(Serialize, Deserialize)]\npub struct Holder {{\n    pub f: {},\n}}\n\n", ty.rust_with(true, qualify)));
    s.push_str("#[tauri::command]\npub fn keep(h: Holder) {}\n\n");
    s.push_str(&format!("#[tauri::command]\npub fn take(x: {}) {{}}\n\n", ty.rust_with(false, qualify)));
    s.push_str(&format!("#[tauri::command]\npub fn give() -> {} {{\n    todo!()\n}}\n\n", ty.rust_with(true, qualify)));
    s.push_str(&format!("#[tauri::command]\npub fn stream(ch: Channel<{}>) {{}}\n\n", ty.rust_with(true, qualify)));
    s.push_str(&format!("pub fn fire(app: AppHandle, p: {}) {{\n    app.emit(\"ev\", p).unwrap();\n}}\n", ty.rust_with(false, qualify)));
    s
}

pub enum Obs {
    Shape(Shape, String),
    /// (failure kind, detail)
    Bad(&'static str, String),
}

fn obs_member(p: &Parsed, head: &str, iface: &str, key: &str) -> Result<(Type, String), Obs> {
    match p.interface(iface) {
        Some(i) => match member_prop(&i.members, key) {
            Some((_, _, t)) => Ok((t.clone(), p.src_of(iface).unwrap_or_default())),
            None => Err(Obs::Bad("missing_member", format!("interface {} has no member {}: {}", iface, key, p.src_of(iface).unwrap_or_default()))),
        },
        None => match p.error_in_decl(head) {
            Some((e, text)) => Err(Obs::Bad("unparsable", format!("{} ⟸ {}", e.msg, text))),
            None => Err(Obs::Bad("missing_decl", format!("no `{}` in types.ts", head))),
        },
    }
}

fn obs_schema_field(p: &Parsed, konst: &str, key: &str) -> Obs {
    let head = format!("export const {} ", konst);
    match p.konst(konst) {
        Some(e) => match zodm::from_expr(e) {
            Ok(zodm::Z::Object(fields)) => match fields.iter().find(|(k, _)| k == key) {
                Some((_, s)) => Obs::Shape(zodm::infer(s), p.src_of(konst).unwrap_or_default()),
                None => Obs::Bad("missing_member", format!("schema {} has no key {}", konst, key)),
            },
            Ok(other) => Obs::Bad("not_object_schema", format!("{:?}", other)),
            Err(zodm::ZErr::Unmodelled(m)) => crate::run::infra_exit(&format!("Zod API outside the model: {} in {}", m, p.src_of(konst).unwrap_or_default())),
            Err(e) => Obs::Bad("not_a_schema", format!("{} ⟸ {}", e, p.src_of(konst).unwrap_or_default())),
        },
        None => match p.error_in_decl(&head) {
            Some((e, text)) => Obs::Bad("unparsable", format!("{} ⟸ {}", e.msg, text)),
            None => Obs::Bad("missing_decl", format!("no `{}` in types.ts", head)),
        },
    }
}

/// observe the emitted type of one site
pub fn observe(out: &GenOut, site: &str, zod: bool) -> Obs {
    let types = tsx::parse(out.file("types.ts").unwrap_or(""));
    match site {
        "field" => {
            if zod {
                return obs_schema_field(&types, "HolderSchema", "f");
            }
            match obs_member(&types, "export interface Holder ", "Holder", "f") {
                Ok((t, src)) => Obs::Shape(normalise(&t), src),
                Err(o) => o,
            }
        }
        "param" => {
            if zod {
                return obs_schema_field(&types, "TakeParamsSchema", "x");
            }
            match obs_member(&types, "export interface TakeParams ", "TakeParams", "x") {
                Ok((t, src)) => Obs::Shape(normalise(&t), src),
                Err(o) => o,
            }
        }
        "channel" => match obs_member(&types, "export interface StreamParams ", "StreamParams", "ch") {
            Ok((Type::Ref { name, args }, src)) if name == ["Channel"] && args.len() == 1 => Obs::Shape(normalise(&args[0]), src),
            Ok((t, src)) => Obs::Bad("not_a_channel", format!("{:?} ⟸ {}", t, src)),
            Err(o) => o,
        },
        "return" => {
            let cmds = tsx::parse(out.file("commands.ts").unwrap_or(""));
            match cmds.function("give") {
                Some(f) => {
                    let src = cmds.src_of("give").unwrap_or_default();
                    let head: String = src.split('{').next().unwrap_or("").to_string();
                    match f.ret.as_ref().and_then(tsx::promise_arg) {
                        Some(t) => {
                            // zod mode repeats the type in invoke<T> and CommandHooks<T>
                            if zod {
                                for (_, _, targs) in tsx::invoke_calls(f) {
                                    if let Some(t2) = targs.first() {
                                        if normalise(t2) != normalise(t) {
                                            return Obs::Bad("inconsistent_return", head);
                                        }
                                    }
                                }
                            }
                            Obs::Shape(normalise(t), head)
                        }
                        None => Obs::Bad("not_a_promise", head),
                    }
                }
                None => match cmds.error_in_decl("export async function give(") {
                    Some((e, text)) => {
                        let head: String = text.split('{').next().unwrap_or("").to_string();
                        Obs::Bad("unparsable", format!("{} ⟸ {}", e.msg, head))
                    }
                    None => Obs::Bad("missing_decl", "no wrapper `give` in commands.ts".into()),
                },
            }
        }
        "event" => {
            let ev = tsx::parse(out.file("events.ts").unwrap_or(""));
            match ev.function("onEv") {
                Some(f) => {
                    let src = ev.src_of("onEv").unwrap_or_default();
                    let handler_ty = f.params.first().and_then(|p| p.ty.as_ref());
                    let payload = match handler_ty {
                        Some(Type::Func { params, .. }) => params.first().and_then(|p| p.ty.clone()),
                        _ => None,
                    };
                    let mut listen_arg = None;
                    tsx::walk_stmts(&f.body, &mut |e| {
                        if let crate::ts::ast::Expr::Call { callee, type_args, .. } = e {
                            if matches!(&**callee, crate::ts::ast::Expr::Ident(n) if n == "listen") {
                                listen_arg = type_args.first().cloned();
                            }
                        }
                    });
                    match (payload, listen_arg) {
                        (Some(a), Some(b)) => {
                            if normalise(&a) != normalise(&b) {
                                return Obs::Bad("inconsistent_payload", src);
                            }
                            Obs::Shape(normalise(&a), src)
                        }
                        _ => Obs::Bad("no_payload_type", src),
                    }
                }
                None => match ev.error_in_decl("export async function onEv(") {
                    Some((e, text)) => Obs::Bad("unparsable", format!("{} ⟸ {}", e.msg, text)),
                    None => Obs::Bad("missing_decl", "no listener `onEv` in events.ts".into()),
                },
            }
        }
        _ => unreachable!(),
    }
}

pub fn check_type(ty: &Ty, mode: &str, stats: &mut Stats) -> Vec<Failure> {
    check_type_spelled(ty, mode, false, stats)
}

pub fn check_type_spelled(ty: &Ty, mode: &str, qualify: bool, stats: &mut Stats) -> Vec<Failure> {
    let src = source_for_spelled(ty, qualify);
    must_parse("src/lib.rs", &src);
    let out = generate(&[("src/lib.rs".to_string(), src.clone())], &Cfg::mode(mode));
    let zod = mode == "zod";
    let mut fails = vec![];
    let sites: &[&str] = if matches!(ty, Ty::Result(..)) { &["return"] } else { SITES };
    let base_case = |site: &str| json!({"rust_type": ty.rust_with(false, qualify), "site": site, "mode": mode, "depth": ty.depth()});
    if qualify {
        stats.label("spelling=qualified_paths");
    }
    if let Err(e) = &out.result {
        stats.eval();
        fails.push(
            Failure::new(if out.panic.is_some() { "panic" } else { "tool_error" })
                .tags(ty.tags())
                .tag(format!("mode={}", mode))
                .observed(e.clone())
                .expected("generation succeeds")
                .case(base_case("*")),
        );
        return fails;
    }
    let expected = ty.d();
    for site in sites {
        stats.eval();
        if ty.depth() >= 2 {
            stats.nontrivial(&(ty, site, mode));
        }
        stats.label(&format!("site={}", site));
        stats.label(&format!("depth={}", ty.depth().min(5)));
        let obs = observe(&out, site, zod);
        stats.sample(|| {
            json!({"rust_type": ty.rust(false), "site": site, "mode": mode, "expected": expected.to_string(),
                   "observed": match &obs { Obs::Shape(s, src) => format!("{} ⟸ {}", s, src), Obs::Bad(k, d) => format!("{}: {}", k, d) }})
        });
        let mk = |kind: &str, observed: String| {
            Failure::new(kind)
                .tags(ty.tags())
                .tag(format!("site={}", site))
                .tag(format!("mode={}", mode))
                .tag(if zod && (*site == "field" || *site == "param") { "render=schema" } else { "render=tstext" })
                .tags(if qualify { vec!["spelling=qualified_paths".to_string()] } else { vec![] })
                .observed(observed)
                .expected(expected.to_string())
                .case(base_case(site))
        };
        match obs {
            Obs::Shape(s, src) => {
                if *site == "event" && s == Shape::Unknown {
                    // not translated at all: whether the type was "syntactically evident" is C12's business
                    stats.label("event_payload_unknown");
                } else if s.without_undefined() != expected {
                    fails.push(mk("shape_mismatch", format!("{} ⟸ {}", s, src)));
                }
            }
            Obs::Bad(kind, detail) => fails.push(mk(kind, detail)),
        }
    }
    fails
}

fn result_roots(chains: &[Ty]) -> Vec<Ty> {
    let mut v = vec![];
    for t in chains {
        if matches!(t, Ty::Ref(_)) {
            continue;
        }
        v.push(Ty::Result(bx(t.clone()), Some(bx(Ty::Prim("String")))));
        v.push(Ty::Result(bx(t.clone()), None));
    }
    v
}

fn random_case(t: &mut Tape) -> (Ty, &'static str) {
    let mode = if t.bool() { "zod" } else { "none" };
    let depth = t.range(2, 5);
    let structs = vec![STRUCT.to_string()];
    let enums = vec![ENUM.to_string()];
    let mut ty = random_ty(t, depth, &structs, &enums);
    // bound the size (12 nodes): retry with smaller depth deterministically
    let mut d = depth;
    while ty.nodes() > 12 && d > 1 {
        d -= 1;
        ty = random_ty(t, d, &structs, &enums);
    }
    if t.chance(1, 5) && !matches!(ty, Ty::Ref(_)) {
        ty = if t.bool() { Ty::Result(bx(ty), Some(bx(Ty::Prim("String")))) } else { Ty::Result(bx(ty), None) };
    }
    (ty, mode)
}

pub fn run(ctx: &Ctx) {
    let depth = ctx.tier.pick(2, 3);
    ctx.set_rule(&format!(
        "constructor chains over 12 one-hole contexts x 20 leaves enumerated exhaustively to depth {} (+ Result<T,E>/Result<T> roots over chains of depth <= {}), plus the chains of depth <= 1 written with paths instead of imports (std::collections::HashMap<..>, std::option::Option<..>, crate::Item), plus random full trees (depth<=5, <=12 nodes; one in four path-spelled); every type at the 5 sites x 2 modes; evaluation = one (type, site, mode) observation; non-trivial = nesting depth >= 2, distinct by (type, site, mode)",
        depth,
        depth - 1
    ));
    ctx.set_exhaustive(true);
    ctx.assume("TypeScript-subset parser and shape normal form of the harness stand in for tsc; Zod `infer` is the harness model");
    ctx.assume("D(()) = void everywhere, per the README table (serde writes null)");
    ctx.assume("D(T) is validated on every run against values serialised by the real serde/serde_json (model/denote_fixtures.rs)");
    ctx.note("oracle_fixtures_validated", json!(crate::model::denote_fixtures::validate()));
    let chains = enumerate_chains(depth, STRUCT, ENUM);
    let mut keys: Vec<(Ty, &'static str)> = vec![];
    for t in &chains {
        keys.push((t.clone(), "none"));
        keys.push((t.clone(), "zod"));
    }
    let shallow: Vec<Ty> = chains.iter().filter(|t| t.depth() < depth).cloned().collect();
    for t in result_roots(&shallow) {
        keys.push((t.clone(), "none"));
        keys.push((t, "zod"));
    }
    ctx.note("chains_enumerated", json!(chains.len()));
    ctx.enumerate("c05.chain", &keys, |(t, m)| json!({"ty": ty_to_json(t), "mode": m}), |(t, m), stats| check_type(t, m, stats));
    // the same types written with their paths (std::collections::HashMap<..>, crate::Item): chains of
    // depth <= 1 exhaustively, random trees one time in four
    let mut pkeys: Vec<(Ty, &'static str)> = vec![];
    for t in chains.iter().filter(|t| t.depth() <= 1 && t.rust_with(false, true) != t.rust(false)) {
        pkeys.push((t.clone(), "none"));
        pkeys.push((t.clone(), "zod"));
    }
    ctx.note("path_spelled_chains", json!(pkeys.len()));
    ctx.enumerate("c05.paths", &pkeys, |(t, m)| json!({"ty": ty_to_json(t), "mode": m}), |(t, m), stats| check_type_spelled(t, m, true, stats));
    let cases = ctx.tier.pick(3000, 500000);
    ctx.search("c05.tree", cases, 64, |tape, stats| {
        let (ty, mode) = random_case(tape);
        stats.label("engine=random_tree");
        if ty.has_comma_inside() {
            stats.label("has_composite_sibling");
        }
        let qualify = tape.chance(1, 4);
        check_type_spelled(&ty, mode, qualify, stats)
    });
}

pub fn replay(check: &str, input: &Value, stats: &mut Stats) -> Option<Vec<Failure>> {
    match check {
        "c05.chain" => {
            let ty = ty_from_json(&input["ty"])?;
            Some(check_type(&ty, input["mode"].as_str().unwrap_or("none"), stats))
        }
        "c05.paths" => {
            let ty = ty_from_json(&input["ty"])?;
            Some(check_type_spelled(&ty, input["mode"].as_str().unwrap_or("none"), true, stats))
        }
        "c05.tree" => {
            let mut tape = Tape::new(super::tape_of(input));
            let (ty, mode) = random_case(&mut tape);
            let qualify = tape.chance(1, 4);
            Some(check_type_spelled(&ty, mode, qualify, stats))
        }
        _ => None,
    }
}

pub fn ty_to_json(t: &Ty) -> Value {
    json!(t.rust(false))
}

/// parse the Rust spelling back (through syn) — replay files store the type as text
pub fn ty_from_json(v: &Value) -> Option<Ty> {
    let s = v.as_str()?;
    let parsed: syn::Type = syn::parse_str(s).ok()?;
    ty_from_syn(&parsed)
}

pub fn ty_from_syn(t: &syn::Type) -> Option<Ty> {
    match t {
        syn::Type::Reference(r) => {
            let inner = ty_from_syn(&r.elem)?;
            if inner == Ty::Named("str".into()) {
                Some(Ty::Prim("&str"))
            } else {
                Some(Ty::Ref(bx(inner)))
            }
        }
        syn::Type::Tuple(tp) => {
            if tp.elems.is_empty() {
                Some(Ty::Prim("()"))
            } else {
                Some(Ty::Tuple(tp.elems.iter().map(ty_from_syn).collect::<Option<Vec<_>>>()?))
            }
        }
        syn::Type::Path(p) => {
            let seg = p.path.segments.last()?;
            let name = seg.ident.to_string();
            let args: Vec<Ty> = match &seg.arguments {
                syn::PathArguments::AngleBracketed(a) => a.args.iter().filter_map(|x| if let syn::GenericArgument::Type(t) = x { ty_from_syn(t) } else { None }).collect(),
                _ => vec![],
            };
            let mut it = args.into_iter();
            Some(match name.as_str() {
                "Option" => Ty::Option(bx(it.next()?)),
                "Vec" => Ty::Vec(bx(it.next()?)),
                "HashSet" => Ty::HashSet(bx(it.next()?)),
                "BTreeSet" => Ty::BTreeSet(bx(it.next()?)),
                "HashMap" => Ty::HashMap(bx(it.next()?), bx(it.next()?)),
                "BTreeMap" => Ty::BTreeMap(bx(it.next()?), bx(it.next()?)),
                "Result" => Ty::Result(bx(it.next()?), it.next().map(bx)),
                other => match PRIMS.iter().find(|p| **p == other) {
                    Some(p) => Ty::Prim(p),
                    None => Ty::Named(other.to_string()),
                },
            })
        }
        _ => None,
    }
}

#[allow(dead_code)]
fn unused(_: &Member) {}
