//! C11 — validator attributes become exactly the declared Zod constraints.

use crate::gen::rust::{lit_value, must_parse, rust_str_lit, PRELUDE};
use crate::run::{Ctx, Failure, Stats};
use crate::tape::Tape;
use crate::tool::{generate, Cfg};
use crate::tsx;
use crate::zodm::{self, Check, Z};
use serde_json::{json, Value};

#[derive(Clone, Debug, PartialEq)]
pub enum V {
    Length { min: Option<String>, max: Option<String>, message: Option<String> },
    Range { min: Option<String>, max: Option<String>, message: Option<String> },
    Email { message: Option<String> },
    Url { message: Option<String> },
}

#[derive(Clone, Debug, PartialEq)]
pub struct VField {
    pub name: String,
    /// "String" | "Option<String>" | numeric | "Option<numeric>" | "Vec<String>"
    pub ty: String,
    pub validators: Vec<V>,
    /// one `#[validate(...)]` per validator instead of a single attribute
    pub split: bool,
    /// validators outside the property (custom, regex, must_match, ...) whose arguments mention
    /// validator keywords; they must not add, remove or move a length/range/email/url constraint
    pub noise: Vec<String>,
    /// where the noise goes: "same_first" | "same_last" | "own_attr_first" | "own_attr_last"
    pub noise_at: String,
}

/// Vec-shaped field types (length = number of elements), Option-wrapped and with Option / Vec /
/// numeric elements
pub const VEC_TYPES: &[&str] = &["Vec<String>", "Option<Vec<String>>", "Vec<Option<String>>", "Vec<u32>", "Vec<Vec<String>>", "Option<Vec<Option<String>>>", "Vec<Option<f64>>"];

pub const NOISE: &[&str] = &[
    "custom(function = \"check_email_length\")",
    "custom(function = \"validators::url_or_range\", message = \"length(min = 1) or email\")",
    "regex(path = *URL_RE)",
    "regex(path = *EMAIL_RE, message = \"min = 3, max = 5\")",
    "required",
    "nested",
    "must_match(other = \"email\")",
    "contains(pattern = \"range(min = 7)\")",
    "does_not_contain(pattern = \"url\", message = \"no url please\")",
    "non_control_character",
];
pub const NOISE_AT: &[&str] = &["same_first", "same_last", "own_attr_first", "own_attr_last"];

pub const LEN_NUMS: &[&str] = &["0", "1", "5", "255", "65536", "18446744073709551615", "1_000", "100"];
pub const RANGE_NUMS: &[&str] = &[
    "0", "1", "18", "100", "-5", "-1", "0.5", "-3.25", "1e3", "2.5e-3", "9007199254740993", "1e308", "18446744073709551615", "-0.0", "120.0", "1_000", "3.14159",
];
pub const MESSAGES: &[&str] = &[
    "Too short",
    "must be ok",
    "Länge ungültig",
    "名前が短すぎます",
    "emoji 😀 inside",
    "say \"hi\"",
    "back\\slash",
    "path C:\\new\\table",
    "close) paren",
    "(both) parens",
    "a, b, c",
    "x = y",
    "not a valid email",
    "bad url given",
    "min of max length range message",
    "it's fine",
    "line\nbreak",
    "tab\there",
    "é",
    "ends with backslash\\",
    "{ braces }",
    "`backtick` ${x}",
    "percent % and #",
    "message = \"nested\"",
];

/// later additions (kept apart so that indices into MESSAGES stay what they were): words a
/// template-filling renderer could mistake for its own placeholders, and control characters
/// that need no escape of their own in a JavaScript string literal
pub const MESSAGES_LATE: &[&str] = &[
    "use the {min}/{max} placeholders",
    "{opts} {message} {value}",
    "between {{min}} and {{max}}",
    "$1 \\1 %s {}",
    "esc \u{1b}[1m bold",
    "form\u{c}feed and bell \u{7}",
    "nel \u{85} and nbsp \u{a0}",
    "del \u{7f} end",
];

fn num_class(s: &str) -> &'static str {
    let c = s.replace('_', "");
    if c.starts_with('-') {
        "neg"
    } else if c.contains('e') || c.contains('E') {
        "exp"
    } else if c.contains('.') {
        "decimal"
    } else {
        match c.parse::<u64>() {
            Ok(0) => "zero",
            Ok(v) if v <= 100 => "small",
            _ => "big",
        }
    }
}

pub fn msg_classes(m: &str) -> Vec<&'static str> {
    let mut v = vec![];
    if !m.is_ascii() {
        v.push("multibyte");
    }
    if m.contains('"') {
        v.push("quote");
    }
    if m.contains('\'') {
        v.push("apostrophe");
    }
    if m.contains('\\') {
        v.push("backslash");
    }
    if m.contains('(') || m.contains(')') {
        v.push("paren");
    }
    if m.contains(',') {
        v.push("comma");
    }
    if m.contains('=') {
        v.push("equals");
    }
    if m.chars().any(|c| (c as u32) < 0x20) {
        v.push("control");
    }
    for kw in ["email", "url", "min", "max", "length", "range", "message"] {
        if m.contains(kw) {
            v.push("keyword");
            break;
        }
    }
    if v.is_empty() {
        v.push("plain");
    }
    v
}

fn num_f64(lit: &str) -> f64 {
    lit.replace('_', "").parse::<f64>().unwrap_or_else(|_| crate::run::infra_exit(&format!("harness bug: numeric literal {} does not parse", lit)))
}

impl V {
    pub fn render(&self) -> String {
        let args = |min: &Option<String>, max: &Option<String>, message: &Option<String>| {
            let mut a = vec![];
            if let Some(m) = min {
                a.push(format!("min = {}", m));
            }
            if let Some(m) = max {
                a.push(format!("max = {}", m));
            }
            if let Some(m) = message {
                a.push(format!("message = {}", rust_str_lit(m)));
            }
            a.join(", ")
        };
        match self {
            V::Length { min, max, message } => format!("length({})", args(min, max, message)),
            V::Range { min, max, message } => format!("range({})", args(min, max, message)),
            V::Email { message: None } => "email".into(),
            V::Url { message: None } => "url".into(),
            V::Email { message: Some(m) } => format!("email(message = {})", rust_str_lit(m)),
            V::Url { message: Some(m) } => format!("url(message = {})", rust_str_lit(m)),
        }
    }
    pub fn name(&self) -> &'static str {
        match self {
            V::Length { .. } => "length",
            V::Range { .. } => "range",
            V::Email { .. } => "email",
            V::Url { .. } => "url",
        }
    }
    pub fn message(&self) -> Option<&String> {
        match self {
            V::Length { message, .. } | V::Range { message, .. } | V::Email { message } | V::Url { message } => message.as_ref(),
        }
    }
}

pub fn render_struct(fields: &[VField]) -> String {
    let mut s = String::from(PRELUDE);
    s.push_str("use validator::Validate;\n\n#[derive(Debug, Clone, Serialize, Deserialize, Validate)]\npub struct Form {\n");
    for f in fields {
        let mut parts: Vec<String> = f.validators.iter().map(|v| v.render()).collect();
        let noise = f.noise.join(", ");
        if !f.noise.is_empty() && f.noise_at == "own_attr_first" {
            s.push_str(&format!("    #[validate({})]\n    #[serde(default)]\n", noise));
        }
        if !f.noise.is_empty() && f.noise_at == "same_first" {
            parts.insert(0, noise.clone());
        }
        if !f.noise.is_empty() && f.noise_at == "same_last" {
            parts.push(noise.clone());
        }
        if !parts.is_empty() {
            if f.split {
                for v in &parts {
                    s.push_str(&format!("    #[validate({})]\n", v));
                }
            } else {
                s.push_str(&format!("    #[validate({})]\n", parts.join(", ")));
            }
        }
        if !f.noise.is_empty() && f.noise_at == "own_attr_last" {
            s.push_str(&format!("    /// validated elsewhere: email, url, length(min = 2)\n    #[validate({})]\n", noise));
        }
        s.push_str(&format!("    pub {}: {},\n", f.name, f.ty));
    }
    s.push_str("}\n\n#[tauri::command]\npub fn submit(form: Form) {}\n");
    s
}

/// expected checks of a field: (name, value, message, origin validator index)
pub fn expected_checks(f: &VField) -> Vec<(String, Option<f64>, Option<String>, usize)> {
    let mut out = vec![];
    for (i, v) in f.validators.iter().enumerate() {
        // the declared message, read back independently through syn
        let msg = v.message().map(|m| lit_value(&rust_str_lit(m)));
        match v {
            V::Length { min, max, .. } | V::Range { min, max, .. } => {
                if let Some(m) = min {
                    out.push(("min".to_string(), Some(num_f64(m)), msg.clone(), i));
                }
                if let Some(m) = max {
                    out.push(("max".to_string(), Some(num_f64(m)), msg.clone(), i));
                }
            }
            V::Email { .. } => out.push(("email".into(), None, msg, i)),
            V::Url { .. } => out.push(("url".into(), None, msg, i)),
        }
    }
    out
}

/// constraints found on the *elements* of an array-like schema (the validators of a field speak
/// about the field's own value: the length of a Vec, never the length of its strings)
fn element_checks(z: &Z, below_container: bool, out: &mut Vec<String>) {
    match z {
        Z::Optional(i) | Z::Nullable(i) | Z::Lazy(i) => element_checks(i, below_container, out),
        Z::String { checks, .. } | Z::Number { checks, .. } => {
            if below_container {
                out.extend(checks.iter().map(|c| format!("element .{}({})", c.name, c.value.clone().unwrap_or_default())));
            }
        }
        Z::Array { inner, checks } => {
            if below_container {
                out.extend(checks.iter().map(|c| format!("inner array .{}({})", c.name, c.value.clone().unwrap_or_default())));
            }
            element_checks(inner, true, out);
        }
        Z::Set(i) => element_checks(i, true, out),
        Z::Map(a, b) | Z::Record(a, b) => {
            element_checks(a, true, out);
            element_checks(b, true, out);
        }
        Z::Tuple(v) => v.iter().for_each(|x| element_checks(x, true, out)),
        _ => {}
    }
}

fn base_and_checks(z: &Z) -> (&'static str, Vec<Check>) {
    match z {
        Z::Optional(i) | Z::Nullable(i) => base_and_checks(i),
        Z::String { checks, .. } => ("string", checks.clone()),
        Z::Number { checks, .. } => ("number", checks.clone()),
        Z::Array { checks, .. } => ("array", checks.clone()),
        other => (zodm::kind_name(other), vec![]),
    }
}

fn field_tags(f: &VField) -> Vec<String> {
    let mut t = vec![format!("fieldty={}", f.ty.replace(['<', '>'], "_")), format!("split={}", f.split), format!("nvalidators={}", f.validators.len())];
    for v in &f.validators {
        t.push(format!("has={}", v.name()));
        if let Some(m) = v.message() {
            for c in msg_classes(m) {
                t.push(format!("msg={}", c));
            }
        }
        if let V::Length { min, max, .. } | V::Range { min, max, .. } = v {
            for n in [min, max].into_iter().flatten() {
                t.push(format!("num={}", num_class(n)));
            }
        }
    }
    if !f.noise.is_empty() {
        t.push(format!("noise_at={}", f.noise_at));
        for n in &f.noise {
            t.push(format!("noise={}", n.split('(').next().unwrap_or(n)));
        }
    }
    t.sort();
    t.dedup();
    t
}

pub fn check_struct(fields: &[VField], stats: &mut Stats) -> Vec<Failure> {
    let src = render_struct(fields);
    must_parse("src/lib.rs", &src);
    let out = generate(&[("src/lib.rs".into(), src.clone())], &Cfg::mode("zod"));
    let all_tags: Vec<String> = {
        let mut t: Vec<String> = fields.iter().flat_map(field_tags).filter(|x| !x.starts_with("fieldty=") && !x.starts_with("split=") && !x.starts_with("nvalidators=")).collect();
        t.sort();
        t.dedup();
        t
    };
    let case = json!({"rust": src});
    for f in fields {
        stats.eval();
        let nontrivial = f.validators.iter().any(|v| {
            v.message().map_or(false, |m| !m.chars().all(|c| c.is_ascii_alphabetic() || c == ' '))
                || matches!(v, V::Length{min,max,..} | V::Range{min,max,..} if [min,max].into_iter().flatten().any(|n| !matches!(num_class(n), "zero" | "small")))
        });
        if nontrivial {
            stats.nontrivial(&format!("{:?}", f));
        }
        for t in field_tags(f) {
            if t.starts_with("has=") || t.starts_with("msg=") || t.starts_with("num=") || t.starts_with("noise") {
                stats.label(&t);
            }
        }
        if f.validators.is_empty() {
            stats.label("unvalidated_neighbour");
        }
    }
    if let Err(e) = &out.result {
        return vec![Failure::new(if out.panic.is_some() { "panic" } else { "tool_error" }).tags(all_tags).observed(e.clone()).expected("generation succeeds").case(case)];
    }
    let parsed = tsx::parse(out.file("types.ts").unwrap_or(""));
    let schema_src = parsed.src_of("FormSchema").unwrap_or_default();
    stats.sample(|| json!({"rust": src, "schema": schema_src}));
    let obj = match parsed.konst("FormSchema") {
        Some(e) => match zodm::from_expr(e) {
            Ok(Z::Object(fields)) => fields,
            Ok(other) => return vec![Failure::new("wrong_schema_kind").tags(all_tags).observed(format!("{} ⟸ {}", zodm::kind_name(&other), schema_src)).expected("z.object").case(case)],
            Err(zodm::ZErr::Unmodelled(m)) => crate::run::infra_exit(&format!("Zod API outside the model: {} in {}", m, schema_src)),
            Err(e) => return vec![Failure::new("not_a_schema").tags(all_tags).observed(format!("{} ⟸ {}", e, schema_src)).expected("a Zod schema").case(case)],
        },
        None => match parsed.error_in_decl("export const FormSchema ") {
            Some((e, text)) => return vec![Failure::new("unparsable").tags(all_tags).observed(format!("{} ⟸ {}", e.msg, text)).expected("a parsable schema declaration").case(case)],
            None => return vec![Failure::new("missing_decl").tags(all_tags).observed("no FormSchema in types.ts").expected("FormSchema").case(case)],
        },
    };
    let mut fails = vec![];
    for f in fields {
        let Some((_, z)) = obj.iter().find(|(k, _)| k == &f.name) else {
            fails.push(Failure::new("missing_field").tags(field_tags(f)).observed(schema_src.clone()).expected(format!("key {}", f.name)).case(case.clone()));
            continue;
        };
        let (base, mut observed) = base_and_checks(z);
        let want_base = if f.ty.contains("Vec<") {
            "array"
        } else if f.ty.contains("String") {
            "string"
        } else {
            "number"
        };
        if base != want_base {
            fails.push(Failure::new("wrong_base_schema").tags(field_tags(f)).observed(format!("{} ⟸ {}", base, schema_src)).expected(want_base).case(case.clone()));
            continue;
        }
        let mk = |kind: &str, extra: Vec<String>, obs: String, exp: String| Failure::new(kind).tags(field_tags(f)).tags(extra).observed(format!("{} ⟸ {}", obs, schema_src)).expected(exp).case(json!({"rust": src, "field": f.name}));
        for (name, value, msg, vi) in expected_checks(f) {
            let vname = f.validators[vi].name();
            let part_tags = vec![format!("validator={}", vname), format!("check={}", name)];
            let pos = observed.iter().position(|c| c.name == name && match (value, &c.value) {
                (None, _) => true,
                (Some(v), Some(text)) => text.parse::<f64>().ok() == Some(v),
                (Some(_), None) => false,
            });
            match pos {
                None => {
                    // same check name with another value?
                    let near = observed.iter().find(|c| c.name == name).map(|c| format!("{:?}", c)).unwrap_or_else(|| "absent".into());
                    let kind = if observed.iter().any(|c| c.name == name) { "wrong_constraint_value" } else { "constraint_dropped" };
                    fails.push(mk(kind, part_tags, near, format!(".{}({})", name, value.map(|v| v.to_string()).unwrap_or_default())));
                }
                Some(p) => {
                    let c = observed.remove(p);
                    match (&msg, &c.message) {
                        (Some(m), Some(o)) if m != o => fails.push(mk("message_mismatch", part_tags, format!("{:?}", o), format!("{:?}", m))),
                        (Some(m), None) if vname == "length" || vname == "range" => fails.push(mk("message_dropped", part_tags, "no message".into(), format!("{:?}", m))),
                        (None, Some(o)) => fails.push(mk("undeclared_message", part_tags, format!("{:?}", o), "no message".into())),
                        _ => {}
                    }
                }
            }
        }
        let mut on_elements = vec![];
        element_checks(z, false, &mut on_elements);
        if !on_elements.is_empty() {
            fails.push(mk("constraint_on_elements", vec![], on_elements.join(", "), "the declared constraints on the field's own value only (array length), none on its elements".into()));
        }
        for c in observed {
            // what a validator outside the property turns into is not specified; only the four
            // constraint families of the property are policed
            if !f.noise.is_empty() && !matches!(c.name.as_str(), "min" | "max" | "email" | "url" | "length" | "nonempty") {
                continue;
            }
            let kind = if f.validators.is_empty() { "constraint_on_unvalidated_field" } else { "undeclared_constraint" };
            fails.push(mk(kind, vec![format!("check={}", c.name)], format!("{:?}", c), "only the declared constraints".into()));
        }
    }
    fails
}

fn pick_msg(t: &mut Tape) -> Option<String> {
    match t.pick(4) {
        0 => None,
        1 | 2 => Some(t.choose(MESSAGES).to_string()),
        _ => {
            // arbitrary Unicode: multi-byte characters at every offset
            const ALPHA: &[&str] = &["a", "Z", " ", "é", "ß", "日", "😀", "\"", "\\", "(", ")", ",", "=", "'", "email", "url", "min", "\n", "\t", "{", "}", "%", "1", "-", ".", "message"];
            let n = t.range(1, 8);
            Some((0..n).map(|_| *t.choose(ALPHA)).collect())
        }
    }
}

pub fn random_field(t: &mut Tape, idx: usize) -> VField {
    let name = format!("{}{}", *t.choose(&["name", "age", "items", "mail", "site", "score", "note"]), idx);
    let kind = t.pick(7);
    let numeric = *t.choose(&["i32", "u8", "f64", "u64", "i64", "f32"]);
    let (ty, family) = match kind {
        0 => ("String".to_string(), "str"),
        1 => ("Option<String>".to_string(), "str"),
        2 => (numeric.to_string(), "num"),
        3 => (format!("Option<{}>", numeric), "num"),
        4 => ("Vec<String>".to_string(), "vec"),
        _ => (t.choose(VEC_TYPES).to_string(), "vec"),
    };
    let mut validators = vec![];
    if !t.chance(1, 4) {
        let minmax = |t: &mut Tape, pool: &[&str]| -> (Option<String>, Option<String>) {
            match t.pick(3) {
                0 => (Some(t.choose(pool).to_string()), Some(t.choose(pool).to_string())),
                1 => (Some(t.choose(pool).to_string()), None),
                _ => (None, Some(t.choose(pool).to_string())),
            }
        };
        match family {
            "str" => {
                let n = t.range(1, 3);
                let mut used = std::collections::HashSet::new();
                for _ in 0..n {
                    let which = t.pick(3);
                    if !used.insert(which) {
                        continue;
                    }
                    match which {
                        0 => {
                            let (min, max) = minmax(t, LEN_NUMS);
                            validators.push(V::Length { min, max, message: pick_msg(t) });
                        }
                        1 => validators.push(V::Email { message: if t.chance(1, 4) { pick_msg(t) } else { None } }),
                        _ => validators.push(V::Url { message: if t.chance(1, 4) { pick_msg(t) } else { None } }),
                    }
                }
                // email and url together make no sense for one field
                if validators.iter().any(|v| v.name() == "email") {
                    validators.retain(|v| v.name() != "url");
                }
            }
            "num" => {
                let (min, max) = minmax(t, RANGE_NUMS);
                validators.push(V::Range { min, max, message: pick_msg(t) });
            }
            _ => {
                let (min, max) = minmax(t, LEN_NUMS);
                validators.push(V::Length { min, max, message: pick_msg(t) });
            }
        }
    }
    let split = t.bool();
    let mut noise = vec![];
    let mut noise_at = String::new();
    if t.chance(1, 4) {
        let n = t.range(1, 2);
        for _ in 0..n {
            let x = t.choose(NOISE).to_string();
            if !noise.contains(&x) {
                noise.push(x);
            }
        }
        noise_at = t.choose(NOISE_AT).to_string();
    }
    VField { name, ty, validators, split, noise, noise_at }
}

pub fn random_struct(t: &mut Tape) -> Vec<VField> {
    let n = t.range(1, 4);
    (0..n).map(|i| random_field(t, i)).collect()
}

/// systematic part: every (validator, number) and (validator, message) pair once, alone in its struct
pub fn grid() -> Vec<Vec<VField>> {
    let mut out = vec![];
    let plain = |name: &str| VField { name: name.into(), ty: "String".into(), validators: vec![], split: false, noise: vec![], noise_at: String::new() };
    for n in RANGE_NUMS {
        for which in 0..3 {
            let (min, max) = match which {
                0 => (Some(n.to_string()), None),
                1 => (None, Some(n.to_string())),
                _ => (Some(n.to_string()), Some("1e309".replace("1e309", "1e300"))),
            };
            out.push(vec![VField { name: "score".into(), ty: "f64".into(), validators: vec![V::Range { min, max, message: None }], split: false, noise: vec![], noise_at: String::new() }, plain("other")]);
        }
    }
    for n in LEN_NUMS {
        out.push(vec![VField { name: "name".into(), ty: "String".into(), validators: vec![V::Length { min: Some(n.to_string()), max: None, message: None }], split: false, noise: vec![], noise_at: String::new() }, plain("other")]);
        out.push(vec![VField { name: "items".into(), ty: "Vec<String>".into(), validators: vec![V::Length { min: None, max: Some(n.to_string()), message: None }], split: false, noise: vec![], noise_at: String::new() }, plain("other")]);
    }
    for m in MESSAGES {
        out.push(vec![VField { name: "name".into(), ty: "String".into(), validators: vec![V::Length { min: Some("1".into()), max: Some("9".into()), message: Some(m.to_string()) }], split: false, noise: vec![], noise_at: String::new() }, plain("other")]);
        out.push(vec![VField { name: "age".into(), ty: "Option<i32>".into(), validators: vec![V::Range { min: Some("1".into()), max: None, message: Some(m.to_string()) }], split: false, noise: vec![], noise_at: String::new() }, plain("other")]);
        out.push(vec![VField { name: "mail".into(), ty: "String".into(), validators: vec![V::Email { message: None }, V::Length { min: None, max: Some("9".into()), message: Some(m.to_string()) }], split: true, noise: vec![], noise_at: String::new() }, plain("other")]);
    }
    out.push(vec![VField { name: "mail".into(), ty: "String".into(), validators: vec![V::Email { message: None }], split: false, noise: vec![], noise_at: String::new() }, plain("other")]);
    out.push(vec![VField { name: "site".into(), ty: "Option<String>".into(), validators: vec![V::Url { message: None }], split: false, noise: vec![], noise_at: String::new() }, plain("other")]);
    out.push(vec![VField { name: "mail".into(), ty: "String".into(), validators: vec![V::Email { message: Some("bad".into()) }], split: false, noise: vec![], noise_at: String::new() }, plain("other")]);
    for (k, ty) in VEC_TYPES.iter().enumerate() {
        let (min, max) = match k % 3 {
            0 => (Some("2".to_string()), Some("5".to_string())),
            1 => (Some("1".to_string()), None),
            _ => (None, Some("10".to_string())),
        };
        out.push(vec![VField { name: "items".into(), ty: ty.to_string(), validators: vec![V::Length { min, max, message: if k % 2 == 0 { Some("how many".into()) } else { None } }], split: false, noise: vec![], noise_at: String::new() }, plain("other")]);
    }
    // validators outside the property, alone on a field and beside a declared length, at every position
    for (k, n) in NOISE.iter().enumerate() {
        for (a, at) in NOISE_AT.iter().enumerate() {
            let noisy = |name: &str, ty: &str, validators: Vec<V>| VField { name: name.into(), ty: ty.into(), validators, split: (k + a) % 2 == 0, noise: vec![n.to_string()], noise_at: at.to_string() };
            out.push(vec![noisy("note", "String", vec![]), plain("other")]);
            out.push(vec![noisy("name", "String", vec![V::Length { min: Some("2".into()), max: Some("40".into()), message: Some("2 to 40".into()) }]), noisy("age", "i32", vec![V::Range { min: Some("-5".into()), max: None, message: None }])]);
        }
    }
    // later additions go last, so that the indices of the cases above stay what they were
    for m in MESSAGES_LATE {
        out.push(vec![VField { name: "name".into(), ty: "String".into(), validators: vec![V::Length { min: Some("1".into()), max: Some("9".into()), message: Some(m.to_string()) }], split: false, noise: vec![], noise_at: String::new() }, plain("other")]);
        out.push(vec![VField { name: "age".into(), ty: "i32".into(), validators: vec![V::Range { min: Some("1".into()), max: Some("10".into()), message: Some(m.to_string()) }], split: false, noise: vec![], noise_at: String::new() }, plain("other")]);
        out.push(vec![VField { name: "level".into(), ty: "Option<u8>".into(), validators: vec![V::Range { min: None, max: Some("7".into()), message: Some(m.to_string()) }], split: false, noise: vec![], noise_at: String::new() }, plain("other")]);
        out.push(vec![VField { name: "mail".into(), ty: "String".into(), validators: vec![V::Email { message: Some(m.to_string()) }], split: false, noise: vec![], noise_at: String::new() }, plain("other")]);
    }
    out
}

pub fn run(ctx: &Ctx) {
    ctx.set_rule("structs of 1-4 fields (String, Option<String>, numeric, Option<numeric>, Vec<String> and six more Vec shapes: Option<Vec<..>>, Vec<Option<..>>, Vec<u32>, Vec<Vec<..>>, ...; some without validators) carrying length/range/email/url with min/max from pools covering 0, small, negative, decimal, exponent, u64::MAX, 2^53+1, 1e308 and messages from a pool of 24 adversarial strings or random Unicode strings; a systematic grid of every (validator, number) and (validator, message) pair; validators outside the property (custom, regex, required, nested, must_match, contains, does_not_contain, non_control_character, with keyword-laden arguments) placed before/after the declared ones in the same or in their own attribute (grid: 10 x 4 positions, alone and beside declared validators; random: 1 field in 4); plus proptest-generated structs; evaluation = one field; non-trivial = a validator with a number outside 0..100 or a message outside [A-Za-z ]*, distinct by field model");
    ctx.set_exhaustive(false);
    ctx.assume("declared numbers are read with Rust's f64 parser, declared messages are read back from the rendered literal with syn::LitStr::value()");
    ctx.assume("the Zod model of the harness decodes method chains (.min/.max/.email/.url, {message})");
    let g = grid();
    let idx: Vec<usize> = (0..g.len()).collect();
    ctx.enumerate("c11.grid", &idx, |i| json!({"index": i}), |i, stats| check_struct(&g[*i], stats));
    let cases = ctx.tier.pick(2500, 600000);
    ctx.search("c11.random", cases, 120, |tape, stats| {
        let s = random_struct(tape);
        check_struct(&s, stats)
    });
}

pub fn replay(check: &str, input: &Value, stats: &mut Stats) -> Option<Vec<Failure>> {
    match check {
        "c11.grid" => {
            let g = grid();
            let i = input["index"].as_u64()? as usize;
            Some(check_struct(g.get(i)?, stats))
        }
        "c11.random" => {
            let mut tape = Tape::new(super::tape_of(input));
            let s = random_struct(&mut tape);
            Some(check_struct(&s, stats))
        }
        _ => None,
    }
}
