//! C08 — the cache never leaves stale bindings: a successful non-forced run means the output
//! directory holds what a forced run on the *current* sources and configuration would write.
//!
//! Domain: histories `generate; (edit; non-forced run)*` over a structured base project (2 files,
//! 3 commands, struct + enum, one event, one channel, one validator). Every edit class is an
//! idempotent toggle on a model (or the removal of one generated file), so that any sequence is
//! applicable. Both entry points: the real CLI binary and the build-script driver.
//!
//! Oracle (differential): after every non-forced run that exits 0, the same binary is run with
//! force on the current sources and configuration into an empty directory (memoised per model
//! state); every file that run writes must exist in the real output directory with the same
//! declaration map (order of declarations is not compared, the timestamp header is no
//! declaration).

use crate::gen::rust::must_parse;
use crate::run::{infra_exit, Ctx, Failure, Stats};
use crate::sandbox;
use crate::tape::Tape;
use crate::tool::{self, fresh_dir, ProcOut};
use serde_json::{json, Value};
use std::collections::{BTreeMap, HashMap};
use std::path::{Path, PathBuf};
use std::sync::{Arc, Mutex, OnceLock};

// ------------------------------------------------------------------------------------------
// edit classes

#[derive(Clone, Copy, PartialEq, Eq, Debug)]
pub enum EditKind {
    /// toggles something in the Rust sources that the generators render
    Source,
    /// toggles a configuration setting
    Config,
    /// toggles source text that no generator looks at (controls)
    Control,
    /// removes one generated file from the output directory
    Delete,
    /// changes nothing; the run after the *next* edit is a forced one
    ForceNext,
}

pub struct EditClass {
    pub name: &'static str,
    pub kind: EditKind,
    pub what: &'static str,
}

const fn ec(name: &'static str, kind: EditKind, what: &'static str) -> EditClass {
    EditClass { name, kind, what }
}

/// index = bit in `Model::bits` for the non-Delete classes
pub const EDITS: &[EditClass] = &[
    ec("add_command", EditKind::Source, "add/remove `#[tauri::command] pub fn ping(count: u32) -> u32`"),
    ec("rename_command", EditKind::Source, "get_user <-> fetch_user"),
    ec("param_type", EditKind::Source, "get_user(id: i32) <-> (id: String)"),
    ec("return_type", EditKind::Source, "get_user -> Result<User, String> <-> Result<Option<User>, String>"),
    ec("add_field", EditKind::Source, "add/remove `pub email: String` in User"),
    ec("field_type", EditKind::Source, "User.tags: Vec<String> <-> Vec<u32>"),
    ec("field_rename", EditKind::Source, "toggle #[serde(rename = \"displayName\")] on User.name"),
    ec("rename_all", EditKind::Source, "toggle #[serde(rename_all = \"camelCase\")] on User (has field is_active)"),
    ec("field_skip", EditKind::Source, "toggle #[serde(skip)] on User.note"),
    ec("add_variant", EditKind::Source, "add/remove variant Kind::Moderator"),
    ec("variant_rename", EditKind::Source, "toggle #[serde(rename = \"visitor\")] on Kind::Guest"),
    ec("validator", EditKind::Source, "User.name #[validate(length(min = 1, max = 50))] <-> max = 80"),
    ec("add_event", EditKind::Source, "add/remove `app.emit(\"audit-logged\", \"saved\")` in save_user"),
    ec("payload_type", EditKind::Source, "payload of \"user-saved\": &user (User) <-> Progress { .. }"),
    ec("channel", EditKind::Source, "add/remove parameter `on_log: Channel<String>` of watch"),
    ec("mode", EditKind::Config, "validation library none <-> zod"),
    ec("type_mapping", EditKind::Config, "type mapping {Timestamp: string} absent <-> present"),
    ec("param_case", EditKind::Config, "default_parameter_case camelCase <-> snake_case (config file only)"),
    ec("field_case", EditKind::Config, "default_field_case snake_case <-> camelCase (config file only)"),
    ec("comment", EditKind::Control, "add/remove a line comment in lib.rs"),
    ec("helper_fn", EditKind::Control, "add/remove a private helper fn without attribute in lib.rs"),
    ec("private_field_type", EditKind::Source, "non-pub field User.token: u64 <-> Option<String>"),
    ec("first_emit_payload", EditKind::Source, "first of two emissions of \"status\": payload \"starting\" (String) <-> true (bool); the second emission (in report) stays 100"),
    ec("swap_emits", EditKind::Source, "swap the order of the two emit statements in save_user (listener order in events.ts)"),
    ec("payload_only_field_type", EditKind::Source, "Audit.actor: String <-> u32, where Audit is reachable only as the payload of \"audit\" (emitted in report)"),
    ec("payload_nested_rename", EditKind::Source, "toggle #[serde(rename = \"errorCode\")] on AuditDetail.code, a type reachable only through the payload-only struct Audit"),
    ec("visualize_deps", EditKind::Config, "--visualize-deps / visualizeDeps off <-> on (dependency-graph.txt/.dot are then part of what a generation writes: they name the line of every command, so moving code matters)"),
    ec("unused_type", EditKind::Control, "add/remove an unreferenced serde struct at the end of models.rs (no binding changes; the visualisation counts type definitions)"),
    ec("no_events", EditKind::Source, "remove / restore every emit call at once (without events no events.ts is generated, and a cache record written then knows no events)"),
    ec("validator_message", EditKind::Source, "User.score #[validate(range(min = 0, message = \"too small\"))] <-> message = \"must not be negative\" (only the message changes; only Zod mode renders it)"),
    ec("delete_types", EditKind::Delete, "remove types.ts from the output directory"),
    ec("delete_commands", EditKind::Delete, "remove commands.ts from the output directory"),
    ec("delete_events", EditKind::Delete, "remove events.ts from the output directory"),
    ec("delete_index", EditKind::Delete, "remove index.ts from the output directory"),
    ec("force_next", EditKind::ForceNext, "no edit; the run that follows the NEXT edit is forced (--force / force: true), so that a forced run sits inside the history"),
];

pub const E_ADD_COMMAND: usize = 0;
pub const E_RENAME_COMMAND: usize = 1;
pub const E_PARAM_TYPE: usize = 2;
pub const E_RETURN_TYPE: usize = 3;
pub const E_ADD_FIELD: usize = 4;
pub const E_FIELD_TYPE: usize = 5;
pub const E_FIELD_RENAME: usize = 6;
pub const E_RENAME_ALL: usize = 7;
pub const E_FIELD_SKIP: usize = 8;
pub const E_ADD_VARIANT: usize = 9;
pub const E_VARIANT_RENAME: usize = 10;
pub const E_VALIDATOR: usize = 11;
pub const E_ADD_EVENT: usize = 12;
pub const E_PAYLOAD_TYPE: usize = 13;
pub const E_CHANNEL: usize = 14;
pub const E_MODE: usize = 15;
pub const E_TYPE_MAPPING: usize = 16;
pub const E_PARAM_CASE: usize = 17;
pub const E_FIELD_CASE: usize = 18;
pub const E_COMMENT: usize = 19;
pub const E_HELPER_FN: usize = 20;
pub const E_PRIVATE_FIELD_TYPE: usize = 21;
pub const E_FIRST_EMIT_PAYLOAD: usize = 22;
pub const E_SWAP_EMITS: usize = 23;
pub const E_PAYLOAD_ONLY_FIELD_TYPE: usize = 24;
pub const E_PAYLOAD_NESTED_RENAME: usize = 25;
pub const E_VISUALIZE: usize = 26;
pub const E_UNUSED_TYPE: usize = 27;
pub const E_NO_EVENTS: usize = 28;
pub const E_VALIDATOR_MESSAGE: usize = 29;

pub fn edit_index(name: &str) -> Option<usize> {
    EDITS.iter().position(|e| e.name == name)
}

fn deleted_file(edit: usize) -> Option<&'static str> {
    match EDITS[edit].name {
        "delete_types" => Some("types.ts"),
        "delete_commands" => Some("commands.ts"),
        "delete_events" => Some("events.ts"),
        "delete_index" => Some("index.ts"),
        _ => None,
    }
}

// ------------------------------------------------------------------------------------------
// the model and its renderers

#[derive(Clone, Copy, PartialEq, Eq, Hash, Debug)]
pub struct Model {
    pub bits: u32,
}

impl Model {
    pub fn start(zod: bool) -> Model {
        Model { bits: if zod { 1 << E_MODE } else { 0 } }
    }
    pub fn has(&self, e: usize) -> bool {
        self.bits >> e & 1 == 1
    }
    pub fn toggle(&mut self, e: usize) {
        self.bits ^= 1 << e;
    }
    pub fn mode(&self) -> &'static str {
        if self.has(E_MODE) {
            "zod"
        } else {
            "none"
        }
    }
    /// settings that only a config *file* (`-c` / typegen.json) can carry
    pub fn needs_file_only_settings(&self) -> bool {
        // the visualisation is requested by flag in plain mode and through the configuration
        // file in zod mode, so that both ways of asking for it occur in short histories
        self.has(E_PARAM_CASE) || self.has(E_FIELD_CASE) || (self.has(E_VISUALIZE) && self.has(E_MODE))
    }
    pub fn param_case(&self) -> &'static str {
        if self.has(E_PARAM_CASE) {
            "snake_case"
        } else {
            "camelCase"
        }
    }
    pub fn field_case(&self) -> &'static str {
        if self.has(E_FIELD_CASE) {
            "camelCase"
        } else {
            "snake_case"
        }
    }
}

/// Rust sources of the model, relative to the project directory
pub fn render_sources(m: &Model) -> Vec<(String, String)> {
    let mut lib = String::new();
    lib.push_str("use serde::{Deserialize, Serialize};\nuse tauri::ipc::Channel;\nuse tauri::{AppHandle, Emitter};\n\nmod models;\nuse models::*;\n\n");
    if m.has(E_COMMENT) {
        lib.push_str("// bindings for the commands below are generated at build time\n\n");
    }
    lib.push_str(&format!(
        "#[tauri::command]\npub fn {}(id: {}) -> Result<{}, String> {{\n    todo!()\n}}\n\n",
        if m.has(E_RENAME_COMMAND) { "fetch_user" } else { "get_user" },
        if m.has(E_PARAM_TYPE) { "String" } else { "i32" },
        if m.has(E_RETURN_TYPE) { "Option<User>" } else { "User" },
    ));
    lib.push_str("#[tauri::command]\npub async fn save_user(app: AppHandle, user: User, notify: Option<bool>) -> Result<(), String> {\n");
    let saved = if m.has(E_PAYLOAD_TYPE) { "    app.emit(\"user-saved\", Progress { done: 1, total: 1 }).unwrap();\n" } else { "    app.emit(\"user-saved\", &user).unwrap();\n" };
    let status = if m.has(E_FIRST_EMIT_PAYLOAD) { "    app.emit(\"status\", true).unwrap();\n" } else { "    app.emit(\"status\", \"starting\").unwrap();\n" };
    if m.has(E_SWAP_EMITS) {
        lib.push_str(status);
        lib.push_str(saved);
    } else {
        lib.push_str(saved);
        lib.push_str(status);
    }
    if m.has(E_ADD_EVENT) {
        lib.push_str("    app.emit(\"audit-logged\", \"saved\").unwrap();\n");
    }
    lib.push_str("    Ok(())\n}\n\n");
    lib.push_str(&format!("#[tauri::command]\npub fn watch(on_progress: Channel<Progress>, {}kind: Kind) {{}}\n", if m.has(E_CHANNEL) { "on_log: Channel<String>, " } else { "" }));
    lib.push_str("\n#[tauri::command]\npub fn report(app: AppHandle) {\n    app.emit(\"status\", 100).unwrap();\n    app.emit(\"audit\", Audit { actor: Default::default(), detail: AuditDetail { code: 1 } }).unwrap();\n}\n");
    if m.has(E_ADD_COMMAND) {
        lib.push_str("\n#[tauri::command]\npub fn ping(count: u32) -> u32 {\n    count\n}\n");
    }
    if m.has(E_HELPER_FN) {
        lib.push_str("\nfn helper_total(values: &[u32]) -> u32 {\n    values.iter().sum()\n}\n");
    }

    if m.has(E_NO_EVENTS) {
        lib = lib.lines().filter(|l| !l.contains(".emit(")).collect::<Vec<_>>().join("\n") + "\n";
    }
    let mut md = String::new();
    md.push_str("use serde::{Deserialize, Serialize};\nuse time_types::Timestamp;\nuse validator::Validate;\n\n");
    md.push_str("#[derive(Debug, Clone, Serialize, Deserialize, Validate)]\n");
    if m.has(E_RENAME_ALL) {
        md.push_str("#[serde(rename_all = \"camelCase\")]\n");
    }
    md.push_str("pub struct User {\n    pub id: i32,\n");
    if m.has(E_FIELD_RENAME) {
        md.push_str("    #[serde(rename = \"displayName\")]\n");
    }
    md.push_str(&format!("    #[validate(length(min = 1, max = {}))]\n    pub name: String,\n", if m.has(E_VALIDATOR) { 80 } else { 50 }));
    md.push_str("    pub kind: Kind,\n");
    md.push_str(&format!("    #[validate(range(min = 0, message = \"{}\"))]\n    pub score: i32,\n", if m.has(E_VALIDATOR_MESSAGE) { "must not be negative" } else { "too small" }));
    md.push_str(&format!("    pub tags: Vec<{}>,\n", if m.has(E_FIELD_TYPE) { "u32" } else { "String" }));
    md.push_str("    pub is_active: bool,\n");
    if m.has(E_FIELD_SKIP) {
        md.push_str("    #[serde(skip)]\n");
    }
    md.push_str("    pub note: Option<String>,\n    pub created: Timestamp,\n");
    md.push_str(&format!("    token: {},\n", if m.has(E_PRIVATE_FIELD_TYPE) { "Option<String>" } else { "u64" }));
    if m.has(E_ADD_FIELD) {
        md.push_str("    pub email: String,\n");
    }
    md.push_str("}\n\n#[derive(Debug, Clone, Serialize, Deserialize)]\npub enum Kind {\n    Admin,\n");
    if m.has(E_VARIANT_RENAME) {
        md.push_str("    #[serde(rename = \"visitor\")]\n");
    }
    md.push_str("    Guest,\n");
    if m.has(E_ADD_VARIANT) {
        md.push_str("    Moderator,\n");
    }
    md.push_str("}\n\n#[derive(Debug, Clone, Serialize, Deserialize)]\npub struct Progress {\n    pub done: u32,\n    pub total: u32,\n}\n");
    // reachable only as an event payload (no command mentions them)
    md.push_str(&format!("\n#[derive(Debug, Clone, Default, Serialize, Deserialize)]\npub struct Audit {{\n    pub actor: {},\n    pub detail: AuditDetail,\n}}\n", if m.has(E_PAYLOAD_ONLY_FIELD_TYPE) { "u32" } else { "String" }));
    md.push_str(&format!("\n#[derive(Debug, Clone, Default, Serialize, Deserialize)]\npub struct AuditDetail {{\n{}    pub code: u32,\n}}\n", if m.has(E_PAYLOAD_NESTED_RENAME) { "    #[serde(rename = \"errorCode\")]\n" } else { "" }));
    if m.has(E_UNUSED_TYPE) {
        md.push_str("\n#[derive(Debug, Clone, Serialize, Deserialize)]\npub struct NeverReferenced {\n    pub id: u8,\n}\n");
    }
    must_parse("src/lib.rs", &lib);
    must_parse("src/models.rs", &md);
    vec![("src/lib.rs".to_string(), lib), ("src/models.rs".to_string(), md)]
}

#[derive(Clone, Copy, PartialEq, Eq, Hash, Debug)]
pub enum RunPath {
    Cli,
    Buildrs,
}

impl RunPath {
    pub fn name(self) -> &'static str {
        match self {
            RunPath::Cli => "cli",
            RunPath::Buildrs => "buildrs",
        }
    }
    pub fn parse(s: &str) -> Option<RunPath> {
        match s {
            "cli" => Some(RunPath::Cli),
            "buildrs" => Some(RunPath::Buildrs),
            _ => None,
        }
    }
}

/// A materialised project: where to run, what to run, where the output goes.
pub struct Site {
    pub path: RunPath,
    pub cwd: PathBuf,
    pub out_dir: PathBuf,
    pub args: Vec<String>,
    /// configuration files as written (relative to cwd), for the case report
    pub config_files: Vec<(String, String)>,
}

fn standalone_config_json(m: &Model, project_path: &str, output_path: &str, force: Option<bool>) -> String {
    let mut o = serde_json::Map::new();
    o.insert("project_path".into(), json!(project_path));
    o.insert("output_path".into(), json!(output_path));
    o.insert("validation_library".into(), json!(m.mode()));
    if m.has(E_TYPE_MAPPING) {
        o.insert("type_mappings".into(), json!({"Timestamp": "string"}));
    }
    o.insert("default_parameter_case".into(), json!(m.param_case()));
    o.insert("default_field_case".into(), json!(m.field_case()));
    if let Some(f) = force {
        o.insert("force".into(), json!(f));
    }
    if m.has(E_VISUALIZE) {
        o.insert("visualize_deps".into(), json!(true));
    }
    serde_json::to_string_pretty(&Value::Object(o)).unwrap()
}

/// (Re)write sources and configuration of `m` below `root` and say how to run the tool there.
/// CLI: `<root>/ws/{proj/src/*.rs, [cfg.json], out/}`, cwd = `<root>/ws`.
/// build script: `<root>/src-tauri/{tauri.conf.json, [typegen.json], src/*.rs}`, output in
/// `<root>/src/generated`, cwd = `<root>/src-tauri` (as cargo runs a build script).
pub fn materialise(root: &Path, path: RunPath, m: &Model, force: bool) -> Site {
    let files = render_sources(m);
    // a file is only written when its content changes: an edit touches what it edits, every other
    // source and configuration file keeps its modification time, as in a real working tree
    let wr = |p: &Path, s: &str| {
        if std::fs::read_to_string(p).map_or(false, |old| old == s) {
            return;
        }
        if let Some(parent) = p.parent() {
            let _ = std::fs::create_dir_all(parent);
        }
        if let Err(e) = std::fs::write(p, s) {
            infra_exit(&format!("cannot write {}: {}", p.display(), e));
        }
    };
    match path {
        RunPath::Cli => {
            let ws = root.join("ws");
            let proj = ws.join("proj");
            std::fs::create_dir_all(&proj).unwrap_or_else(|e| infra_exit(&format!("cannot create {}: {}", proj.display(), e)));
            for (rel, content) in &files {
                wr(&proj.join(rel), content);
            }
            let mut args: Vec<String> = vec!["generate".into()];
            let mut config_files = vec![];
            let cfg_path = ws.join("cfg.json");
            if m.needs_file_only_settings() || m.has(E_TYPE_MAPPING) {
                let text = standalone_config_json(m, "proj", "out", None);
                wr(&cfg_path, &text);
                config_files.push(("cfg.json".to_string(), text));
                args.extend(["-c".to_string(), "cfg.json".to_string()]);
            } else {
                let _ = std::fs::remove_file(&cfg_path);
                args.extend(["-p", "proj", "-o", "out", "-v", m.mode()].iter().map(|s| s.to_string()));
            }
            if force {
                args.push("--force".into());
            }
            if m.has(E_VISUALIZE) && !args.iter().any(|a| a == "-c") {
                args.push("--visualize-deps".into());
            }
            Site { path, cwd: ws.clone(), out_dir: ws.join("out"), args, config_files }
        }
        RunPath::Buildrs => {
            let st = root.join("src-tauri");
            std::fs::create_dir_all(&st).unwrap_or_else(|e| infra_exit(&format!("cannot create {}: {}", st.display(), e)));
            for (rel, content) in &files {
                wr(&st.join(rel), content);
            }
            let mut config_files = vec![];
            let tg = st.join("typegen.json");
            if m.needs_file_only_settings() {
                // tauri.conf.json cannot carry the naming-case settings: no `plugins.typegen`
                // section there, so that BuildSystem::load_configuration falls through to typegen.json
                let conf = serde_json::to_string_pretty(&json!({"productName": "app", "plugins": {}})).unwrap();
                wr(&st.join("tauri.conf.json"), &conf);
                let text = standalone_config_json(m, ".", "../src/generated", Some(force));
                wr(&tg, &text);
                config_files.push(("tauri.conf.json".to_string(), conf));
                config_files.push(("typegen.json".to_string(), text));
            } else {
                let _ = std::fs::remove_file(&tg);
                let mut t = serde_json::Map::new();
                t.insert("projectPath".into(), json!("."));
                t.insert("outputPath".into(), json!("../src/generated"));
                t.insert("validationLibrary".into(), json!(m.mode()));
                if m.has(E_TYPE_MAPPING) {
                    t.insert("typeMappings".into(), json!({"Timestamp": "string"}));
                }
                t.insert("force".into(), json!(force));
                if m.has(E_VISUALIZE) {
                    t.insert("visualizeDeps".into(), json!(true));
                }
                let conf = serde_json::to_string_pretty(&json!({"productName": "app", "plugins": {"typegen": Value::Object(t)}})).unwrap();
                wr(&st.join("tauri.conf.json"), &conf);
                config_files.push(("tauri.conf.json".to_string(), conf));
            }
            Site { path, cwd: st, out_dir: root.join("src").join("generated"), args: vec![], config_files }
        }
    }
}

pub fn run_site(site: &Site) -> ProcOut {
    match site.path {
        RunPath::Cli => {
            let a: Vec<&str> = site.args.iter().map(|s| s.as_str()).collect();
            tool::run_cli(&a, &site.cwd)
        }
        RunPath::Buildrs => tool::run_buildrs(&site.cwd),
    }
}

fn command_line(site: &Site) -> String {
    match site.path {
        RunPath::Cli => format!("(cd <root>/ws && cargo-tauri-typegen tauri-typegen {})", site.args.join(" ")),
        RunPath::Buildrs => "(cd <root>/src-tauri && buildrs_driver)   # = tauri_typegen::BuildSystem::generate_at_build_time()".to_string(),
    }
}

// ------------------------------------------------------------------------------------------
// forced reference outputs, memoised per (path, model)

type Files = BTreeMap<String, String>;
/// Err = the forced run itself failed (text for the evidence)
type Reference = Result<Files, String>;

fn memo() -> &'static Mutex<HashMap<(RunPath, u32), Arc<Reference>>> {
    static M: OnceLock<Mutex<HashMap<(RunPath, u32), Arc<Reference>>>> = OnceLock::new();
    M.get_or_init(|| Mutex::new(HashMap::new()))
}

fn forced_run(path: RunPath, m: &Model) -> Reference {
    let root = fresh_dir("c08r");
    let site = materialise(&root, path, m, true);
    let out = run_site(&site);
    let res = if out.ok() {
        Ok(tool::read_dir_files(&site.out_dir))
    } else {
        Err(format!("status={:?} signal={:?} stderr={}", out.status, out.signal, crate::run::truncate(&out.stderr, 300)))
    };
    let _ = std::fs::remove_dir_all(&root);
    res
}

fn reference(path: RunPath, m: &Model, stats: &mut Stats) -> Arc<Reference> {
    if let Some(r) = memo().lock().unwrap().get(&(path, m.bits)) {
        return r.clone();
    }
    stats.count("forced_reference_runs", 1);
    let r = Arc::new(forced_run(path, m));
    memo().lock().unwrap().entry((path, m.bits)).or_insert(r).clone()
}

fn bytes_equal_modulo_timestamp(reference: &Files, actual: &Files) -> bool {
    reference.iter().all(|(name, text)| {
        if name == ".typecache" {
            return true;
        }
        match actual.get(name) {
            None => false,
            Some(a) => tool::strip_timestamp(a) == tool::strip_timestamp(text),
        }
    })
}

fn compare(reference: &Files, actual: &Files) -> Vec<String> {
    if bytes_equal_modulo_timestamp(reference, actual) {
        return vec![];
    }
    // the visualisation files are plain text: compared line by line
    let mut graph_diffs = vec![];
    for (name, text) in reference.iter().filter(|(n, _)| n.starts_with("dependency-graph.")) {
        match actual.get(name) {
            None => graph_diffs.push(format!("{}: missing", name)),
            Some(a) if a != text => {
                let (i, (want, got)) = text.lines().zip(a.lines().chain(std::iter::repeat(""))).enumerate().find(|(_, (x, y))| x != y).unwrap_or((0, ("", "")));
                graph_diffs.push(format!("{}: line {} is `{}`, a fresh generation writes `{}`", name, i + 1, got, want));
            }
            _ => {}
        }
    }
    let by_declaration = sandbox::compare_generated(reference, actual);
    if !by_declaration.is_empty() || !graph_diffs.is_empty() {
        return by_declaration.into_iter().chain(graph_diffs).collect();
    }
    // same declarations, different bytes: since the emission order is deterministic, a different
    // order is stale content too
    reference
        .iter()
        .filter(|(name, text)| name.ends_with(".ts") && actual.get(*name).map_or(false, |a| tool::strip_timestamp(a) != tool::strip_timestamp(text)))
        .map(|(name, _)| format!("{}: same declarations, but in an order (or layout) a fresh generation does not produce", name))
        .collect()
}

/// do the declarations two forced runs produce differ? (used to classify an edit as output-affecting)
fn reference_differs(a: &Reference, b: &Reference) -> bool {
    match (a, b) {
        (Ok(x), Ok(y)) => !compare(x, y).is_empty() || !compare(y, x).is_empty(),
        _ => true,
    }
}

// ------------------------------------------------------------------------------------------
// one history

#[derive(Clone, Debug, PartialEq, Eq, Hash)]
pub struct History {
    pub path: RunPath,
    pub start_zod: bool,
    pub edits: Vec<usize>,
}

impl History {
    pub fn to_json(&self) -> Value {
        json!({"path": self.path.name(), "start_mode": if self.start_zod { "zod" } else { "none" }, "edits": self.edits.iter().map(|e| EDITS[*e].name).collect::<Vec<_>>()})
    }
    pub fn from_json(v: &Value) -> Option<History> {
        let path = RunPath::parse(v["path"].as_str()?)?;
        let start_zod = v["start_mode"].as_str()? == "zod";
        let mut edits = vec![];
        for e in v["edits"].as_array()? {
            edits.push(edit_index(e.as_str()?)?);
        }
        Some(History { path, start_zod, edits })
    }
}

/// `known` is only consulted while proptest shrinks (`stats.frozen`): the history then stops at
/// the first failure no known-findings entry covers, which keeps a shrink step cheap.
pub fn run_history(h: &History, known: &dyn Fn(&Failure) -> bool, stats: &mut Stats) -> Vec<Failure> {
    let root = fresh_dir("c08h");
    let fails = run_history_in(&root, h, known, stats);
    let _ = std::fs::remove_dir_all(&root);
    fails
}

fn run_history_in(root: &Path, h: &History, known: &dyn Fn(&Failure) -> bool, stats: &mut Stats) -> Vec<Failure> {
    let mut fails = vec![];
    let mut model = Model::start(h.start_zod);
    let mut log: Vec<Value> = vec![];
    // edits applied since the output was last verified to be current
    let mut pending: Vec<usize> = vec![];
    let mut affecting_edit_followed_by_run = false;
    let mut prev_ref: Option<Arc<Reference>> = None;
    // set by a `force_next` step: the run after the following edit is forced
    let mut force_armed = false;

    for step in 0..=h.edits.len() {
        let mut force_this_run = false;
        let mut last_edit: Option<usize> = None;
        let mut deleted_existing = false;
        if step > 0 {
            let e = h.edits[step - 1];
            last_edit = Some(e);
            pending.push(e);
            log.push(json!({"edit": EDITS[e].name, "what": EDITS[e].what}));
            stats.label(&format!("edit={}", EDITS[e].name));
            match deleted_file(e) {
                Some(name) => {
                    // the output directory of this path
                    let out_dir = match h.path {
                        RunPath::Cli => root.join("ws").join("out"),
                        RunPath::Buildrs => root.join("src").join("generated"),
                    };
                    let p = out_dir.join(name);
                    if p.exists() {
                        deleted_existing = true;
                        if let Err(err) = std::fs::remove_file(&p) {
                            infra_exit(&format!("cannot remove {}: {}", p.display(), err));
                        }
                    }
                }
                None if EDITS[e].kind == EditKind::ForceNext => {
                    force_armed = true;
                    pending.pop();
                }
                None => {
                    model.toggle(e);
                    force_this_run = force_armed;
                    force_armed = false;
                }
            }
        }
        let site = materialise(root, h.path, &model, force_this_run);
        let before = sandbox::snapshot(&site.out_dir);
        let out = run_site(&site);
        let after = sandbox::snapshot(&site.out_dir);
        let wrote = !sandbox::diff(&before, &after).is_empty();
        stats.eval();
        if force_this_run {
            stats.label("run:forced_inside_history");
        }
        log.push(json!({"run": h.path.name(), "force": force_this_run, "command": command_line(&site), "exit": out.status, "wrote_files": wrote}));

        let r = reference(h.path, &model, stats);
        if step > 0 {
            let affecting = match &prev_ref {
                Some(p) => deleted_existing || reference_differs(p, &r),
                None => deleted_existing,
            };
            if affecting {
                affecting_edit_followed_by_run = true;
                stats.label("edit_kind:output_affecting");
            } else {
                stats.label("edit_kind:not_output_affecting");
            }
        }
        prev_ref = Some(r.clone());

        if !out.ok() {
            if step == 0 {
                // the base project is known to generate in both modes on both paths; anything else
                // is a broken set-up (or a tool defect outside this property): inconclusive
                infra_exit(&format!("the initial generation of the base project failed on path {} (mode {}): status={:?} signal={:?} stderr={}", h.path.name(), model.mode(), out.status, out.signal, out.stderr));
            }
            // the property only speaks about runs that report success
            stats.label("run:failed_not_checked");
            continue;
        }
        let reference_files = match &*r {
            Ok(f) => f,
            Err(_) => {
                stats.label("run:reference_failed_not_checked");
                continue;
            }
        };
        let actual = tool::read_dir_files(&site.out_dir);
        let mut diffs = compare(reference_files, &actual);
        if !diffs.is_empty() {
            // guard against a reference that is not a function of the model (that would be
            // C13's finding, not staleness): a second, fresh forced run must disagree as well
            stats.count("forced_reference_runs", 1);
            match forced_run(h.path, &model) {
                Ok(fresh) => {
                    let d2 = compare(&fresh, &actual);
                    if d2.is_empty() {
                        stats.count("reference_not_reproducible", 1);
                        diffs.clear();
                    }
                }
                Err(_) => {
                    stats.count("reference_not_reproducible", 1);
                    diffs.clear();
                }
            }
        }
        if diffs.is_empty() {
            stats.label(if wrote { "run:regenerated_current" } else { "run:skipped_current" });
            pending.clear();
            continue;
        }
        stats.label(if wrote { "run:regenerated_stale" } else { "run:skipped_stale" });
        let missing: Vec<&String> = diffs.iter().filter(|d| d.ends_with(": missing")).collect();
        let kind = if !missing.is_empty() { "missing_file" } else { "stale_content" };
        let mut tags: Vec<String> = vec![
            format!("path={}", h.path.name()),
            format!("mode={}", model.mode()),
            format!("start_mode={}", if h.start_zod { "zod" } else { "none" }),
            format!("len={}", h.edits.len()),
            format!("step={}", step),
            format!("cache={}", if wrote { "miss" } else { "hit" }),
        ];
        let mut seen = std::collections::BTreeSet::new();
        for e in &pending {
            if seen.insert(*e) {
                tags.push(format!("edit={}", EDITS[*e].name));
            }
        }
        tags.push(format!("last_edit={}", last_edit.map(|e| EDITS[e].name).unwrap_or("none")));
        if pending.len() == 1 {
            tags.push(format!("only_edit={}", EDITS[pending[0]].name));
        }
        let mut files_seen = std::collections::BTreeSet::new();
        for d in &diffs {
            let file = d.split(':').next().unwrap_or("").to_string();
            if files_seen.insert(file.clone()) {
                tags.push(format!("stale_file={}", file));
            }
        }
        for d in diffs.iter().take(6) {
            // "<file>: declaration <key> differs…" / "… missing" / "<file>: stale declaration <key>"
            let mut it = d.splitn(2, ": ");
            let file = it.next().unwrap_or("");
            let rest = it.next().unwrap_or("");
            let key = rest.strip_prefix("declaration ").or_else(|| rest.strip_prefix("stale declaration ")).map(|s| s.split(' ').next().unwrap_or(""));
            if let Some(k) = key {
                tags.push(format!("stale_decl={}:{}", file, k));
            }
        }
        let src = render_sources(&model);
        let case = json!({
            "history": log.clone(),
            "path": h.path.name(),
            "start_mode": if h.start_zod { "zod" } else { "none" },
            "edits": h.edits.iter().map(|e| EDITS[*e].name).collect::<Vec<_>>(),
            "failing_step": step,
            "initial_sources": render_sources(&Model::start(h.start_zod)).iter().map(|(p, s)| (p.clone(), Value::String(s.clone()))).collect::<serde_json::Map<String, Value>>(),
            "edits_since_output_was_last_current": pending.iter().map(|e| EDITS[*e].name).collect::<Vec<_>>(),
            "current_sources": src.iter().map(|(p, s)| (p.clone(), Value::String(s.clone()))).collect::<serde_json::Map<String, Value>>(),
            "current_config_files": site.config_files.iter().map(|(p, s)| (p.clone(), Value::String(s.clone()))).collect::<serde_json::Map<String, Value>>(),
            "layout": match h.path { RunPath::Cli => "<root>/ws/{proj/src/*.rs, cfg.json?, out/}", RunPath::Buildrs => "<root>/src-tauri/{tauri.conf.json, typegen.json?, src/*.rs}; output <root>/src/generated" },
            "command": command_line(&site),
            "reference_command": format!("{}   # same, with force ({}) into an empty output directory", command_line(&site), match h.path { RunPath::Cli => "--force", RunPath::Buildrs => "\"force\": true" }),
            "run_stdout": crate::run::truncate(&out.stdout, 400),
            "differences": diffs.clone(),
            "output_files_present": actual.keys().cloned().collect::<Vec<_>>(),
        });
        fails.push(
            Failure::new(kind)
                .tags(tags)
                .observed(format!("run exited 0 ({}) but: {}", if wrote { "it wrote files" } else { "it wrote nothing: cache hit" }, diffs.join(" ;; ")))
                .expected("every file a forced run on the current sources and configuration writes exists in the output directory with the same declarations")
                .case(case),
        );
        // output stays stale: later steps are attributed to all pending edits
        if stats.frozen && fails.last().map_or(false, |f| !known(f)) {
            break;
        }
    }
    if affecting_edit_followed_by_run {
        stats.nontrivial(&(h.path.name(), h.start_zod, &h.edits));
    }
    stats.sample(|| json!({"history": log, "failures": fails.len()}));
    fails
}

// ------------------------------------------------------------------------------------------
// enumeration and random search

pub fn all_histories(max_len: usize, start_modes: &[bool]) -> Vec<History> {
    let n = EDITS.len();
    let mut out = vec![];
    for len in 0..=max_len {
        let total = n.pow(len as u32);
        for code in 0..total {
            let mut edits = Vec::with_capacity(len);
            let mut c = code;
            for _ in 0..len {
                edits.push(c % n);
                c /= n;
            }
            edits.reverse();
            for path in [RunPath::Cli, RunPath::Buildrs] {
                for z in start_modes {
                    out.push(History { path, start_zod: *z, edits: edits.clone() });
                }
            }
        }
    }
    out
}

fn random_history(t: &mut Tape) -> History {
    let path = if t.bool() { RunPath::Buildrs } else { RunPath::Cli };
    let start_zod = t.bool();
    let len = t.range(4, 6);
    let edits = (0..len).map(|_| t.pick(EDITS.len())).collect();
    History { path, start_zod, edits }
}

pub fn run(ctx: &Ctx) {
    let max_len = ctx.tier.pick(2usize, 3usize);
    let random_cases = ctx.tier.pick(0u32, 2000u32);
    ctx.set_rule(&format!(
        "base project (2 files, 4 commands, struct User + enum Kind + struct Progress + payload-only structs Audit/AuditDetail, three events, one channel, one validator, one externally defined field type) and {} edit classes ({}), each an idempotent toggle; history = generate, then (edit, run)* where every run is non-forced except the one after an edit that follows `force_next`; quick tier additionally all [force_next, e, e] (edit + forced run, edit taken back + non-forced run); ALL edit sequences of length <= {} x 2 entry points (cli: real binary with flags or -c cfg.json; buildrs: BuildSystem::generate_at_build_time with tauri.conf.json or typegen.json) x 2 starting modes (none, zod){}; evaluation = one non-forced run compared with a forced run of the same binary on the current sources/configuration into an empty directory (declaration maps; forced outputs memoised per model state); non-trivial = the history contains an edit that changes the forced output (or removes an existing generated file) followed by a run, distinct by (path, start mode, edit sequence)",
        EDITS.len(),
        EDITS.iter().map(|e| e.name).collect::<Vec<_>>().join(", "),
        max_len,
        if random_cases > 0 { format!("; plus {} random sequences of length 4..6", random_cases) } else { String::new() }
    ));
    ctx.set_exhaustive(true);
    ctx.assume("a forced run into an empty directory defines what 'current' output is (a mismatch is re-checked against a second, fresh forced run before it is reported)");
    ctx.assume("files are compared byte-wise after removing the timestamp line (so the order of declarations counts; the graph files line by line); declaration maps from the harness's TypeScript-subset parser only serve to name what differs");
    ctx.note("edit_classes", json!(EDITS.iter().map(|e| json!({"name": e.name, "kind": format!("{:?}", e.kind), "what": e.what})).collect::<Vec<_>>()));
    let keys = all_histories(max_len, &[false, true]);
    ctx.note("enumerated_histories", json!(keys.len()));
    ctx.enumerate("c08.enum", &keys, |h| h.to_json(), |h, stats| run_history(h, &|_| false, stats));
    // a forced run inside the history, then the edit taken back: [force_next, e, e] for every
    // toggle e (in the thorough tier these are part of the length-3 enumeration already)
    if max_len < 3 {
        let fnx = edit_index("force_next").unwrap();
        let mut forced = vec![];
        for (e, cls) in EDITS.iter().enumerate() {
            if matches!(cls.kind, EditKind::Source | EditKind::Config) {
                for path in [RunPath::Cli, RunPath::Buildrs] {
                    for z in [false, true] {
                        forced.push(History { path, start_zod: z, edits: vec![fnx, e, e] });
                    }
                }
            }
        }
        ctx.note("forced_inside_histories", json!(forced.len()));
        ctx.enumerate("c08.enum", &forced, |h| h.to_json(), |h, stats| run_history(h, &|_| false, stats));
    }
    if random_cases > 0 {
        let known = |f: &Failure| ctx.known.iter().any(|k| k.matches(f));
        ctx.search("c08.random", random_cases, 12, |tape, stats| {
            let h = random_history(tape);
            stats.label(&format!("random:len={}", h.edits.len()));
            run_history(&h, &known, stats)
        });
    }
}

pub fn replay(check: &str, input: &Value, stats: &mut Stats) -> Option<Vec<Failure>> {
    match check {
        "c08.enum" => {
            let h = History::from_json(input)?;
            Some(run_history(&h, &|_| false, stats))
        }
        "c08.random" => {
            let mut tape = Tape::new(super::tape_of(input));
            let h = random_history(&mut tape);
            Some(run_history(&h, &|_| false, stats))
        }
        _ => None,
    }
}
