//! C16 — only the tool's own files in the output directory are ever written or removed.
//!
//! A sandbox (decoded from the tape) holds an application (`ws/app/src-tauri` = the scanned
//! project, `ws/app/empty-proj` = a project without any command), sentinel files everywhere, and
//! an output directory placed inside / nested below / beside the project, pre-populated with
//! foreign files. A history of 1–4 runs (CLI generate, CLI init, build-script path) is executed;
//! the whole sandbox is snapshotted recursively before and after each run and every difference
//! must be covered by the property's allowance:
//!
//! * the output directory itself or one of its missing ancestors being *created*,
//! * a file directly inside the output directory whose name satisfies
//!   `sandbox::is_reserved_generated_name`,
//! * for `init`: the configuration file named on the command line.
//!
//! Anything else — content change, deletion, creation, or a rewrite that only shows in
//! mtime/inode — is a failure. Exit codes are irrelevant here (C17/C19 look at them).

use crate::run::{Ctx, Failure, Stats};
use crate::sandbox::{self, Change, Entry, Snapshot};
use crate::tape::Tape;
use crate::tool;
use serde_json::{json, Value};
use std::path::{Component, Path, PathBuf};

// ------------------------------------------------------------------------------------------
// case description

/// where the output directory lives (paths relative to the sandbox root)
const PLACES: &[(&str, &str)] = &[
    // README layout: beside the project, below the frontend sources
    ("beside", "ws/app/src/generated"),
    // directly inside the scanned project
    ("inside", "ws/app/src-tauri/bindings"),
    // nested below the project's own source tree
    ("nested", "ws/app/src-tauri/src/gen/deep"),
    // outside the application altogether
    ("outside_app", "ws/out/gen"),
    // does not exist yet, nor does its parent (no foreign files inside, then)
    ("missing", "ws/app/frontend/lib/generated"),
];

const PATH_FORMS: &[&str] = &["rel", "rel_dot", "abs", "rel_slash", "abs_slash"];

/// class of a pool entry
#[derive(Clone, Copy, Debug, PartialEq, Eq, Hash)]
enum Cls {
    /// name close to a reserved one, but not reserved
    NearMiss,
    /// ordinary user file
    Plain,
    /// below a subdirectory of the output directory (never the tool's)
    Nested,
    /// genuinely reserved name: the tool may overwrite or delete it
    Reserved,
}

/// (relative path inside the output dir, class). A trailing '/' = empty directory,
/// "a -> b" = symlink.
const POOL: &[(&str, Cls)] = &[
    ("notes.md", Cls::Plain),
    (".write_test", Cls::NearMiss),
    ("types.tsx", Cls::NearMiss),
    ("Types.ts", Cls::NearMiss),
    ("mytypes.ts", Cls::NearMiss),
    ("index.js", Cls::NearMiss),
    ("commands.ts.bak", Cls::NearMiss),
    ("generated.ts", Cls::NearMiss),
    ("regenerated.ts", Cls::NearMiss),
    (".typecache.bak", Cls::NearMiss),
    ("types.tmp", Cls::NearMiss),
    ("dependency-graph.svg", Cls::NearMiss),
    ("types.custom.d.ts", Cls::NearMiss),
    ("index.legacy.d.ts", Cls::NearMiss),
    ("typesafe.d.ts", Cls::NearMiss),
    ("commands.mock.ts", Cls::NearMiss),
    ("bindings.test.ts", Cls::NearMiss),
    ("events.ts.orig", Cls::NearMiss),
    ("index.tmp", Cls::NearMiss),
    ("commands.tmp", Cls::NearMiss),
    (".typegen_write_test_1", Cls::NearMiss),
    ("custom.ts", Cls::Plain),
    ("README.md", Cls::Plain),
    ("sub/types.ts", Cls::Nested),
    ("sub/.typecache", Cls::Nested),
    ("sub/deep/index.ts", Cls::Nested),
    ("assets/", Cls::Plain),
    ("latest.ts -> notes.md", Cls::Plain),
    ("bindings.ts", Cls::Reserved),
    ("models.d.ts", Cls::Reserved),
    ("generated_x.ts", Cls::Reserved),
    ("x_generated.ts", Cls::Reserved),
    ("types.ts", Cls::Reserved),
    ("schemas.ts", Cls::Reserved),
    (".typecache", Cls::Reserved),
];

const MAX_RUNS: usize = 4;

const PROJECT_VARIANTS: &[&str] = &["base", "minimal", "extra", "nocmd"];

#[derive(Clone, Debug, PartialEq, Eq, Hash)]
enum Run {
    /// `generate -p P -o O -v MODE [--visualize-deps] [--force] [--verbose]`
    CliGenerate { mode: String, nocmd: bool, viz: bool, force: bool, verbose: bool },
    /// `init -p P -g O -v MODE [-o FILE] [--force] [--visualize-deps]`
    /// config: "default" (P/tauri.conf.json), "tauri_explicit" (-o <P>/tauri.conf.json),
    /// "custom" (-o typegen.json), "custom_dir" (-o conf/typegen.json), "tauri_in_subdir"
    /// (-o staging/tauri.conf.json, exists), "tauri_in_new_subdir" (-o ./not-there/tauri.conf.json)
    CliInit { mode: String, config: String, force: bool, viz: bool, nocmd: bool },
    /// build-script path; the harness writes tauri.conf.json (an edit, before the snapshot)
    BuildRs { mode: String, nocmd: bool, viz: bool, force: bool },
}

impl Run {
    fn kind(&self) -> &'static str {
        match self {
            Run::CliGenerate { .. } => "cli_generate",
            Run::CliInit { .. } => "cli_init",
            Run::BuildRs { .. } => "buildrs",
        }
    }
    fn to_json(&self) -> Value {
        match self {
            Run::CliGenerate { mode, nocmd, viz, force, verbose } => json!({"run": "cli_generate", "mode": mode, "project_without_commands": nocmd, "visualize_deps": viz, "force": force, "verbose": verbose}),
            Run::CliInit { mode, config, force, viz, nocmd } => json!({"run": "cli_init", "mode": mode, "config": config, "force": force, "visualize_deps": viz, "project_without_commands": nocmd}),
            Run::BuildRs { mode, nocmd, viz, force } => json!({"run": "buildrs", "mode": mode, "project_without_commands": nocmd, "visualize_deps": viz, "force": force}),
        }
    }
}

#[derive(Clone, Debug, PartialEq, Eq, Hash)]
struct Case {
    variant: String,
    place: usize,
    path_form: String,
    /// cwd of CLI runs: "app" (ws/app) or "src-tauri" (ws/app/src-tauri); buildrs always src-tauri
    cli_cwd: String,
    /// indices into POOL
    pool: Vec<usize>,
    history: Vec<Run>,
}

impl Case {
    fn out_rel(&self) -> &'static str {
        PLACES[self.place].1
    }
    fn place_name(&self) -> &'static str {
        PLACES[self.place].0
    }
    fn foreign_count(&self) -> usize {
        if self.place_name() == "missing" {
            return 0;
        }
        self.pool.iter().filter(|i| POOL[**i].1 != Cls::Reserved && !POOL[**i].0.ends_with('/')).count()
    }
    fn near_miss_count(&self) -> usize {
        if self.place_name() == "missing" {
            return 0;
        }
        self.pool.iter().filter(|i| POOL[**i].1 == Cls::NearMiss).count()
    }
    fn nontrivial(&self) -> bool {
        self.foreign_count() >= 3 && self.near_miss_count() >= 1
    }
    fn to_json(&self) -> Value {
        json!({
            "project_variant": self.variant,
            "output_dir": {"place": self.place_name(), "relative_to_sandbox": self.out_rel(), "path_form": self.path_form},
            "cli_cwd": self.cli_cwd,
            "prepopulated": if self.place_name() == "missing" { vec![] } else { self.pool.iter().map(|i| POOL[*i].0).collect::<Vec<_>>() },
            "history": self.history.iter().map(|r| r.to_json()).collect::<Vec<_>>(),
        })
    }
}

fn gen_mode(t: &mut Tape) -> String {
    if t.bool() { "zod".into() } else { "none".into() }
}

fn gen_run(t: &mut Tape) -> Run {
    // listed simplest first; the build-script path gets a third of the weight
    match t.pick(9) {
        0 | 1 | 2 => Run::CliGenerate { mode: gen_mode(t), nocmd: t.chance(1, 5), viz: t.chance(1, 4), force: t.chance(1, 3), verbose: t.chance(1, 6) },
        3 | 4 | 5 => Run::BuildRs { mode: gen_mode(t), nocmd: t.chance(1, 4), viz: t.chance(1, 4), force: t.chance(1, 3) },
        _ => {
            let config = ["default", "tauri_explicit", "custom", "custom_dir", "tauri_in_subdir", "tauri_in_new_subdir", "tauri_dot_slash"][t.pick(7)].to_string();
            Run::CliInit { mode: gen_mode(t), config, force: t.chance(1, 2), viz: t.chance(1, 4), nocmd: t.chance(1, 6) }
        }
    }
}

/// Decoding is tier-independent (a replay file stores only the tape).
fn gen_case(t: &mut Tape) -> Case {
    // the history comes first on the tape, the pool last: a short tape still has a real history
    let n = t.range(1, MAX_RUNS);
    let history = (0..n).map(|_| gen_run(t)).collect();
    let variant = PROJECT_VARIANTS[{
        // base most of the time
        let k = t.pick(8);
        if k < 5 { 0 } else { k - 4 }
    }]
    .to_string();
    // "missing" is rare: it cannot hold foreign files
    let place = {
        let k = t.pick(13);
        if k >= 12 { 4 } else { k / 3 }
    };
    let path_form = PATH_FORMS[t.pick(PATH_FORMS.len())].to_string();
    let cli_cwd = if t.bool() { "src-tauri" } else { "app" }.to_string();
    let mut pool = vec![];
    for i in 0..POOL.len() {
        if t.chance(1, 2) {
            pool.push(i);
        }
    }
    Case { variant, place, path_form, cli_cwd, pool, history }
}

// ------------------------------------------------------------------------------------------
// sandbox construction

fn minimal_project() -> Vec<(String, String)> {
    vec![("src/lib.rs".to_string(), "#[tauri::command]\npub fn ping(count: u32) -> String {\n    String::new()\n}\n".to_string())]
}

fn nocmd_project() -> Vec<(String, String)> {
    vec![(
        "src/lib.rs".to_string(),
        "use serde::{Deserialize, Serialize};\n\n#[derive(Serialize, Deserialize)]\npub struct Lonely {\n    pub id: i32,\n    pub name: String,\n}\n\npub fn helper(x: i32) -> i32 {\n    x + 1\n}\n".to_string(),
    )]
}

fn project_files(variant: &str) -> Vec<(String, String)> {
    match variant {
        "minimal" => minimal_project(),
        "nocmd" => nocmd_project(),
        "extra" => {
            let mut f = sandbox::base_project();
            f.push(("src/extra.rs".to_string(), "#[tauri::command]\npub async fn count_users(active_only: bool) -> Result<u64, String> {\n    Ok(0)\n}\n".to_string()));
            f
        }
        _ => sandbox::base_project(),
    }
}

/// lexical normalisation (no file-system access): resolves `.` and `..`
fn normalize(p: &Path) -> PathBuf {
    let mut out = PathBuf::new();
    for c in p.components() {
        match c {
            Component::CurDir => {}
            Component::ParentDir => {
                out.pop();
            }
            other => out.push(other.as_os_str()),
        }
    }
    out
}

/// relative path from directory `from` to `to` (both absolute, normalised)
fn rel_path(from: &Path, to: &Path) -> String {
    let f: Vec<_> = from.components().collect();
    let t: Vec<_> = to.components().collect();
    let mut i = 0;
    while i < f.len() && i < t.len() && f[i] == t[i] {
        i += 1;
    }
    let mut parts: Vec<String> = vec![];
    for _ in i..f.len() {
        parts.push("..".into());
    }
    for c in &t[i..] {
        parts.push(c.as_os_str().to_string_lossy().to_string());
    }
    if parts.is_empty() {
        ".".into()
    } else {
        parts.join("/")
    }
}

/// how a path is spelled on the command line / in the configuration
fn spell(form: &str, cwd: &Path, target: &Path) -> String {
    let rel = rel_path(cwd, target);
    match form {
        "rel" => rel,
        "rel_dot" => {
            if rel.starts_with("..") || rel == "." {
                rel
            } else {
                format!("./{}", rel)
            }
        }
        "rel_slash" => format!("{}/", rel),
        "abs_slash" => format!("{}/", target.display()),
        _ => target.display().to_string(),
    }
}

struct Built {
    root: PathBuf,
    app: PathBuf,
    src_tauri: PathBuf,
    empty_proj: PathBuf,
    out: PathBuf,
}

fn write(p: &Path, content: &str) {
    if let Some(parent) = p.parent() {
        std::fs::create_dir_all(parent).unwrap_or_else(|e| crate::run::infra_exit(&format!("cannot create {}: {}", parent.display(), e)));
    }
    std::fs::write(p, content).unwrap_or_else(|e| crate::run::infra_exit(&format!("cannot write {}: {}", p.display(), e)));
}

fn tauri_conf(project: &str, out: &str, mode: &str, viz: bool, force: bool) -> String {
    serde_json::to_string_pretty(&json!({
        "productName": "app",
        "version": "0.1.0",
        "identifier": "com.example.app",
        "build": { "frontendDist": "../dist" },
        "plugins": {
            "shell": { "open": true },
            "typegen": { "projectPath": project, "outputPath": out, "validationLibrary": mode, "visualizeDeps": viz, "force": force }
        }
    }))
    .unwrap()
}

fn build_sandbox(case: &Case) -> Built {
    let root = tool::fresh_dir("c16_");
    let app = root.join("ws/app");
    let src_tauri = app.join("src-tauri");
    let empty_proj = app.join("empty-proj");
    let out = root.join(case.out_rel());
    std::fs::create_dir_all(&src_tauri).unwrap();
    tool::write_project(&src_tauri, &project_files(&case.variant));
    tool::write_project(&empty_proj, &nocmd_project());
    // sentinels: things the tool has no business touching, some with reserved names *outside*
    // the output directory
    write(&root.join("outside.txt"), "outside the workspace\n");
    write(&root.join("ws/types.ts"), "// a types.ts that is not the tool's\n");
    write(&root.join("ws/.typecache"), "{\"not\": \"yours\"}\n");
    write(&root.join("ws/out/keep.md"), "beside the output directory\n");
    write(&app.join("package.json"), "{ \"name\": \"app\" }\n");
    write(&app.join("src/main.ts"), "console.log('frontend');\n");
    write(&app.join("src/index.ts"), "export * from './main';\n");
    write(&src_tauri.join("Cargo.toml"), "[package]\nname = \"app\"\nversion = \"0.1.0\"\n");
    write(&src_tauri.join("types.ts"), "// stray file next to the sources\n");
    write(&src_tauri.join("src/commands.ts"), "// stray file inside the sources\n");
    write(&src_tauri.join("conf/keep.json"), "{}\n");
    write(&app.join("tauri.conf.json"), "{\n  \"productName\": \"not the project's\",\n  \"plugins\": {}\n}\n");
    write(&app.join("staging/tauri.conf.json"), "{\n  \"productName\": \"staging copy\",\n  \"plugins\": {}\n}\n");
    write(&empty_proj.join("tauri.conf.json"), &tauri_conf(".", "./never-used", "none", false, false));
    // initial configuration; every build-script run rewrites it (harness edit, before the snapshot)
    let out_spelled = spell(&case.path_form, &src_tauri, &out);
    write(&src_tauri.join("tauri.conf.json"), &tauri_conf(".", &out_spelled, "none", false, false));
    if case.place_name() != "missing" {
        std::fs::create_dir_all(&out).unwrap();
        for i in &case.pool {
            let (name, cls) = POOL[*i];
            if let Some(dir) = name.strip_suffix('/') {
                std::fs::create_dir_all(out.join(dir)).unwrap();
            } else if let Some((link, target)) = name.split_once(" -> ") {
                std::os::unix::fs::symlink(target, out.join(link)).unwrap_or_else(|e| crate::run::infra_exit(&format!("cannot create symlink: {}", e)));
            } else {
                let body = match cls {
                    Cls::Reserved if name == ".typecache" => "this is not a cache file\n".to_string(),
                    Cls::Reserved => format!("// stale file with the tool's own name {}\nexport const old = 1;\n", name),
                    _ => format!("// user file {} - must survive every run\nexport const mine = '{}';\n", name, name),
                };
                write(&out.join(name), &body);
            }
        }
    }
    Built { root, app, src_tauri, empty_proj, out }
}

// ------------------------------------------------------------------------------------------
// one run

struct Exec {
    cwd: PathBuf,
    /// rendered command line (for the case report)
    cmdline: String,
    /// configuration file `init` was pointed at (absolute, normalised)
    config_file: Option<PathBuf>,
    out: tool::ProcOut,
}

fn exec_run(case: &Case, b: &Built, run: &Run) -> (Snapshot, Exec, Snapshot) {
    let cli_cwd = if case.cli_cwd == "app" { b.app.clone() } else { b.src_tauri.clone() };
    match run {
        Run::CliGenerate { mode, nocmd, viz, force, verbose } => {
            let proj = if *nocmd { &b.empty_proj } else { &b.src_tauri };
            let p = spell(if case.path_form.starts_with("abs") { "abs" } else { "rel" }, &cli_cwd, proj);
            let o = spell(&case.path_form, &cli_cwd, &b.out);
            let mut args: Vec<String> = vec!["generate".into(), "-p".into(), p, "-o".into(), o, "-v".into(), mode.clone()];
            if *viz {
                args.push("--visualize-deps".into());
            }
            if *force {
                args.push("--force".into());
            }
            if *verbose {
                args.push("--verbose".into());
            }
            let before = sandbox::snapshot(&b.root);
            let argv: Vec<&str> = args.iter().map(|s| s.as_str()).collect();
            let out = tool::run_cli(&argv, &cli_cwd);
            let after = sandbox::snapshot(&b.root);
            (before, Exec { cwd: cli_cwd, cmdline: format!("cargo-tauri-typegen tauri-typegen {}", args.join(" ")), config_file: None, out }, after)
        }
        Run::CliInit { mode, config, force, viz, nocmd } => {
            let proj = if *nocmd { &b.empty_proj } else { &b.src_tauri };
            let p = spell(if case.path_form.starts_with("abs") { "abs" } else { "rel" }, &cli_cwd, proj);
            let g = spell(&case.path_form, &cli_cwd, &b.out);
            let mut args: Vec<String> = vec!["init".into(), "-p".into(), p.clone(), "-g".into(), g, "-v".into(), mode.clone()];
            // the file init is pointed at; for the default it is <project>/tauri.conf.json
            // (documented in run_init: "If output path is just tauri.conf.json (default), place it
            // in the project path")
            let config_file = match config.as_str() {
                "default" => proj.join("tauri.conf.json"),
                "tauri_explicit" => {
                    let f = proj.join("tauri.conf.json");
                    args.push("-o".into());
                    args.push(spell(if case.path_form.starts_with("abs") { "abs" } else { "rel_dot" }, &cli_cwd, &f));
                    f
                }
                "custom" => {
                    args.push("-o".into());
                    args.push("typegen.json".into());
                    cli_cwd.join("typegen.json")
                }
                // a file called tauri.conf.json that is NOT the project's: relative, with a
                // directory component; the directory holds such a file already / does not exist
                "tauri_in_subdir" => {
                    args.push("-o".into());
                    args.push("staging/tauri.conf.json".into());
                    cli_cwd.join("staging/tauri.conf.json")
                }
                // `./tauri.conf.json`: the file of that name in the working directory, which is the
                // project's own only when init runs inside the project
                "tauri_dot_slash" => {
                    args.push("-o".into());
                    args.push("./tauri.conf.json".into());
                    cli_cwd.join("tauri.conf.json")
                }
                "tauri_in_new_subdir" => {
                    args.push("-o".into());
                    args.push("./not-there/tauri.conf.json".into());
                    cli_cwd.join("not-there/tauri.conf.json")
                }
                _ => {
                    // directory `conf/` exists below src-tauri only: from cwd=app the save fails
                    args.push("-o".into());
                    args.push("conf/typegen.json".into());
                    cli_cwd.join("conf/typegen.json")
                }
            };
            if *force {
                args.push("--force".into());
            }
            if *viz {
                args.push("--visualize-deps".into());
            }
            let before = sandbox::snapshot(&b.root);
            let argv: Vec<&str> = args.iter().map(|s| s.as_str()).collect();
            let out = tool::run_cli(&argv, &cli_cwd);
            let after = sandbox::snapshot(&b.root);
            (before, Exec { cwd: cli_cwd, cmdline: format!("cargo-tauri-typegen tauri-typegen {}", args.join(" ")), config_file: Some(normalize(&config_file)), out }, after)
        }
        Run::BuildRs { mode, nocmd, viz, force } => {
            let cwd = b.src_tauri.clone();
            let proj = if *nocmd { "../empty-proj".to_string() } else { ".".to_string() };
            let o = spell(&case.path_form, &cwd, &b.out);
            // harness edit: the configuration the build script will read
            write(&cwd.join("tauri.conf.json"), &tauri_conf(&proj, &o, mode, *viz, *force));
            let before = sandbox::snapshot(&b.root);
            let out = tool::run_buildrs(&cwd);
            let after = sandbox::snapshot(&b.root);
            let cmdline = format!("buildrs_driver (BuildSystem::generate_at_build_time) with tauri.conf.json plugins.typegen = {{projectPath: {:?}, outputPath: {:?}, validationLibrary: {:?}, visualizeDeps: {}, force: {}}}", proj, o, mode, viz, force);
            (before, Exec { cwd, cmdline, config_file: None, out }, after)
        }
    }
}

fn entry_str(e: Option<&Entry>) -> String {
    match e {
        None => "absent".into(),
        Some(Entry::Dir) => "directory".into(),
        Some(Entry::File { len, hash, .. }) => format!("file({} bytes, hash {:08x})", len, *hash as u32),
        Some(Entry::Symlink(t)) => format!("symlink -> {}", t),
        Some(Entry::Other) => "special file".into(),
    }
}

fn run_tags(case: &Case, run: &Run) -> Vec<String> {
    let mut t = vec![format!("run={}", run.kind()), format!("path={}", if matches!(run, Run::BuildRs { .. }) { "buildrs" } else { "cli" }), format!("place={}", case.place_name()), format!("pathform={}", case.path_form)];
    match run {
        Run::CliGenerate { mode, nocmd, viz, force, .. } | Run::BuildRs { mode, nocmd, viz, force } => {
            t.push(format!("mode={}", mode));
            t.push(format!("commands={}", if *nocmd || case.variant == "nocmd" { "none" } else { "some" }));
            t.push(format!("viz={}", viz));
            t.push(format!("force={}", force));
        }
        Run::CliInit { mode, config, force, viz, nocmd } => {
            t.push(format!("mode={}", mode));
            t.push(format!("commands={}", if *nocmd || case.variant == "nocmd" { "none" } else { "some" }));
            t.push(format!("viz={}", viz));
            t.push(format!("force={}", force));
            t.push(format!("init_config={}", config));
        }
    }
    t
}

/// Evaluate one sandbox: build it, execute the history, judge every difference.
fn eval_case(case: &Case, stats: &mut Stats) -> Vec<Failure> {
    let b = build_sandbox(case);
    let out_rel = case.out_rel().to_string();
    let out_prefix = format!("{}/", out_rel);
    let mut fails = vec![];
    let mut executed: Vec<Value> = vec![];
    if case.nontrivial() {
        stats.nontrivial(case);
    }
    stats.label(&format!("place:{}", case.place_name()));
    stats.label(&format!("pathform:{}", case.path_form));
    stats.label(&format!("project:{}", case.variant));
    stats.label(&format!("history_len:{}", case.history.len()));
    stats.label(if case.nontrivial() { "nontrivial:yes" } else { "nontrivial:no" });
    for (step, run) in case.history.iter().enumerate() {
        stats.eval();
        stats.label(&format!("run:{}", run.kind()));
        let (before, ex, after) = exec_run(case, &b, run);
        let changes = sandbox::diff(&before, &after);
        stats.label(if ex.out.ok() { "exit:0" } else { "exit:nonzero" });
        if ex.out.signal.is_some() {
            stats.label("exit:signal");
        }
        let cfg_rel: Option<String> = ex.config_file.as_ref().and_then(|f| f.strip_prefix(&b.root).ok().map(|p| p.to_string_lossy().to_string()));
        let wrote_reserved = changes.iter().any(|c| c.path().starts_with(&out_prefix));
        stats.label(if wrote_reserved { "effect:wrote_into_output_dir" } else if changes.is_empty() { "effect:nothing_changed" } else { "effect:other_only" });
        executed.push(json!({
            "step": step,
            "cwd": ex.cwd.strip_prefix(&b.root).map(|p| p.display().to_string()).unwrap_or_default(),
            "command": ex.cmdline.replace(&b.root.display().to_string(), "<SANDBOX>"),
            "exit": ex.out.status,
            "changes": changes.iter().map(|c| format!("{:?}", c)).collect::<Vec<_>>(),
        }));
        for ch in &changes {
            let p = ch.path();
            // (1) the output directory itself or a missing ancestor, being created
            let is_out_or_ancestor = p == out_rel || out_rel.starts_with(&format!("{}/", p));
            if is_out_or_ancestor {
                if matches!(ch, Change::Created(_)) {
                    continue;
                }
            } else if let Some(inner) = p.strip_prefix(&out_prefix) {
                // (2) a reserved name directly inside the output directory
                if !inner.contains('/') && sandbox::is_reserved_generated_name(inner) {
                    continue;
                }
            }
            // (3) init: the configuration file it was pointed at
            if let Some(c) = &cfg_rel {
                if p == c && !matches!(ch, Change::Deleted(_)) {
                    continue;
                }
            }
            // not covered by the property's allowance
            let inside = p.starts_with(&out_prefix);
            let basename = p.rsplit('/').next().unwrap_or(p).to_string();
            let (kind, change) = match (inside, ch) {
                (true, Change::Created(_)) => ("foreign_file_created", "created"),
                (true, Change::Deleted(_)) => ("foreign_file_deleted", "deleted"),
                (true, Change::Modified(_)) => ("foreign_file_modified", "modified"),
                (true, Change::Touched(_)) => ("foreign_file_modified", "touched"),
                (false, Change::Created(_)) => ("write_outside_output_dir", "created"),
                (false, Change::Deleted(_)) => ("write_outside_output_dir", "deleted"),
                (false, Change::Modified(_)) => ("write_outside_output_dir", "modified"),
                (false, Change::Touched(_)) => ("write_outside_output_dir", "touched"),
            };
            let whereabouts = if inside {
                if p[out_prefix.len()..].contains('/') { "output_subdir" } else { "output_dir" }
            } else if is_out_or_ancestor {
                "output_dir_itself"
            } else if p.starts_with("ws/app/src-tauri/src/") {
                "sources"
            } else if p.starts_with("ws/app/src-tauri/") || p.starts_with("ws/app/empty-proj/") {
                "project"
            } else if p.starts_with("ws/app/") {
                "app"
            } else {
                "elsewhere"
            };
            let mut case_json = case.to_json();
            case_json["sandbox_layout"] = json!("<SANDBOX>/ws/app/{src-tauri (project, holds tauri.conf.json), empty-proj (no commands), src, package.json}; output directory and its pre-populated files as listed");
            case_json["executed"] = json!(executed);
            case_json["failing_step"] = json!(step);
            case_json["offending_path"] = json!(p);
            case_json["stdout_tail"] = json!(crate::run::truncate(&ex.out.stdout.replace(&b.root.display().to_string(), "<SANDBOX>"), 600));
            case_json["stderr_tail"] = json!(crate::run::truncate(&ex.out.stderr.replace(&b.root.display().to_string(), "<SANDBOX>"), 600));
            fails.push(
                Failure::new(kind)
                    .tags(run_tags(case, run))
                    .tag(format!("file={}", basename))
                    .tag(format!("change={}", change))
                    .tag(format!("where={}", whereabouts))
                    .observed(format!("{} {}: before the run {}, after it {}", change, p, entry_str(before.get(p)), entry_str(after.get(p))))
                    .expected(format!(
                        "only <output dir>={} (created), reserved generated names directly inside it{} may change; {} is none of these and must stay byte-identical and unwritten",
                        out_rel,
                        cfg_rel.as_ref().map(|c| format!(", and the init configuration file {}", c)).unwrap_or_default(),
                        p
                    ))
                    .case(case_json),
            );
        }
    }
    stats.sample(|| {
        let mut v = case.to_json();
        v["executed"] = json!(executed);
        v["violations_in_this_sandbox"] = json!(fails.len());
        v
    });
    let _ = std::fs::remove_dir_all(&b.root);
    fails
}

pub fn run(ctx: &Ctx) {
    let max_runs = MAX_RUNS;
    let cases = ctx.tier.pick(4000u32, 60000u32);
    ctx.set_rule(&format!(
        "{} sandboxes decoded from proptest-supplied choice tapes: project variant (base / minimal / base+extra file / no commands) in ws/app/src-tauri plus a command-less project ws/app/empty-proj; output directory beside the project (ws/app/src/generated), inside it (src-tauri/bindings), nested below its sources (src-tauri/src/gen/deep), outside the app (ws/out/gen) or not yet existing with missing parents; spelled relative, ./relative, absolute, with trailing slash; pre-populated with each of {} pool entries with probability 1/2 (near-misses of reserved names, plain user files, nested files, an empty subdirectory, a symlink, and genuinely reserved names); sentinel files with reserved names outside the output directory; histories of 1..={} runs drawn from CLI generate (none/zod, project with or without commands, --visualize-deps, --force, --verbose), CLI init (default tauri.conf.json, explicit -o tauri.conf.json, custom -o file, -o into a directory, -o <dir>/tauri.conf.json relative to the working directory with the directory present or absent, -o ./tauri.conf.json; with/without --force) and the build-script path (tauri.conf.json written by the harness before the snapshot). Whole sandbox snapshotted (kind, content hash, length, mtime, inode, symlink target) before and after every run. evaluations = runs executed; non-trivial = sandbox whose output directory holds >= 3 foreign (non-reserved) files of which >= 1 is a near-miss of a reserved name, distinct by (layout, pool subset, history)",
        cases,
        POOL.len(),
        max_runs
    ));
    ctx.assume("writes outside the sandbox root (a fresh directory under /dev/shm) are not observed; the sandbox contains the project, the output directory, their parents and sibling directories");
    ctx.assume("the reserved-name predicate is the one quoted in the property text (sandbox::is_reserved_generated_name); symlinks bearing reserved names are not planted, so writes that follow a user-made symlink out of the output directory are out of scope");
    ctx.assume("a rewrite with identical bytes is detected through mtime (ns) or inode change");
    ctx.search("c16.sandboxes", cases, 160, |tape, stats| {
        let case = gen_case(tape);
        eval_case(&case, stats)
    });
}

pub fn replay(check: &str, input: &Value, stats: &mut Stats) -> Option<Vec<Failure>> {
    match check {
        "c16.sandboxes" => {
            let mut tape = Tape::new(super::tape_of(input));
            let case = gen_case(&mut tape);
            Some(eval_case(&case, stats))
        }
        _ => None,
    }
}
