//! C19 — configuration is preserved, round-trips, and obeys flag > file > default.
//!
//! (a) `c19.doc_inproc` / `c19.doc_init`: JSON documents from the tape x settings values; the
//!     document is written by this module's own writer, the tool saves its settings into it
//!     (`GenerateConfig::save_to_tauri_config` in-process, or the real `init` subcommand), and the
//!     result is re-read with this module's own parser and compared outside `plugins.typegen`
//!     (integers exactly, non-integers as correctly rounded f64, strings by code points, key
//!     order ignored). `from_tauri_config` must return the settings that were written.
//! (b) `c19.precedence`: enumeration of flag subsets x file states x config source through the
//!     real `main`, in sandboxes where flag / file / default values are observably different.
//! (c) `c19.reject`: unsupported library / missing project path by flag or by file: exit != 0,
//!     an error message, nothing written.

use crate::run::{infra_exit, truncate, Ctx, Failure, Stats};
use crate::sandbox::{diff, snapshot, Change};
use crate::tape::Tape;
use crate::tool::{fresh_dir, guarded, run_cli, write_project, ProcOut};
use serde_json::{json, Value};
use std::collections::{BTreeMap, BTreeSet, HashMap, HashSet};
use std::path::{Path, PathBuf};
use tauri_typegen::GenerateConfig;

// ---------------------------------------------------------------------------------------------
// an independent JSON model: numbers are kept as their literal text

#[derive(Clone, Debug, PartialEq)]
pub enum J {
    Null,
    Bool(bool),
    Num(String),
    Str(String),
    Arr(Vec<J>),
    Obj(Vec<(String, J)>),
}

impl J {
    pub fn get(&self, key: &str) -> Option<&J> {
        match self {
            J::Obj(m) => m.iter().find(|(k, _)| k == key).map(|(_, v)| v),
            _ => None,
        }
    }
    /// scalars 0, containers 1 + max(children)
    pub fn depth(&self) -> usize {
        match self {
            J::Arr(a) => 1 + a.iter().map(|x| x.depth()).max().unwrap_or(0),
            J::Obj(m) => 1 + m.iter().map(|(_, x)| x.depth()).max().unwrap_or(0),
            _ => 0,
        }
    }
}

fn hex4(v: u32, upper: bool) -> String {
    if upper {
        format!("\\u{:04X}", v)
    } else {
        format!("\\u{:04x}", v)
    }
}

/// Write a string literal; the escape style of every character is a tape choice.
fn write_str(s: &str, t: &mut Tape, out: &mut String) {
    out.push('"');
    for c in s.chars() {
        let cp = c as u32;
        let style = t.pick(4);
        match c {
            '"' => out.push_str(if style == 3 { "\\u0022" } else { "\\\"" }),
            '\\' => out.push_str(if style == 3 { "\\u005C" } else { "\\\\" }),
            '\n' if style < 3 => out.push_str("\\n"),
            '\t' if style < 3 => out.push_str("\\t"),
            '\r' if style < 3 => out.push_str("\\r"),
            '\u{8}' if style < 3 => out.push_str("\\b"),
            '\u{c}' if style < 3 => out.push_str("\\f"),
            _ if cp < 0x20 => out.push_str(&hex4(cp, style == 1)),
            '/' if style == 3 => out.push_str("\\/"),
            _ if cp < 0x80 => {
                if style == 3 && t.pick(4) == 3 {
                    out.push_str(&hex4(cp, false));
                } else {
                    out.push(c);
                }
            }
            _ if cp < 0x10000 => {
                if style >= 2 {
                    out.push_str(&hex4(cp, style == 3));
                } else {
                    out.push(c);
                }
            }
            _ => {
                if style >= 2 {
                    let v = cp - 0x10000;
                    out.push_str(&hex4(0xD800 + (v >> 10), style == 3));
                    out.push_str(&hex4(0xDC00 + (v & 0x3ff), style == 3));
                } else {
                    out.push(c);
                }
            }
        }
    }
    out.push('"');
}

/// Write a document; layout (compact / indented, spaces around ':') is chosen once per document.
pub fn write_doc(j: &J, t: &mut Tape) -> String {
    let indent = *t.choose(&[2usize, 0, 4, 1]);
    let space = t.pick(3) != 2;
    let mut out = String::new();
    fn nl(out: &mut String, indent: usize, level: usize) {
        if indent > 0 {
            out.push('\n');
            for _ in 0..indent * level {
                out.push(' ');
            }
        }
    }
    fn go(j: &J, t: &mut Tape, out: &mut String, indent: usize, space: bool, level: usize) {
        match j {
            J::Null => out.push_str("null"),
            J::Bool(b) => out.push_str(if *b { "true" } else { "false" }),
            J::Num(n) => out.push_str(n),
            J::Str(s) => write_str(s, t, out),
            J::Arr(a) => {
                out.push('[');
                for (i, x) in a.iter().enumerate() {
                    if i > 0 {
                        out.push(',');
                    }
                    nl(out, indent, level + 1);
                    go(x, t, out, indent, space, level + 1);
                }
                if !a.is_empty() {
                    nl(out, indent, level);
                }
                out.push(']');
            }
            J::Obj(m) => {
                out.push('{');
                for (i, (k, x)) in m.iter().enumerate() {
                    if i > 0 {
                        out.push(',');
                    }
                    nl(out, indent, level + 1);
                    write_str(k, t, out);
                    out.push(':');
                    if space {
                        out.push(' ');
                    }
                    go(x, t, out, indent, space, level + 1);
                }
                if !m.is_empty() {
                    nl(out, indent, level);
                }
                out.push('}');
            }
        }
    }
    go(j, t, &mut out, indent, space, 0);
    if indent > 0 && t.bool() {
        out.push('\n');
    }
    out
}

// independent parser (RFC 8259), numbers kept as text

struct P<'a> {
    s: &'a [u8],
    i: usize,
}

impl<'a> P<'a> {
    fn ws(&mut self) {
        while self.i < self.s.len() && matches!(self.s[self.i], b' ' | b'\n' | b'\r' | b'\t') {
            self.i += 1;
        }
    }
    fn err<T>(&self, m: &str) -> Result<T, String> {
        Err(format!("{} at byte {}", m, self.i))
    }
    fn lit(&mut self, w: &str, v: J) -> Result<J, String> {
        if self.s[self.i..].starts_with(w.as_bytes()) {
            self.i += w.len();
            Ok(v)
        } else {
            self.err("bad literal")
        }
    }
    fn hex(&mut self) -> Result<u32, String> {
        if self.i + 4 > self.s.len() {
            return self.err("short \\u escape");
        }
        let h = std::str::from_utf8(&self.s[self.i..self.i + 4]).map_err(|_| "bad hex".to_string())?;
        let v = u32::from_str_radix(h, 16).map_err(|_| format!("bad hex at byte {}", self.i))?;
        self.i += 4;
        Ok(v)
    }
    fn string(&mut self) -> Result<String, String> {
        // at opening quote
        self.i += 1;
        let mut out = String::new();
        loop {
            if self.i >= self.s.len() {
                return self.err("unterminated string");
            }
            let b = self.s[self.i];
            match b {
                b'"' => {
                    self.i += 1;
                    return Ok(out);
                }
                b'\\' => {
                    self.i += 1;
                    if self.i >= self.s.len() {
                        return self.err("unterminated escape");
                    }
                    let e = self.s[self.i];
                    self.i += 1;
                    match e {
                        b'"' => out.push('"'),
                        b'\\' => out.push('\\'),
                        b'/' => out.push('/'),
                        b'b' => out.push('\u{8}'),
                        b'f' => out.push('\u{c}'),
                        b'n' => out.push('\n'),
                        b'r' => out.push('\r'),
                        b't' => out.push('\t'),
                        b'u' => {
                            let hi = self.hex()?;
                            if (0xD800..0xDC00).contains(&hi) {
                                if self.s[self.i..].starts_with(b"\\u") {
                                    self.i += 2;
                                    let lo = self.hex()?;
                                    if !(0xDC00..0xE000).contains(&lo) {
                                        return self.err("lone high surrogate");
                                    }
                                    let cp = 0x10000 + ((hi - 0xD800) << 10) + (lo - 0xDC00);
                                    out.push(char::from_u32(cp).ok_or("bad code point")?);
                                } else {
                                    return self.err("lone high surrogate");
                                }
                            } else if (0xDC00..0xE000).contains(&hi) {
                                return self.err("lone low surrogate");
                            } else {
                                out.push(char::from_u32(hi).ok_or("bad code point")?);
                            }
                        }
                        _ => return self.err("bad escape"),
                    }
                }
                0..=0x1f => return self.err("raw control character in string"),
                _ => {
                    // copy one UTF-8 scalar
                    let rest = std::str::from_utf8(&self.s[self.i..]).map_err(|_| format!("invalid UTF-8 at byte {}", self.i))?;
                    let c = rest.chars().next().unwrap();
                    out.push(c);
                    self.i += c.len_utf8();
                }
            }
        }
    }
    fn number(&mut self) -> Result<J, String> {
        let st = self.i;
        if self.s[self.i] == b'-' {
            self.i += 1;
        }
        let d0 = self.i;
        while self.i < self.s.len() && self.s[self.i].is_ascii_digit() {
            self.i += 1;
        }
        if self.i == d0 {
            return self.err("digits expected");
        }
        if self.s[d0] == b'0' && self.i - d0 > 1 {
            return self.err("leading zero");
        }
        if self.i < self.s.len() && self.s[self.i] == b'.' {
            self.i += 1;
            let f0 = self.i;
            while self.i < self.s.len() && self.s[self.i].is_ascii_digit() {
                self.i += 1;
            }
            if self.i == f0 {
                return self.err("fraction digits expected");
            }
        }
        if self.i < self.s.len() && matches!(self.s[self.i], b'e' | b'E') {
            self.i += 1;
            if self.i < self.s.len() && matches!(self.s[self.i], b'+' | b'-') {
                self.i += 1;
            }
            let e0 = self.i;
            while self.i < self.s.len() && self.s[self.i].is_ascii_digit() {
                self.i += 1;
            }
            if self.i == e0 {
                return self.err("exponent digits expected");
            }
        }
        Ok(J::Num(String::from_utf8_lossy(&self.s[st..self.i]).to_string()))
    }
    fn value(&mut self, depth: usize) -> Result<J, String> {
        if depth > 200 {
            return self.err("too deep");
        }
        self.ws();
        if self.i >= self.s.len() {
            return self.err("value expected");
        }
        match self.s[self.i] {
            b'n' => self.lit("null", J::Null),
            b't' => self.lit("true", J::Bool(true)),
            b'f' => self.lit("false", J::Bool(false)),
            b'"' => Ok(J::Str(self.string()?)),
            b'[' => {
                self.i += 1;
                let mut a = vec![];
                self.ws();
                if self.i < self.s.len() && self.s[self.i] == b']' {
                    self.i += 1;
                    return Ok(J::Arr(a));
                }
                loop {
                    a.push(self.value(depth + 1)?);
                    self.ws();
                    match self.s.get(self.i) {
                        Some(b',') => self.i += 1,
                        Some(b']') => {
                            self.i += 1;
                            return Ok(J::Arr(a));
                        }
                        _ => return self.err("',' or ']' expected"),
                    }
                }
            }
            b'{' => {
                self.i += 1;
                let mut m = vec![];
                self.ws();
                if self.i < self.s.len() && self.s[self.i] == b'}' {
                    self.i += 1;
                    return Ok(J::Obj(m));
                }
                loop {
                    self.ws();
                    if self.s.get(self.i) != Some(&b'"') {
                        return self.err("key expected");
                    }
                    let k = self.string()?;
                    self.ws();
                    if self.s.get(self.i) != Some(&b':') {
                        return self.err("':' expected");
                    }
                    self.i += 1;
                    let v = self.value(depth + 1)?;
                    m.push((k, v));
                    self.ws();
                    match self.s.get(self.i) {
                        Some(b',') => self.i += 1,
                        Some(b'}') => {
                            self.i += 1;
                            return Ok(J::Obj(m));
                        }
                        _ => return self.err("',' or '}' expected"),
                    }
                }
            }
            b'-' | b'0'..=b'9' => self.number(),
            _ => self.err("unexpected character"),
        }
    }
}

pub fn parse_json(text: &str) -> Result<J, String> {
    let mut p = P { s: text.as_bytes(), i: 0 };
    let v = p.value(0)?;
    p.ws();
    if p.i != p.s.len() {
        return p.err("trailing characters");
    }
    Ok(v)
}

fn is_int_literal(n: &str) -> bool {
    !n.contains(|c| c == '.' || c == 'e' || c == 'E')
}

/// Do two number literals denote the same value? Integer literals are exact (i128); everything
/// else is the correctly rounded f64 (`str::parse`); an integer literal equals a non-integer
/// literal only when that f64 is integral and converts to exactly the same integer.
pub fn same_number(a: &str, b: &str) -> bool {
    let int = |s: &str| s.parse::<i128>().ok();
    let flt = |s: &str| s.parse::<f64>().ok();
    let mixed = |i: &str, f: &str| match (int(i), flt(f)) {
        (Some(iv), Some(fv)) => fv.is_finite() && fv.fract() == 0.0 && fv.abs() < 1.0e30 && (fv as i128) == iv,
        _ => false,
    };
    match (is_int_literal(a), is_int_literal(b)) {
        (true, true) => int(a).is_some() && int(a) == int(b),
        (false, false) => match (flt(a), flt(b)) {
            (Some(x), Some(y)) => x == y,
            _ => false,
        },
        (true, false) => mixed(a, b),
        (false, true) => mixed(b, a),
    }
}

#[derive(Clone, Debug)]
pub struct Diff {
    pub path: String,
    /// int | float | string | scalar | structure | key_lost | key_added
    pub class: &'static str,
    pub orig: String,
    pub now: String,
}

fn brief(j: &J) -> String {
    match j {
        J::Null => "null".into(),
        J::Bool(b) => b.to_string(),
        J::Num(n) => n.clone(),
        J::Str(s) => format!("{:?}", s),
        J::Arr(a) => format!("array[{}]", a.len()),
        J::Obj(m) => format!("object{{{}}}", m.len()),
    }
}

/// compare `a` (original) and `b` (re-read); `skip` = key to ignore at this level
pub fn compare(path: &str, a: &J, b: &J, skip: Option<&str>, out: &mut Vec<Diff>) {
    match (a, b) {
        (J::Null, J::Null) => {}
        (J::Bool(x), J::Bool(y)) if x == y => {}
        (J::Num(x), J::Num(y)) => {
            if !same_number(x, y) {
                out.push(Diff { path: path.to_string(), class: if is_int_literal(x) { "int" } else { "float" }, orig: x.clone(), now: y.clone() });
            }
        }
        (J::Str(x), J::Str(y)) => {
            if !x.chars().eq(y.chars()) {
                out.push(Diff { path: path.to_string(), class: "string", orig: format!("{:?}", x), now: format!("{:?}", y) });
            }
        }
        (J::Arr(x), J::Arr(y)) => {
            if x.len() != y.len() {
                out.push(Diff { path: path.to_string(), class: "structure", orig: brief(a), now: brief(b) });
                return;
            }
            for (i, (p, q)) in x.iter().zip(y.iter()).enumerate() {
                compare(&format!("{}[{}]", path, i), p, q, None, out);
            }
        }
        (J::Obj(x), J::Obj(y)) => {
            let mut seen: HashSet<&str> = HashSet::new();
            for (k, _) in y {
                if !seen.insert(k.as_str()) {
                    out.push(Diff { path: format!("{}.{:?}", path, k), class: "structure", orig: "key once".into(), now: "key twice".into() });
                }
            }
            for (k, v) in x {
                if Some(k.as_str()) == skip {
                    continue;
                }
                match y.iter().find(|(k2, _)| k2 == k) {
                    None => out.push(Diff { path: format!("{}.{:?}", path, k), class: "key_lost", orig: brief(v), now: "(absent)".into() }),
                    Some((_, v2)) => compare(&format!("{}.{:?}", path, k), v, v2, None, out),
                }
            }
            for (k, v) in y {
                if Some(k.as_str()) == skip {
                    continue;
                }
                if !x.iter().any(|(k2, _)| k2 == k) {
                    out.push(Diff { path: format!("{}.{:?}", path, k), class: "key_added", orig: "(absent)".into(), now: brief(v) });
                }
            }
        }
        _ => {
            let class = match (a, b) {
                (J::Arr(_), _) | (J::Obj(_), _) | (_, J::Arr(_)) | (_, J::Obj(_)) => "structure",
                _ => "scalar",
            };
            out.push(Diff { path: path.to_string(), class, orig: brief(a), now: brief(b) });
        }
    }
}

// ---------------------------------------------------------------------------------------------
// document generator

#[derive(Clone, Debug, Default)]
pub struct DocInfo {
    pub non_ascii: bool,
    pub big_num: bool,
    pub nodes: usize,
    pub classes: BTreeSet<&'static str>,
}

const WORDS: &[&str] = &["a", "name", "version", "identifier", "build", "app", "bundle", "windows", "title", "url", "plugins", "typegen", "security", "csp", "icon", "x", ""];
const UNI: &[&str] = &["é", "ß", "ñ", "Ж", "日本", "語", "😀", "𝄞", "\u{2028}", "\u{feff}", "\u{ffff}", "\u{7f}", "\u{0}", "\u{1}", "\u{1f}", "\n", "\t", "\r", "\u{8}", "\u{c}", "\"", "\\", "/", " ", "\u{e000}", "\u{10ffff}", "ı", "İ"];

fn gen_string(t: &mut Tape, info: &mut DocInfo) -> String {
    let n = t.pick(6);
    let mut s = String::new();
    for _ in 0..n {
        match t.pick(3) {
            0 => s.push_str(WORDS[t.pick(WORDS.len())]),
            1 => {
                s.push((b'a' + t.pick(26) as u8) as char);
            }
            _ => s.push_str(UNI[t.pick(UNI.len())]),
        }
    }
    if !s.is_ascii() {
        info.non_ascii = true;
    }
    s
}

fn digits(t: &mut Tape, n: usize, first_nonzero: bool) -> String {
    let mut s = String::new();
    for i in 0..n {
        let d = if i == 0 && first_nonzero { 1 + t.pick(9) } else { t.pick(10) };
        s.push((b'0' + d as u8) as char);
    }
    s
}

const INT_EDGES: &[&str] = &[
    "0", "1", "-1", "42", "2147483647", "2147483648", "-2147483648", "-2147483649", "4294967296", "9007199254740991", "9007199254740992", "9007199254740993", "-9007199254740993", "9223372036854775807",
    "9223372036854775808", "-9223372036854775808", "-9223372036854775807", "18446744073709551615", "18446744073709551614", "10000000000000000000", "1000000000000000000", "-1000000000000000000",
    "12345678901234567890", "-0",
];

fn gen_number(t: &mut Tape, info: &mut DocInfo) -> String {
    let class = t.pick(6);
    let lit = match class {
        0 => {
            info.classes.insert("num:small_int");
            let v = t.pick(2000) as i64 - 1000;
            v.to_string()
        }
        1 => {
            info.classes.insert("num:int_edge");
            INT_EDGES[t.pick(INT_EDGES.len())].to_string()
        }
        2 => {
            info.classes.insert("num:random_64bit");
            let v = ((t.raw() as u64) << 32) | t.raw() as u64;
            if t.bool() {
                (v as i64).to_string()
            } else {
                v.to_string()
            }
        }
        3 => {
            // decimal, <= 17 significant digits, no exponent
            let ip = t.pick(9);
            let fp = 1 + t.pick(17 - ip);
            let sig = ip + fp;
            info.classes.insert(if sig <= 15 { "num:decimal<=15sig" } else { "num:decimal16-17sig" });
            let int_part = if ip == 0 { "0".to_string() } else { digits(t, ip, true) };
            format!("{}{}.{}", if t.pick(3) == 2 { "-" } else { "" }, int_part, digits(t, fp, false))
        }
        4 => {
            // exponent form
            let nd = 1 + t.pick(17);
            info.classes.insert(if nd <= 15 { "num:exp<=15sig" } else { "num:exp16-17sig" });
            let m = digits(t, nd, true);
            let mant = if nd > 1 && t.bool() { format!("{}.{}", &m[..1], &m[1..]) } else { m };
            let e = t.pick(581) as i32 - 290;
            let e = if t.pick(3) == 0 { e % 23 } else { e };
            let es = match t.pick(3) {
                0 => format!("e{}", e),
                1 => format!("E{}{}", if e >= 0 { "+" } else { "-" }, e.abs()),
                _ => format!("e{}{:02}", if e < 0 { "-" } else { "" }, e.abs()),
            };
            format!("{}{}{}", if t.pick(3) == 2 { "-" } else { "" }, mant, es)
        }
        _ => {
            info.classes.insert("num:float_edge");
            t.choose(&["0.0", "-0.0", "0e0", "1.0", "1e0", "1E2", "0.1", "0.30000000000000004", "1.7976931348623157e308", "5e-324", "2.2250738585072014e-308", "1e22", "1e23", "123456789012345678e-2", "4.35", "0.000001", "1e-7", "9007199254740993.0", "1e19", "3.14159"]).to_string()
        }
    };
    let big = if is_int_literal(&lit) { lit.parse::<i128>().map(|v| v.abs() > (1i128 << 31)).unwrap_or(false) } else { lit.parse::<f64>().map(|v| v.abs() > 2147483648.0).unwrap_or(false) };
    if big {
        info.big_num = true;
    }
    lit
}

fn gen_key(t: &mut Tape, used: &mut HashSet<String>, info: &mut DocInfo, forbid: &[&str]) -> String {
    let mut k = if t.pick(3) == 0 { gen_string(t, info) } else { WORDS[t.pick(WORDS.len())].to_string() };
    let mut n = 0;
    while used.contains(&k) || forbid.contains(&k.as_str()) {
        n += 1;
        k = format!("{}{}", k, n);
    }
    used.insert(k.clone());
    k
}

fn gen_value(t: &mut Tape, depth_left: usize, info: &mut DocInfo) -> J {
    info.nodes += 1;
    let c = if depth_left == 0 || info.nodes > 70 { 2 + t.pick(4) } else { t.pick(8) };
    match c {
        0 | 6 => gen_object(t, depth_left - 1, info, &[]),
        1 | 7 => {
            let n = t.pick(5);
            J::Arr((0..n).map(|_| gen_value(t, depth_left - 1, info)).collect())
        }
        2 => J::Str(gen_string(t, info)),
        3 => J::Num(gen_number(t, info)),
        4 => J::Bool(t.bool()),
        _ => J::Null,
    }
}

fn gen_object(t: &mut Tape, depth_left: usize, info: &mut DocInfo, forbid: &[&str]) -> J {
    let n = t.pick(5);
    let mut used = HashSet::new();
    let mut m = vec![];
    for _ in 0..n {
        let k = gen_key(t, &mut used, info, forbid);
        m.push((k, gen_value(t, depth_left, info)));
    }
    J::Obj(m)
}

fn gen_old_typegen(t: &mut Tape, info: &mut DocInfo) -> J {
    let mut m = vec![];
    if t.bool() {
        m.push(("projectPath".to_string(), J::Str("./old-src".into())));
    }
    if t.bool() {
        m.push(("outputPath".to_string(), J::Str(gen_string(t, info))));
    }
    if t.bool() {
        m.push(("validationLibrary".to_string(), J::Str(t.choose(&["zod", "none", "yup"]).to_string())));
    }
    if t.bool() {
        m.push(("verbose".to_string(), if t.bool() { J::Bool(true) } else { J::Str("yes".into()) }));
    }
    if t.bool() {
        m.push(("typeMappings".to_string(), J::Obj(vec![("Old".into(), J::Str("string".into()))])));
    }
    if t.bool() {
        m.push(("force".to_string(), J::Bool(true)));
    }
    if t.bool() {
        m.push(("unknownOldKey".to_string(), gen_value(t, 1, info)));
    }
    J::Obj(m)
}

pub const PLUGIN_MODES: &[&str] = &["absent", "empty", "others", "old_typegen", "others+old_typegen"];

/// root object; `plugins` absent / {} / other plugins / older typegen entry / both
pub fn gen_doc(t: &mut Tape) -> (J, &'static str, DocInfo) {
    let mut info = DocInfo::default();
    let mode = PLUGIN_MODES[t.pick(PLUGIN_MODES.len())];
    let n = t.pick(6);
    let mut used = HashSet::new();
    let mut m = vec![];
    let plugins_at = t.pick(n + 1);
    for i in 0..=n {
        if i == plugins_at && mode != "absent" {
            let mut pm = vec![];
            let mut pused: HashSet<String> = HashSet::new();
            if mode.starts_with("others") {
                let k = 1 + t.pick(3);
                for _ in 0..k {
                    let name = if t.pick(3) == 0 { gen_key(t, &mut pused, &mut info, &["typegen"]) } else { gen_key_from(t, &mut pused, &["shell", "fs", "updater", "http", "sql"]) };
                    pm.push((name, gen_value(t, 3, &mut info)));
                }
            }
            if mode.ends_with("old_typegen") {
                let at = t.pick(pm.len() + 1);
                pm.insert(at, ("typegen".to_string(), gen_old_typegen(t, &mut info)));
            }
            m.push(("plugins".to_string(), J::Obj(pm)));
        }
        if i < n {
            let k = gen_key(t, &mut used, &mut info, &["plugins"]);
            m.push((k, gen_value(t, 4, &mut info)));
        }
    }
    (J::Obj(m), mode, info)
}

fn gen_key_from(t: &mut Tape, used: &mut HashSet<String>, pool: &[&str]) -> String {
    let mut k = pool[t.pick(pool.len())].to_string();
    let mut n = 0;
    while used.contains(&k) {
        n += 1;
        k = format!("{}{}", pool[t.pick(pool.len())], n);
    }
    used.insert(k.clone());
    k
}

// ---------------------------------------------------------------------------------------------
// settings

#[derive(Clone, Debug)]
pub struct Settings {
    /// directory name (one path component) of the project, created below the scratch dir
    pub project_dir: String,
    pub output_path: String,
    pub lib: String,
    pub verbose: Option<bool>,
    pub visualize: Option<bool>,
    pub include_private: Option<bool>,
    pub type_mappings: Option<Vec<(String, String)>>,
    pub exclude: Option<Vec<String>>,
    pub include: Option<Vec<String>>,
    pub force: Option<bool>,
}

const PROJ_DIRS: &[&str] = &["src-tauri", "proj", "my proj", "prøj-é", "项目", "p\"q", "p\\q", "emoji😀dir", "a.b", "-p"];

fn opt_bool(t: &mut Tape) -> Option<bool> {
    match t.pick(3) {
        0 => None,
        1 => Some(false),
        _ => Some(true),
    }
}

fn opt_list(t: &mut Tape, info: &mut DocInfo) -> Option<Vec<String>> {
    match t.pick(3) {
        0 => None,
        1 => Some(vec![]),
        _ => {
            let n = 1 + t.pick(3);
            Some((0..n).map(|_| if t.bool() { t.choose(&["**/tests/**", "*.generated.rs", "src/**"]).to_string() } else { gen_string(t, info) }).collect())
        }
    }
}

pub fn gen_settings(t: &mut Tape, full: bool) -> Settings {
    let mut info = DocInfo::default();
    let project_dir = PROJ_DIRS[t.pick(PROJ_DIRS.len())].to_string();
    let output_path = match t.pick(4) {
        0 => "./src/generated".to_string(),
        1 => "../ui/src/bindings".to_string(),
        2 => format!("out/{}", gen_string(t, &mut info).replace('\u{0}', "").replace('/', "_")),
        _ => "gen é 😀".to_string(),
    };
    let lib = t.choose(&["none", "zod"]).to_string();
    let verbose = opt_bool(t);
    let visualize = opt_bool(t);
    if !full {
        return Settings { project_dir, output_path, lib, verbose, visualize, include_private: None, type_mappings: None, exclude: None, include: None, force: None };
    }
    let include_private = opt_bool(t);
    let type_mappings = match t.pick(3) {
        0 => None,
        1 => Some(vec![]),
        _ => {
            let n = 1 + t.pick(3);
            let mut used = HashSet::new();
            Some((0..n).map(|_| (gen_key(t, &mut used, &mut info, &[]), if t.bool() { "string".to_string() } else { gen_string(t, &mut info) })).collect())
        }
    };
    let exclude = opt_list(t, &mut info);
    let include = opt_list(t, &mut info);
    let force = opt_bool(t);
    Settings { project_dir, output_path, lib, verbose, visualize, include_private, type_mappings, exclude, include, force }
}

impl Settings {
    pub fn to_json(&self) -> Value {
        json!({"project_dir": self.project_dir, "output_path": self.output_path, "validation_library": self.lib, "verbose": self.verbose, "visualize_deps": self.visualize,
               "include_private": self.include_private, "type_mappings": self.type_mappings, "exclude_patterns": self.exclude, "include_patterns": self.include, "force": self.force})
    }
    pub fn to_config(&self, project_path: &str) -> GenerateConfig {
        let mut c = GenerateConfig::default();
        c.project_path = project_path.to_string();
        c.output_path = self.output_path.clone();
        c.validation_library = self.lib.clone();
        c.verbose = self.verbose;
        c.visualize_deps = self.visualize;
        c.include_private = self.include_private;
        c.type_mappings = self.type_mappings.as_ref().map(|v| v.iter().cloned().collect::<HashMap<_, _>>());
        c.exclude_patterns = self.exclude.clone();
        c.include_patterns = self.include.clone();
        c.force = self.force;
        c
    }
}

/// compare what `from_tauri_config` returned with what was written; returns (setting, expected, observed)
fn settings_mismatches(want: &GenerateConfig, got: &GenerateConfig) -> Vec<(&'static str, String, String)> {
    let mut out = vec![];
    let mut chk = |name: &'static str, a: String, b: String| {
        if a != b {
            out.push((name, a, b));
        }
    };
    chk("projectPath", format!("{:?}", want.project_path), format!("{:?}", got.project_path));
    chk("outputPath", format!("{:?}", want.output_path), format!("{:?}", got.output_path));
    chk("validationLibrary", format!("{:?}", want.validation_library), format!("{:?}", got.validation_library));
    chk("verbose", want.verbose.unwrap_or(false).to_string(), got.verbose.unwrap_or(false).to_string());
    chk("visualizeDeps", want.visualize_deps.unwrap_or(false).to_string(), got.visualize_deps.unwrap_or(false).to_string());
    chk("includePrivate", want.include_private.unwrap_or(false).to_string(), got.include_private.unwrap_or(false).to_string());
    let tm = |c: &GenerateConfig| format!("{:?}", c.type_mappings.as_ref().map(|m| m.iter().map(|(k, v)| (k.clone(), v.clone())).collect::<BTreeMap<_, _>>()));
    chk("typeMappings", tm(want), tm(got));
    chk("excludePatterns", format!("{:?}", want.exclude_patterns), format!("{:?}", got.exclude_patterns));
    chk("includePatterns", format!("{:?}", want.include_patterns), format!("{:?}", got.include_patterns));
    chk("force", want.force.unwrap_or(false).to_string(), got.force.unwrap_or(false).to_string());
    out
}

// ---------------------------------------------------------------------------------------------
// (a) preservation / round trip

struct DocCase {
    doc: J,
    text: String,
    mode: &'static str,
    info: DocInfo,
    settings: Settings,
}

fn gen_doc_case(t: &mut Tape, full_settings: bool) -> DocCase {
    let (doc, mode, info) = gen_doc(t);
    let settings = gen_settings(t, full_settings);
    let text = write_doc(&doc, t);
    // self-check of the harness' own writer and parser: they must agree with each other
    match parse_json(&text) {
        Ok(back) if back == doc => {}
        Ok(_) => infra_exit("C19 harness self-check: own JSON writer and parser disagree"),
        Err(e) => infra_exit(&format!("C19 harness self-check: own parser rejects own writer's output: {}", e)),
    }
    DocCase { doc, text, mode, info, settings }
}

fn doc_stats(c: &DocCase, path: &str, stats: &mut Stats) {
    stats.eval();
    stats.label(&format!("{}:plugins={}", path, c.mode));
    for cl in &c.info.classes {
        stats.label(&format!("doc:{}", cl));
    }
    // nesting below the root object >= 2, a non-ASCII string and a number outside +-2^31
    if c.doc.depth() >= 3 && c.info.non_ascii && c.info.big_num {
        stats.nontrivial(&("doc", path, &c.text));
        stats.label("doc:nontrivial");
    }
}

fn float_delta_tag(orig: &str, now: &str) -> &'static str {
    match (orig.parse::<f64>(), now.parse::<f64>()) {
        (Ok(a), Ok(b)) if a.is_finite() && b.is_finite() && (a < 0.0) == (b < 0.0) => {
            let d = (a.to_bits() as i128 - b.to_bits() as i128).abs();
            if d <= 4 {
                "delta<=4ulp"
            } else {
                "delta=large"
            }
        }
        _ => "delta=large",
    }
}

/// would a double-precision "fast path" (integer mantissa < 2^53 times/divided by an exactly
/// representable power of ten <= 10^22) convert this literal exactly?
fn exact_fast_path(lit: &str) -> bool {
    let m = lit.trim_start_matches('-');
    let mut parts = m.split(|c| c == 'e' || c == 'E');
    let mant = parts.next().unwrap_or("");
    let exp: i64 = parts.next().map(|e| e.trim_start_matches('+').parse().unwrap_or(0)).unwrap_or(0);
    let (ip, fp) = match mant.split_once('.') {
        Some((a, b)) => (a, b),
        None => (mant, ""),
    };
    let ds = format!("{}{}", ip, fp);
    let ds = ds.trim_start_matches('0');
    let d: u128 = if ds.is_empty() { 0 } else { ds.parse().unwrap_or(u128::MAX) };
    let e = exp - fp.len() as i64;
    d < (1u128 << 53) && e.abs() <= 22
}

fn sig_digits(lit: &str) -> usize {
    let m = lit.trim_start_matches('-');
    let m = m.split(|c| c == 'e' || c == 'E').next().unwrap_or("");
    let ds: String = m.chars().filter(|c| c.is_ascii_digit()).collect();
    ds.trim_start_matches('0').len()
}

/// compare the saved document with the original outside plugins.typegen
fn preservation_failures(c: &DocCase, after_text: &str, path_tag: &str, case: &Value) -> Vec<Failure> {
    let base = |kind: &str| Failure::new(kind).tag("part=preserve").tag(format!("path={}", path_tag)).tag(format!("plugins={}", c.mode)).case(case.clone());
    let after = match parse_json(after_text) {
        Ok(a) => a,
        Err(e) => return vec![base("document_corrupted").observed(format!("saved file is not valid JSON: {}; text: {}", e, truncate(after_text, 200))).expected("a JSON document")],
    };
    let mut diffs = vec![];
    match (&c.doc, &after) {
        (J::Obj(_), J::Obj(_)) => {
            compare("$", &c.doc, &after, Some("plugins"), &mut diffs);
            let empty = J::Obj(vec![]);
            let orig_plugins = c.doc.get("plugins").unwrap_or(&empty);
            match after.get("plugins") {
                Some(p @ J::Obj(_)) => {
                    compare("$.\"plugins\"", orig_plugins, p, Some("typegen"), &mut diffs);
                    if p.get("typegen").is_none() {
                        diffs.push(Diff { path: "$.\"plugins\".\"typegen\"".into(), class: "typegen_missing", orig: "(to be written)".into(), now: "(absent)".into() });
                    }
                }
                other => diffs.push(Diff { path: "$.\"plugins\"".into(), class: "typegen_missing", orig: "object".into(), now: other.map(brief).unwrap_or("(absent)".into()) }),
            }
        }
        _ => diffs.push(Diff { path: "$".into(), class: "structure", orig: brief(&c.doc), now: brief(&after) }),
    }
    let mut out = vec![];
    for d in diffs {
        let kind = match d.class {
            "key_lost" => "sibling_key_lost",
            "key_added" => "sibling_key_added",
            "typegen_missing" => "settings_not_written",
            _ => "sibling_value_changed",
        };
        let mut f = base(kind).tag(format!("value={}", d.class)).observed(format!("{} is now {}", d.path, d.now)).expected(format!("{} = {} (as in the original document)", d.path, d.orig));
        if d.class == "float" {
            f = f.tag(float_delta_tag(&d.orig, &d.now)).tag(if sig_digits(&d.orig) <= 15 { "sig<=15" } else { "sig=16-17" }).tag(if exact_fast_path(&d.orig) { "magnitude=fast_path_exact" } else { "magnitude=needs_big_arithmetic" });
        }
        out.push(f);
    }
    out
}

fn roundtrip_failures(c: &DocCase, conf: &Path, want: &GenerateConfig, path_tag: &str, case: &Value) -> Vec<Failure> {
    let base = |kind: &str| Failure::new(kind).tag("part=roundtrip").tag(format!("path={}", path_tag)).tag(format!("plugins={}", c.mode)).case(case.clone());
    match guarded(|| GenerateConfig::from_tauri_config(conf).map_err(|e| e.to_string())) {
        Err(p) => vec![base("panic").observed(p).expected("Ok(Some(settings))")],
        Ok(Err(e)) => vec![base("setting_not_round_tripped").tag("setting=all").observed(format!("from_tauri_config: Err({})", e)).expected("Ok(Some(the settings that were written))")],
        Ok(Ok(None)) => vec![base("setting_not_round_tripped").tag("setting=all").observed("from_tauri_config: Ok(None)").expected("Ok(Some(the settings that were written))")],
        Ok(Ok(Some(got))) => settings_mismatches(want, &got)
            .into_iter()
            .map(|(name, exp, obs)| base("setting_not_round_tripped").tag(format!("setting={}", name)).observed(format!("{} read back as {}", name, obs)).expected(format!("{} = {}", name, exp)))
            .collect(),
    }
}

fn render_case(c: &DocCase, extra: Value) -> Value {
    json!({"document": c.text, "plugins_mode": c.mode, "settings": c.settings.to_json(), "how": extra})
}

pub fn check_doc_inproc(t: &mut Tape, stats: &mut Stats) -> Vec<Failure> {
    let c = gen_doc_case(t, true);
    doc_stats(&c, "inproc", stats);
    let dir = fresh_dir("c19a");
    let proj = dir.join(&c.settings.project_dir);
    std::fs::create_dir_all(&proj).unwrap_or_else(|e| infra_exit(&format!("cannot create {}: {}", proj.display(), e)));
    let conf = dir.join("tauri.conf.json");
    std::fs::write(&conf, &c.text).unwrap_or_else(|e| infra_exit(&format!("cannot write {}: {}", conf.display(), e)));
    let want = c.settings.to_config(&proj.to_string_lossy());
    let case = render_case(&c, json!({"call": "GenerateConfig::save_to_tauri_config(<dir>/tauri.conf.json), then from_tauri_config", "project_path": "<dir>/<project_dir> (exists)"}));
    stats.sample(|| case.clone());
    let mut fails = vec![];
    let base = |kind: &str| Failure::new(kind).tag("part=preserve").tag("path=inproc").tag(format!("plugins={}", c.mode)).case(case.clone());
    match guarded(|| want.save_to_tauri_config(&conf).map_err(|e| e.to_string())) {
        Err(p) => fails.push(base("panic").observed(p).expected("Ok(())")),
        Ok(Err(e)) => fails.push(base("save_failed").observed(format!("Err({})", e)).expected("Ok(()) for a valid JSON document whose root and plugins are objects")),
        Ok(Ok(())) => {
            let after = std::fs::read_to_string(&conf).unwrap_or_default();
            fails.extend(preservation_failures(&c, &after, "inproc", &case));
            if !fails.iter().any(|f| f.kind == "document_corrupted" || f.kind == "settings_not_written") {
                fails.extend(roundtrip_failures(&c, &conf, &want, "inproc", &case));
            }
        }
    }
    let _ = std::fs::remove_dir_all(&dir);
    fails
}

const ONE_CMD: &str = "#[tauri::command]\npub fn hello(name: String) -> String { todo!() }\n";

pub fn check_doc_init(t: &mut Tape, stats: &mut Stats) -> Vec<Failure> {
    let c = gen_doc_case(t, false);
    let conf_elsewhere = t.pick(3) == 2;
    let with_command = t.pick(4) != 3;
    doc_stats(&c, "init", stats);
    let dir = fresh_dir("c19i");
    let proj = dir.join(&c.settings.project_dir);
    std::fs::create_dir_all(proj.join("src")).unwrap_or_else(|e| infra_exit(&format!("cannot create {}: {}", proj.display(), e)));
    if with_command {
        std::fs::write(proj.join("src/lib.rs"), ONE_CMD).unwrap();
    }
    let conf = if conf_elsewhere { dir.join("conf dir").join("tauri.conf.json") } else { proj.join("tauri.conf.json") };
    std::fs::create_dir_all(conf.parent().unwrap()).unwrap();
    std::fs::write(&conf, &c.text).unwrap_or_else(|e| infra_exit(&format!("cannot write {}: {}", conf.display(), e)));
    // output path below the scratch dir (init also runs a generation)
    let gen = dir.join("gen").join(c.settings.output_path.trim_start_matches("./").trim_start_matches("../"));
    let proj_s = proj.to_string_lossy().to_string();
    let gen_s = gen.to_string_lossy().to_string();
    let conf_s = conf.to_string_lossy().to_string();
    let mut args: Vec<String> = vec!["init".into(), "--project-path".into(), proj_s.clone(), "--generated-path".into(), gen_s.clone(), "--validation".into(), c.settings.lib.clone()];
    if c.settings.verbose == Some(true) {
        args.push("--verbose".into());
    }
    if c.settings.visualize == Some(true) {
        args.push("--visualize-deps".into());
    }
    if conf_elsewhere {
        args.push("--output".into());
        args.push(conf_s.clone());
    }
    let mut want = c.settings.to_config(&proj_s);
    want.output_path = gen_s.clone();
    let case = render_case(&c, json!({"command": format!("cargo-tauri-typegen tauri-typegen {}", args.join(" ")), "cwd": dir.display().to_string(), "tauri_conf": conf_s, "project_has_command": with_command}));
    stats.sample(|| case.clone());
    let argv: Vec<&str> = args.iter().map(|s| s.as_str()).collect();
    let out = run_cli(&argv, &dir);
    let mut fails = vec![];
    let base = |kind: &str| Failure::new(kind).tag("part=preserve").tag("path=init").tag(format!("plugins={}", c.mode)).case(case.clone());
    if !out.ok() {
        fails.push(base("init_failed").observed(format!("exit {:?}; stderr: {}", out.status, truncate(out.stderr.trim(), 300))).expected("exit 0: valid settings, existing tauri.conf.json"));
    } else {
        let after = std::fs::read_to_string(&conf).unwrap_or_default();
        fails.extend(preservation_failures(&c, &after, "init", &case));
        if !fails.iter().any(|f| f.kind == "document_corrupted" || f.kind == "settings_not_written") {
            fails.extend(roundtrip_failures(&c, &conf, &want, "init", &case));
        }
    }
    let _ = std::fs::remove_dir_all(&dir);
    fails
}

// ---------------------------------------------------------------------------------------------
// (b) precedence through the real main

#[derive(Clone, Debug, Hash, PartialEq, Eq)]
pub struct Scen {
    /// "conf" = ./tauri.conf.json with plugins.typegen; "cfile" = -c typegen.config.json
    pub source: String,
    pub flag_project: bool,
    /// "absent" | "valid" | "missing" (a directory that does not exist; only together with the flag)
    pub file_project: String,
    pub flag_output: bool,
    pub file_output: bool,
    /// "absent" | "none" | "zod"
    pub flag_lib: String,
    pub file_lib: String,
    pub flag_verbose: bool,
    /// "absent" | "false" | "true"
    pub file_verbose: String,
    pub flag_force: bool,
    pub file_force: String,
    /// naming variant of the sandbox
    pub sandbox: u8,
}

impl Scen {
    pub fn to_json(&self) -> Value {
        json!({"source": self.source, "flag_project": self.flag_project, "file_project": self.file_project, "flag_output": self.flag_output, "file_output": self.file_output,
               "flag_lib": self.flag_lib, "file_lib": self.file_lib, "flag_verbose": self.flag_verbose, "file_verbose": self.file_verbose, "flag_force": self.flag_force,
               "file_force": self.file_force, "sandbox": self.sandbox})
    }
    pub fn from_json(v: &Value) -> Option<Scen> {
        let s = |k: &str| v[k].as_str().map(String::from);
        Some(Scen {
            source: s("source")?,
            flag_project: v["flag_project"].as_bool()?,
            file_project: s("file_project")?,
            flag_output: v["flag_output"].as_bool()?,
            file_output: v["file_output"].as_bool()?,
            flag_lib: s("flag_lib")?,
            file_lib: s("file_lib")?,
            flag_verbose: v["flag_verbose"].as_bool()?,
            file_verbose: s("file_verbose")?,
            flag_force: v["flag_force"].as_bool()?,
            file_force: s("file_force")?,
            sandbox: v["sandbox"].as_u64()? as u8,
        })
    }
}

struct Names {
    proj_flag: String,
    proj_file: String,
    proj_missing: String,
    out_flag: String,
    out_file: String,
}

fn names(variant: u8, root: &Path) -> Names {
    let abs = |s: &str| root.join(s).to_string_lossy().to_string();
    match variant {
        0 => Names { proj_flag: "proj_flag".into(), proj_file: "proj_file".into(), proj_missing: "no_such_dir".into(), out_flag: "out_flag".into(), out_file: "out_file".into() },
        1 => Names { proj_flag: abs("proj_flag"), proj_file: abs("proj_file"), proj_missing: abs("no_such_dir"), out_flag: abs("out_flag"), out_file: abs("out_file") },
        2 => Names { proj_flag: "./dirs/flag proj é".into(), proj_file: "./dirs/file proj 日本".into(), proj_missing: "./dirs/nö such".into(), out_flag: "./o/flag out/ts".into(), out_file: "./o/file out 😀/ts".into() },
        3 => Names { proj_flag: "apps/desktop/src-tauri".into(), proj_file: "apps/mobile/src-tauri/".into(), proj_missing: "apps/none/src-tauri".into(), out_flag: "apps/desktop/src/generated/".into(), out_file: "apps/mobile/src/generated".into() },
        _ => Names { proj_flag: "../sb/proj_flag".into(), proj_file: "./proj_file/../proj_file".into(), proj_missing: "../sb/missing".into(), out_flag: "../sb/out_flag".into(), out_file: "./x/../out_file".into() },
    }
}
pub const SANDBOX_VARIANTS: u8 = 5;

fn cmd_src(name: &str) -> String {
    format!("#[tauri::command]\npub fn {}(id: i32) -> String {{ todo!() }}\n", name)
}

/// which output directories hold bindings, and what they say
struct Observed {
    outputs: Vec<&'static str>,
    projects: Vec<&'static str>,
    generator: Option<String>,
}

fn observe(root: &Path, n: &Names) -> Observed {
    let cands: [(&'static str, PathBuf); 3] = [("flag", root.join(&n.out_flag)), ("file", root.join(&n.out_file)), ("default", root.join("src/generated"))];
    let mut o = Observed { outputs: vec![], projects: vec![], generator: None };
    for (who, dir) in cands.iter() {
        if let Ok(text) = std::fs::read_to_string(dir.join("commands.ts")) {
            o.outputs.push(who);
            for (pw, cmd) in [("flag", "cmd_flag"), ("file", "cmd_file"), ("default", "cmd_default")] {
                if text.contains(&format!("'{}'", cmd)) || text.contains(&format!("\"{}\"", cmd)) {
                    if !o.projects.contains(&pw) {
                        o.projects.push(pw);
                    }
                }
            }
            if let Some(l) = text.lines().find(|l| l.trim_start().starts_with("* Generator:")) {
                o.generator = Some(l.trim_start().trim_start_matches("* Generator:").trim().to_string());
            }
        }
    }
    o
}

fn file_state_bool(s: &str) -> Option<bool> {
    match s {
        "true" => Some(true),
        "false" => Some(false),
        _ => None,
    }
}

pub fn check_precedence(sc: &Scen, stats: &mut Stats) -> Vec<Failure> {
    let top = fresh_dir("c19p");
    let root = top.join("sb");
    std::fs::create_dir_all(&root).unwrap_or_else(|e| infra_exit(&format!("cannot create sandbox: {}", e)));
    let n = names(sc.sandbox, &root);
    write_project(&root, &[("src-tauri/src/lib.rs".to_string(), cmd_src("cmd_default"))]);
    for (p, c) in [(&n.proj_flag, "cmd_flag"), (&n.proj_file, "cmd_file")] {
        let d = root.join(p).join("src");
        std::fs::create_dir_all(&d).unwrap_or_else(|e| infra_exit(&format!("cannot create {}: {}", d.display(), e)));
        std::fs::write(d.join("lib.rs"), cmd_src(c)).unwrap();
    }
    // the configuration file
    let camel = sc.source == "conf";
    let mut m = serde_json::Map::new();
    let key = |c: &str, s: &str| if camel { c.to_string() } else { s.to_string() };
    match sc.file_project.as_str() {
        "valid" => {
            m.insert(key("projectPath", "project_path"), json!(n.proj_file));
        }
        "missing" => {
            m.insert(key("projectPath", "project_path"), json!(n.proj_missing));
        }
        _ => {}
    }
    if sc.file_output {
        m.insert(key("outputPath", "output_path"), json!(n.out_file));
    }
    if sc.file_lib != "absent" {
        m.insert(key("validationLibrary", "validation_library"), json!(sc.file_lib));
    }
    if let Some(b) = file_state_bool(&sc.file_verbose) {
        m.insert("verbose".into(), json!(b));
    }
    if let Some(b) = file_state_bool(&sc.file_force) {
        m.insert("force".into(), json!(b));
    }
    let (conf_name, conf_body) = if camel { ("tauri.conf.json", json!({"productName": "app", "plugins": {"typegen": Value::Object(m)}})) } else { ("typegen.config.json", Value::Object(m)) };
    let conf_text = serde_json::to_string_pretty(&conf_body).unwrap();
    std::fs::write(root.join(conf_name), &conf_text).unwrap();
    // the command line
    let mut args: Vec<String> = vec!["generate".into()];
    if !camel {
        args.push("-c".into());
        args.push(conf_name.into());
    }
    if sc.flag_project {
        args.push("--project-path".into());
        args.push(n.proj_flag.clone());
    }
    if sc.flag_output {
        args.push("--output-path".into());
        args.push(n.out_flag.clone());
    }
    if sc.flag_lib != "absent" {
        args.push("--validation".into());
        args.push(sc.flag_lib.clone());
    }
    if sc.flag_verbose {
        args.push("--verbose".into());
    }
    if sc.flag_force {
        args.push("--force".into());
    }
    let argv: Vec<&str> = args.iter().map(|s| s.as_str()).collect();
    let case = json!({"scenario": sc.to_json(), "cwd": "<sandbox>", "command": format!("cargo-tauri-typegen tauri-typegen {}", args.join(" ")),
        "config_file": {"name": conf_name, "text": conf_text},
        "projects": {"./src-tauri (default)": "cmd_default", n.proj_flag.clone(): "cmd_flag", n.proj_file.clone(): "cmd_file"},
        "outputs": {"default": "./src/generated", "flag": n.out_flag, "file": n.out_file}});
    // expectations: flag > file > default
    let exp_project = if sc.flag_project { "flag" } else if sc.file_project == "valid" { "file" } else { "default" };
    let exp_output = if sc.flag_output { "flag" } else if sc.file_output { "file" } else { "default" };
    let exp_lib = if sc.flag_lib != "absent" { sc.flag_lib.as_str() } else if sc.file_lib != "absent" { sc.file_lib.as_str() } else { "none" };
    let exp_verbose = sc.flag_verbose || sc.file_verbose == "true";
    let exp_force = sc.flag_force || sc.file_force == "true";
    stats.label(&format!("precedence:source={}", sc.source));
    if (sc.flag_project && sc.file_project != "absent") || (sc.flag_output && sc.file_output) {
        stats.nontrivial(&("precedence", sc));
        stats.label("precedence:flag,file,default all differ");
    }
    stats.sample(|| case.clone());
    let common: Vec<String> = vec!["part=precedence".into(), format!("source={}", sc.source), format!("file_project={}", sc.file_project), format!("sandbox=v{}", sc.sandbox)];
    let mk = |kind: &str, setting: &str, flag: String, file: String| Failure::new(kind).tags(common.clone()).tag(format!("setting={}", setting)).tag(format!("flag={}", flag)).tag(format!("file={}", file)).case(case.clone());
    let pa = |b: bool| if b { "present".to_string() } else { "absent".to_string() };
    let mut fails = vec![];

    // run 1: no cache yet, so bindings are written whatever `force` says
    stats.eval();
    let r1 = run_cli(&argv, &root);
    if !r1.ok() {
        fails.push(
            mk("valid_settings_rejected", if sc.file_project == "missing" { "project_path" } else { "any" }, pa(sc.flag_project), sc.file_project.clone())
                .observed(format!("exit {:?}; stderr: {}", r1.status, truncate(r1.stderr.trim(), 300)))
                .expected(format!("exit 0: the effective settings (project={}, output={}, library={}) are all valid", exp_project, exp_output, exp_lib)),
        );
        let _ = std::fs::remove_dir_all(&top);
        return fails;
    }
    let o = observe(&root, &n);
    if o.outputs != vec![exp_output] {
        fails.push(mk("precedence_violated", "output_path", pa(sc.flag_output), pa(sc.file_output)).observed(format!("bindings written to the output dir(s) of: {:?}", o.outputs)).expected(format!("output dir given by: {}", exp_output)));
    }
    if o.projects != vec![exp_project] {
        fails.push(mk("precedence_violated", "project_path", pa(sc.flag_project), sc.file_project.clone()).observed(format!("commands of the project dir(s) given by: {:?}", o.projects)).expected(format!("commands of the project dir given by: {}", exp_project)));
    }
    if o.generator.as_deref() != Some(exp_lib) && !o.outputs.is_empty() {
        fails.push(mk("precedence_violated", "validation_library", sc.flag_lib.clone(), sc.file_lib.clone()).observed(format!("Generator: {:?}", o.generator)).expected(format!("Generator: {}", exp_lib)));
    }
    let verbose_seen = r1.stdout.contains("Parsing file:");
    if verbose_seen != exp_verbose {
        fails.push(mk("precedence_violated", "verbose", pa(sc.flag_verbose), sc.file_verbose.clone()).observed(format!("verbose-only lines printed: {}", verbose_seen)).expected(format!("verbose = {}", exp_verbose)));
    }
    // run 2: the cache now matches; only an effective force regenerates
    if !o.outputs.is_empty() {
        let before = snapshot(&root);
        stats.eval();
        let r2 = run_cli(&argv, &root);
        let after = snapshot(&root);
        let changes = diff(&before, &after);
        let regenerated = changes.iter().any(|c| matches!(c, Change::Modified(p) if p.ends_with("commands.ts")));
        let up_to_date = r2.stdout.contains("up to date");
        if !r2.ok() {
            fails.push(mk("valid_settings_rejected", "any", pa(sc.flag_force), sc.file_force.clone()).observed(format!("second run: exit {:?}; stderr: {}", r2.status, truncate(r2.stderr.trim(), 300))).expected("exit 0"));
        } else if exp_force && !regenerated {
            fails.push(
                mk("precedence_violated", "force", pa(sc.flag_force), sc.file_force.clone())
                    .observed(format!("second run with a matching cache did not rewrite the bindings (said up to date: {})", up_to_date))
                    .expected("force = true: bindings regenerated despite the matching cache"),
            );
        } else if !exp_force && regenerated {
            // regeneration without force may also be a cache miss (C14's subject): only a run that
            // itself says "Force flag set" (verbose control) counts as a force precedence failure
            let mut vargs = argv.clone();
            if !sc.flag_verbose {
                vargs.push("--verbose");
            }
            let r3 = run_cli(&vargs, &root);
            if r3.stdout.contains("Force flag set") {
                fails.push(mk("precedence_violated", "force", pa(sc.flag_force), sc.file_force.clone()).observed("the tool reports 'Force flag set, regenerating bindings'").expected("force = false (no flag, file false/absent, default false)"));
            } else {
                stats.label("precedence:regenerated without force (cache miss, see C14)");
            }
        }
    }
    let _ = std::fs::remove_dir_all(&top);
    fails
}

pub fn precedence_keys(full: bool, sandboxes: &[u8]) -> Vec<Scen> {
    let mut keys = vec![];
    let bools = [false, true];
    let tri: &[&str] = if full { &["absent", "false", "true"] } else { &["absent", "true", "false"] };
    for &sandbox in sandboxes {
        for source in ["conf", "cfile"] {
            for flag_project in bools {
                for file_project in ["absent", "valid", "missing"] {
                    if file_project == "missing" && !flag_project {
                        continue; // that is a rejection case, see (c)
                    }
                    for flag_output in bools {
                        for file_output in bools {
                            for flag_lib in ["absent", "none", "zod"] {
                                for file_lib in ["absent", "none", "zod"] {
                                    for flag_verbose in bools {
                                        for file_verbose in tri.iter() {
                                            for flag_force in bools {
                                                for file_force in tri.iter() {
                                                    if !full {
                                                        // quick grid: 2^5 flag subsets x 2^5 file presences x 2 sources, with canonical values:
                                                        // the file's value differs from the default, the flag's from the file's (where a boolean flag can)
                                                        if *file_verbose == "false" && !flag_verbose || *file_verbose == "true" && flag_verbose {
                                                            continue;
                                                        }
                                                        if *file_force == "false" && !flag_force || *file_force == "true" && flag_force {
                                                            continue;
                                                        }
                                                        let lib_ok = match (flag_lib, file_lib) {
                                                            ("absent", "absent") | ("absent", "zod") | ("zod", "absent") | ("none", "zod") => true,
                                                            _ => false,
                                                        };
                                                        if !lib_ok {
                                                            continue;
                                                        }
                                                    }
                                                    keys.push(Scen {
                                                        source: source.into(),
                                                        flag_project,
                                                        file_project: file_project.into(),
                                                        flag_output,
                                                        file_output,
                                                        flag_lib: flag_lib.into(),
                                                        file_lib: file_lib.into(),
                                                        flag_verbose,
                                                        file_verbose: file_verbose.to_string(),
                                                        flag_force,
                                                        file_force: file_force.to_string(),
                                                        sandbox,
                                                    });
                                                }
                                            }
                                        }
                                    }
                                }
                            }
                        }
                    }
                }
            }
        }
    }
    keys
}

// ---------------------------------------------------------------------------------------------
// (c) rejection

#[derive(Clone, Debug, Hash, PartialEq, Eq)]
pub struct Rej {
    /// "library" | "project"
    pub bad: String,
    /// the bad library value (when bad == "library")
    pub bad_lib: String,
    /// "generate" | "init"
    pub cmd: String,
    /// who supplies the bad value: "flag" | "conf" | "cfile"
    pub via: String,
    /// for via=flag on generate: a file that gives a *valid* value for the same setting: "none" | "conf" | "cfile";
    /// for init: where the tauri.conf.json is: "project" (default) | "explicit" (-o ./tauri.conf.json)
    pub other: String,
    /// does the default ./src-tauri exist
    pub default_project: bool,
}

impl Rej {
    pub fn to_json(&self) -> Value {
        json!({"bad": self.bad, "bad_lib": self.bad_lib, "cmd": self.cmd, "via": self.via, "other": self.other, "default_project": self.default_project})
    }
    pub fn from_json(v: &Value) -> Option<Rej> {
        let s = |k: &str| v[k].as_str().map(String::from);
        Some(Rej { bad: s("bad")?, bad_lib: s("bad_lib")?, cmd: s("cmd")?, via: s("via")?, other: s("other")?, default_project: v["default_project"].as_bool()? })
    }
}

pub fn rejection_keys(bad_libs: &[&str]) -> Vec<Rej> {
    let mut keys = vec![];
    for default_project in [true, false] {
        for bad in ["library", "project"] {
            let libs: Vec<&str> = if bad == "library" { bad_libs.to_vec() } else { vec![""] };
            for bl in libs {
                for (cmd, via, other) in [
                    ("generate", "flag", "none"),
                    ("generate", "flag", "conf"),
                    ("generate", "flag", "cfile"),
                    ("generate", "conf", "none"),
                    ("generate", "cfile", "none"),
                    ("init", "flag", "project"),
                    ("init", "flag", "explicit"),
                ] {
                    keys.push(Rej { bad: bad.into(), bad_lib: bl.into(), cmd: cmd.into(), via: via.into(), other: other.into(), default_project });
                }
            }
        }
    }
    keys
}

pub fn check_rejection(r: &Rej, stats: &mut Stats) -> Vec<Failure> {
    let top = fresh_dir("c19r");
    let root = top.join("sb");
    std::fs::create_dir_all(&root).unwrap_or_else(|e| infra_exit(&format!("cannot create sandbox: {}", e)));
    if r.default_project {
        write_project(&root, &[("src-tauri/src/lib.rs".to_string(), cmd_src("cmd_default"))]);
    }
    write_project(&root, &[("proj_ok/src/lib.rs".to_string(), cmd_src("cmd_ok"))]);
    let bad_is_lib = r.bad == "library";
    let mut args: Vec<String> = vec![r.cmd.clone()];
    let mut files: Vec<(String, String)> = vec![];
    let typegen_conf = |m: Value| serde_json::to_string_pretty(&json!({"productName": "app", "plugins": {"typegen": m}})).unwrap();
    if r.cmd == "generate" {
        match r.via.as_str() {
            "flag" => {
                // optional file with a valid value for the same setting (the flag must still win)
                let valid_camel = if bad_is_lib { json!({"validationLibrary": "zod", "projectPath": "./proj_ok", "outputPath": "./out_file"}) } else { json!({"projectPath": "./proj_ok", "outputPath": "./out_file"}) };
                let valid_snake = if bad_is_lib { json!({"validation_library": "zod", "project_path": "./proj_ok", "output_path": "./out_file"}) } else { json!({"project_path": "./proj_ok", "output_path": "./out_file"}) };
                match r.other.as_str() {
                    "conf" => files.push(("tauri.conf.json".into(), typegen_conf(valid_camel))),
                    "cfile" => {
                        files.push(("typegen.config.json".into(), serde_json::to_string_pretty(&valid_snake).unwrap()));
                        args.push("-c".into());
                        args.push("typegen.config.json".into());
                    }
                    _ => {}
                }
                if bad_is_lib {
                    args.push("--validation".into());
                    args.push(r.bad_lib.clone());
                    if r.other == "none" && !r.default_project {
                        // keep the library the only invalid setting
                        args.push("--project-path".into());
                        args.push("./proj_ok".into());
                    }
                } else {
                    args.push("--project-path".into());
                    args.push("./no_such_dir".into());
                }
            }
            "conf" => {
                let m = if bad_is_lib { json!({"projectPath": "./proj_ok", "outputPath": "./out_file", "validationLibrary": r.bad_lib}) } else { json!({"projectPath": "./no_such_dir", "outputPath": "./out_file", "validationLibrary": "zod"}) };
                files.push(("tauri.conf.json".into(), typegen_conf(m)));
            }
            _ => {
                let m = if bad_is_lib { json!({"project_path": "./proj_ok", "output_path": "./out_file", "validation_library": r.bad_lib}) } else { json!({"project_path": "./no_such_dir", "output_path": "./out_file", "validation_library": "zod"}) };
                files.push(("typegen.config.json".into(), serde_json::to_string_pretty(&m).unwrap()));
                args.push("-c".into());
                args.push("typegen.config.json".into());
            }
        }
    } else {
        // init: an existing tauri.conf.json that would receive the settings
        let doc = serde_json::to_string_pretty(&json!({"productName": "app", "plugins": {"shell": {"open": true}}})).unwrap();
        let project = if bad_is_lib { "./proj_ok" } else { "./no_such_dir" };
        if r.other == "explicit" {
            files.push(("tauri.conf.json".into(), doc));
            args.push("--output".into());
            args.push("./tauri.conf.json".into());
        } else if bad_is_lib {
            files.push(("proj_ok/tauri.conf.json".into(), doc));
        }
        args.push("--project-path".into());
        args.push(project.into());
        if bad_is_lib {
            args.push("--validation".into());
            args.push(r.bad_lib.clone());
        }
    }
    write_project(&root, &files);
    let case = json!({"rejection": r.to_json(), "cwd": "<sandbox>", "command": format!("cargo-tauri-typegen tauri-typegen {}", args.join(" ")),
        "files": files.iter().map(|(k, v)| (k.clone(), json!(v))).collect::<serde_json::Map<_, _>>(),
        "directories": {"./src-tauri (default project)": r.default_project, "./proj_ok": true, "./no_such_dir": false}});
    stats.eval();
    stats.label(&format!("reject:bad={},cmd={},via={}", r.bad, r.cmd, r.via));
    stats.sample(|| case.clone());
    let argv: Vec<&str> = args.iter().map(|s| s.as_str()).collect();
    let before = snapshot(&root);
    let out: ProcOut = run_cli(&argv, &root);
    let after = snapshot(&root);
    let changes = diff(&before, &after);
    let what = if bad_is_lib { format!("unsupported validation library {:?}", r.bad_lib) } else { "non-existent project path ./no_such_dir".to_string() };
    let mk = |kind: &str| {
        Failure::new(kind)
            .tag("part=reject")
            .tag(format!("bad={}", r.bad))
            .tag(format!("cmd={}", r.cmd))
            .tag(format!("via={}", r.via))
            .tag(format!("other={}", r.other))
            .tag(format!("default_project={}", if r.default_project { "present" } else { "absent" }))
            .case(case.clone())
    };
    let written: Vec<String> = changes.iter().map(|c| format!("{:?}", c)).collect();
    let mut fails = vec![];
    if out.ok() {
        fails.push(mk("invalid_config_accepted").observed(format!("exit 0; written: {:?}; stdout: {}", written, truncate(out.stdout.trim(), 160))).expected(format!("{} (supplied by {}) rejected: exit != 0, error message, nothing written", what, r.via)));
    } else {
        if out.status.is_none() {
            fails.push(mk("crashed").observed(format!("killed by signal {:?}", out.signal)).expected("an error exit"));
        }
        if out.stderr.trim().is_empty() && !out.stdout.to_lowercase().contains("error") {
            fails.push(mk("no_error_message").observed(format!("exit {:?}, nothing on stderr", out.status)).expected("an error message"));
        }
        if !changes.is_empty() {
            fails.push(mk("wrote_before_rejecting").observed(format!("exit {:?} ({}), but the sandbox changed: {:?}", out.status, truncate(out.stderr.trim(), 120), written)).expected(format!("{} rejected before anything is written", what)));
        }
    }
    let _ = std::fs::remove_dir_all(&top);
    fails
}

// ---------------------------------------------------------------------------------------------

pub fn run(ctx: &Ctx) {
    let docs = ctx.tier.pick(2000u32, 50000u32);
    let inits = ctx.tier.pick(240u32, 4000u32);
    let sandboxes: Vec<u8> = ctx.tier.pick(vec![0u8], (0..SANDBOX_VARIANTS).collect());
    let full = ctx.tier == crate::run::Tier::Thorough;
    let bad_libs: Vec<&str> = ctx.tier.pick(vec!["yup", "Zod"], vec!["yup", "Zod", "NONE", "", "none ", "valibot"]);
    ctx.set_rule(&format!(
        "(a) {} tape-generated JSON documents (root object, nesting <= 5, Unicode/escaped strings incl. surrogate pairs, integers over i64/u64, decimals <= 17 significant digits, exponents; plugins absent/empty/others/old typegen) x tape-generated settings through save_to_tauri_config + from_tauri_config, and {} through the real `init`; \
         (b) precedence grid through the real `generate`: {} scenarios (flag subsets x file states x source conf/-c x {} sandbox naming variants), 2 runs each; (c) {} rejection scenarios. \
         non-trivial = a document with nesting >= 2 below the root, >= 1 non-ASCII string and >= 1 number outside +-2^31 (distinct by text), or a precedence scenario where flag, file and default values all differ for project or output path (distinct by scenario)",
        docs,
        inits,
        precedence_keys(full, &sandboxes).len(),
        sandboxes.len(),
        rejection_keys(&bad_libs).len()
    ));
    ctx.assume("JSON documents are compared with this harness' own parser; number literals: integers as i128, others as correctly rounded f64 (Rust str::parse)");
    ctx.assume("documents outside the stated domain are not generated: duplicate keys, lone surrogates, non-object root, non-object plugins, integers beyond i64/u64, exponents beyond f64 range");
    ctx.assume("observables of effective settings: invoke name in commands.ts (project), directory holding commands.ts (output), `Generator:` header (library), 'Parsing file:' lines (verbose), rewrite despite a matching cache (force)");

    ctx.search("c19.doc_inproc", docs, 500, |tape, stats| check_doc_inproc(tape, stats));
    ctx.search("c19.doc_init", inits, 500, |tape, stats| check_doc_init(tape, stats));
    let keys = precedence_keys(full, &sandboxes);
    ctx.enumerate("c19.precedence", &keys, |k| k.to_json(), |k, stats| check_precedence(k, stats));
    let rkeys = rejection_keys(&bad_libs);
    ctx.enumerate("c19.reject", &rkeys, |k| k.to_json(), |k, stats| check_rejection(k, stats));
}

pub fn replay(check: &str, input: &Value, stats: &mut Stats) -> Option<Vec<Failure>> {
    match check {
        "c19.doc_inproc" => {
            let mut tape = Tape::new(super::tape_of(input));
            Some(check_doc_inproc(&mut tape, stats))
        }
        "c19.doc_init" => {
            let mut tape = Tape::new(super::tape_of(input));
            Some(check_doc_init(&mut tape, stats))
        }
        "c19.precedence" => Some(check_precedence(&Scen::from_json(input)?, stats)),
        "c19.reject" => Some(check_rejection(&Rej::from_json(input)?, stats)),
        _ => None,
    }
}
