//! C18 — a type mapping replaces the mapped type everywhere and nothing else.
//!
//! Differential oracles, so that rendering defects owned by C05 cancel out:
//!  * plain source names: run A (no table) vs run B (table): shape_A[Ref N := M] == shape_B;
//!  * generic source names (`DateTime<Utc>`): run B_G vs run B_P, where P is a plain name mapped
//!    to the same target: the two must agree at every site;
//!  * N / NSchema is never declared or referenced in B; declarations that do not mention a mapped
//!    name are identical in A and B.

use super::c05::{self, Obs};
use crate::gen::graph::{wrap, WRAPS};
use crate::gen::rust::must_parse;
use crate::gen::ty::Ty;
use crate::run::{Ctx, Failure, Stats};
use crate::tape::Tape;
use crate::tool::{generate, strip_timestamp, Cfg};
use crate::ts::shape::Shape;
use serde_json::{json, Value};
use std::collections::BTreeSet;

pub const PLAIN_NAMES: &[&str] = &["PathBuf", "Uuid", "UserId", "Decimal"];
pub const GENERIC_NAMES: &[&str] = &["DateTime<Utc>", "Arc<str>", "Box<str>"];
pub const TARGETS: &[&str] = &["string", "number", "boolean"];

fn target_shape(m: &str) -> Shape {
    match m {
        "string" => Shape::Str,
        "number" => Shape::Num,
        _ => Shape::Bool,
    }
}

fn subst(s: &Shape, from: &str, to: &Shape) -> Shape {
    match s {
        Shape::Ref(n) if n == from => to.clone(),
        Shape::Array(i) => Shape::arr(subst(i, from, to)),
        Shape::JsSet(i) => Shape::JsSet(Box::new(subst(i, from, to))),
        Shape::Tuple(v) => Shape::Tuple(v.iter().map(|x| subst(x, from, to)).collect()),
        Shape::Record(k, v) => Shape::rec(subst(k, from, to), subst(v, from, to)),
        Shape::JsMap(k, v) => Shape::JsMap(Box::new(subst(k, from, to)), Box::new(subst(v, from, to))),
        Shape::Union(set) => Shape::union(set.iter().map(|x| subst(x, from, to))),
        Shape::Inter(v) => Shape::Inter(v.iter().map(|x| subst(x, from, to)).collect()),
        Shape::Obj(m) => Shape::Obj(m.iter().map(|(k, (o, x))| (k.clone(), (*o, subst(x, from, to)))).collect()),
        other => other.clone(),
    }
}

/// a type name as it must be spelled in `Ty::Named` so that `rust()` prints the source name
fn named(n: &str) -> Ty {
    Ty::Named(n.to_string())
}

#[derive(Clone, Debug)]
pub struct Case18 {
    pub name: String,
    pub generic: bool,
    pub target: String,
    pub wrap: String,
    pub mode: String,
    /// other table entries present at the same time
    pub extra: Vec<(String, String)>,
    /// the mapped (plain) name is also defined in the project: "" | struct | nested | enum | newtype
    pub local: String,
    /// see `tool::Cfg::route`
    pub route: String,
}

/// a local serde definition of the mapped name; `nested` reaches a type only through it
fn local_def(name: &str, form: &str) -> String {
    let d = "#[derive(Debug, Clone, Serialize, Deserialize, PartialEq, Eq, Hash, PartialOrd, Ord)]";
    match form {
        "struct" => format!("\n{}\npub struct {} {{\n    pub cents: i64,\n}}\n", d, name),
        "nested" => format!("\n{d}\npub struct OnlyViaMapped {{\n    pub v: i32,\n}}\n\n{d}\npub struct {} {{\n    pub inner: OnlyViaMapped,\n    pub again: Vec<OnlyViaMapped>,\n}}\n", name, d = d),
        "enum" => format!("\n{}\npub enum {} {{\n    One,\n    Two,\n}}\n", d, name),
        "newtype" => format!("\n{}\npub struct {}(pub i64);\n", d, name),
        _ => String::new(),
    }
}
pub const LOCAL_FORMS: &[&str] = &["struct", "nested", "enum", "newtype"];

fn obs_text(o: &Obs) -> String {
    match o {
        Obs::Shape(s, src) => format!("{} ⟸ {}", s, src),
        Obs::Bad(k, d) => format!("{}: {}", k, d),
    }
}

pub fn check_case(c: &Case18, stats: &mut Stats) -> Vec<Failure> {
    let zod = c.mode == "zod";
    // `true`: the map_key wrap then puts the name in key position (HashMap<N, i32>), as for an enum
    let ty = wrap(&c.wrap, named(&c.name), true);
    let src = format!("{}{}", c05::source_for(&ty), if c.generic { String::new() } else { local_def(&c.name, &c.local) });
    must_parse("src/lib.rs", &src);
    let mut table = vec![(c.name.clone(), c.target.clone())];
    table.extend(c.extra.iter().cloned());
    let cfg_b = Cfg { mode: c.mode.clone(), type_mappings: table.clone(), route: c.route.clone(), ..Default::default() };
    let out_b = generate(&[("src/lib.rs".into(), src.clone())], &cfg_b);
    // reference run
    let (ref_src, ref_cfg, ref_name) = if c.generic {
        let twin = "MappedTwin";
        let ty2 = wrap(&c.wrap, named(twin), true);
        let mut t2 = vec![(twin.to_string(), c.target.clone())];
        t2.extend(c.extra.iter().cloned());
        (c05::source_for(&ty2), Cfg { mode: c.mode.clone(), type_mappings: t2, ..Default::default() }, twin.to_string())
    } else {
        (src.clone(), Cfg { mode: c.mode.clone(), type_mappings: c.extra.clone(), ..Default::default() }, c.name.clone())
    };
    must_parse("src/lib.rs", &ref_src);
    let out_a = generate(&[("src/lib.rs".into(), ref_src.clone())], &ref_cfg);
    let mut base_tags = vec![format!("mode={}", c.mode), format!("wrap={}", c.wrap), format!("source={}", if c.generic { "generic" } else { "plain" }), format!("name={}", c.name), format!("target={}", c.target)];
    if !c.route.is_empty() {
        base_tags.push(format!("route={}", c.route));
        stats.label(&format!("route={}", c.route));
    }
    if !c.local.is_empty() && !c.generic {
        base_tags.push(format!("local={}", c.local));
        stats.label(&format!("local={}", c.local));
    }
    let case = json!({"mapping": table, "mode": c.mode, "rust_type": ty.rust(false), "rust": src});
    let mut fails = vec![];
    for (o, which) in [(&out_a, "reference"), (&out_b, "mapped")] {
        if let Err(e) = &o.result {
            fails.push(Failure::new(if o.panic.is_some() { "panic" } else { "tool_error" }).tags(base_tags.clone()).tag(format!("run={}", which)).observed(e.clone()).expected("generation succeeds").case(case.clone()));
        }
    }
    if !fails.is_empty() {
        return fails;
    }
    let to = target_shape(&c.target);
    for site in c05::SITES {
        stats.eval();
        if c.wrap != "direct" || *site != "field" {
            stats.nontrivial(&(&c.name, &c.wrap, site, &c.mode, &c.target));
        }
        stats.label(&format!("site={}", site));
        stats.distinct("wrap_x_site_x_mode", &(&c.wrap, site, &c.mode));
        let oa = c05::observe(&out_a, site, zod);
        let ob = c05::observe(&out_b, site, zod);
        stats.sample(|| json!({"mapping": table, "rust_type": ty.rust(false), "site": site, "mode": c.mode, "reference": obs_text(&oa), "mapped": obs_text(&ob)}));
        let mk = |kind: &str, obs: String, exp: String| Failure::new(kind).tags(base_tags.clone()).tag(format!("site={}", site)).observed(obs).expected(exp).case(case.clone());
        match (&oa, &ob) {
            (Obs::Shape(sa, _), Obs::Shape(_, _)) if sa.to_string().contains("Other(") => {
                // the reference rendering is not a modelled TypeScript type (a C01/C05 defect such
                // as a mis-split generic): nothing to compare against
                stats.excluded_known += 1;
            }
            (Obs::Shape(sa, _), Obs::Shape(sb, srcb)) => {
                let mut want = if c.generic { sa.clone() } else { subst(sa, &ref_name, &to) };
                let mut ref_tag = None;
                if !c.generic && *sa != Shape::Unknown {
                    // the differential needs the reference run to mention N where the type does;
                    // if it rendered N as something else (not by name) it says nothing about the
                    // mapping, and the model decides: D(T) with N := M
                    let mut names = BTreeSet::new();
                    sa.refs(&mut names);
                    if !names.contains(&ref_name) {
                        want = ty.denote(&|n| if n == c.name { Some(to.clone()) } else { None });
                        ref_tag = Some("reference_lost_name");
                    }
                }
                if *sb != want && ref_tag.is_some() && sb.without_undefined() == want {
                    // omittable members (`?:`) are C05's / C10's business
                } else if *sb != want {
                    // event payloads that are not translated at all stay `unknown` in both runs
                    let mut f = mk("mapping_not_applied", format!("{} ⟸ {}", sb, srcb), format!("{} (reference run: {})", want, sa));
                    if let Some(t) = ref_tag {
                        f = f.tag(t);
                    }
                    fails.push(f);
                }
                let mut refs = BTreeSet::new();
                sb.refs(&mut refs);
                let bare = c.name.split('<').next().unwrap_or(&c.name);
                if refs.iter().any(|r| r == bare || r == &format!("{}Schema", bare)) {
                    fails.push(mk("mapped_name_referenced", format!("{} ⟸ {}", sb, srcb), format!("no reference to {}", c.name)));
                }
            }
            (Obs::Bad(..), Obs::Bad(..)) => {
                // the same rendering defect in both runs: C01/C05 own it
                stats.excluded_known += 1;
            }
            (Obs::Bad(_, da), Obs::Shape(sb, srcb)) => {
                // the unmapped rendering is broken, the mapped one is not: compare with the model
                let want = ty.denote(&|n| if n == c.name { Some(to.clone()) } else { None });
                if sb.without_undefined() != want {
                    fails.push(mk("mapping_not_applied", format!("{} ⟸ {}", sb, srcb), format!("{} (reference run unusable: {})", want, crate::run::truncate(da, 120))).tag("reference_unusable"));
                }
            }
            (Obs::Shape(sa, _), Obs::Bad(kb, db)) => fails.push(mk("mapping_breaks_output", format!("{}: {}", kb, db), format!("{} with {} replaced by {}", sa, ref_name, c.target))),
        }
    }
    // Zod mode: "rendered as the schema corresponding to M": a primitive target must become the
    // primitive schema, not a catch-all such as z.custom<M>(() => true)
    if zod {
        if let Some(types_b) = out_b.file("types.ts") {
            let env = super::c10::schema_env(types_b);
            for (konst, key, site) in [("HolderSchema", "f", "field"), ("TakeParamsSchema", "x", "param")] {
                if let Some(crate::zodm::Z::Object(fields)) = env.get(konst) {
                    if let Some((_, z)) = fields.iter().find(|(k, _)| k == key) {
                        let mut customs = vec![];
                        fn walk(z: &crate::zodm::Z, out: &mut Vec<String>) {
                            use crate::zodm::Z;
                            match z {
                                Z::Custom(t) => out.push(format!("z.custom<{}>", t.as_ref().map(|t| crate::ts::shape::normalise(t).to_string()).unwrap_or_default())),
                                Z::Any | Z::Unknown => out.push("z.any/unknown".into()),
                                Z::Array { inner, .. } | Z::Set(inner) | Z::Optional(inner) | Z::Nullable(inner) | Z::Lazy(inner) => walk(inner, out),
                                Z::Map(a, b) | Z::Record(a, b) | Z::Inter(a, b) => {
                                    walk(a, out);
                                    walk(b, out);
                                }
                                Z::Tuple(v) | Z::Union(v) => v.iter().for_each(|x| walk(x, out)),
                                Z::Object(f) => f.iter().for_each(|(_, x)| walk(x, out)),
                                _ => {}
                            }
                        }
                        walk(z, &mut customs);
                        if !customs.is_empty() {
                            fails.push(Failure::new("mapped_to_catch_all_schema").tags(base_tags.clone()).tag(format!("site={}", site)).observed(format!("{:?} in {}", customs, crate::tsx::parse(types_b).src_of(konst).unwrap_or_default())).expected(format!("the Zod schema of `{}` (z.{}() / z.coerce.{}())", c.target, c.target, c.target)).case(case.clone()));
                        }
                    }
                }
            }
        }
    }
    // N / NSchema never declared in B
    if let Some(types_b) = out_b.file("types.ts") {
        let p = crate::tsx::parse(types_b);
        let bare = c.name.split('<').next().unwrap_or(&c.name);
        for (name, _, _, _) in p.declared() {
            if name == bare || name == format!("{}Schema", bare) {
                fails.push(Failure::new("mapped_name_declared").tags(base_tags.clone()).observed(format!("types.ts declares {}", name)).expected("the mapped name is not declared").case(case.clone()));
            }
        }
    }
    // declarations that do not mention the mapped name are untouched (plain names only: the twin
    // run of generic names uses another source text)
    if !c.generic {
        for f in ["types.ts", "commands.ts", "events.ts", "index.ts"] {
            let (Some(a), Some(b)) = (out_a.file(f), out_b.file(f)) else {
                if out_a.file(f).is_some() != out_b.file(f).is_some() {
                    fails.push(Failure::new("mapping_changes_file_set").tags(base_tags.clone()).observed(format!("{} present without table: {}, with table: {}", f, out_a.file(f).is_some(), out_b.file(f).is_some())).expected("same files").case(case.clone()));
                }
                continue;
            };
            let ma = crate::sandbox::declaration_map(&strip_timestamp(a));
            let mb = crate::sandbox::declaration_map(&strip_timestamp(b));
            for (k, va) in &ma {
                if va.contains(&c.name) || k.starts_with("unparsed:") {
                    continue;
                }
                // a type reachable only through the mapped one may or may not be kept: the
                // property does not say; if kept it must be unchanged
                if k.contains("OnlyViaMapped") && !mb.contains_key(k) {
                    continue;
                }
                match mb.get(k) {
                    Some(vb) if vb == va => {}
                    Some(vb) => {
                        // a declaration may mention the mapped type only in B (it cannot: B has less)
                        fails.push(Failure::new("unmapped_declaration_changed").tags(base_tags.clone()).tag(format!("file={}", f)).observed(format!("{}: `{}`", k, crate::run::truncate(vb, 200))).expected(format!("`{}`", crate::run::truncate(va, 200))).case(case.clone()));
                    }
                    None => fails.push(Failure::new("unmapped_declaration_lost").tags(base_tags.clone()).tag(format!("file={}", f)).observed(format!("{} missing with the table", k)).expected("declaration unchanged").case(case.clone())),
                }
            }
        }
    }
    fails
}

pub fn grid() -> Vec<Case18> {
    let mut out = vec![];
    for (ti, target) in TARGETS.iter().enumerate() {
        for w in WRAPS {
            for mode in ["none", "zod"] {
                let plain = PLAIN_NAMES[(ti + w.len()) % PLAIN_NAMES.len()];
                out.push(Case18 { name: plain.into(), generic: false, target: target.to_string(), wrap: w.to_string(), mode: mode.into(), extra: vec![], local: String::new(), route: String::new() });
                let gen = GENERIC_NAMES[(ti + w.len()) % GENERIC_NAMES.len()];
                out.push(Case18 { name: gen.into(), generic: true, target: target.to_string(), wrap: w.to_string(), mode: mode.into(), extra: vec![("Unrelated".into(), "number".into())], local: String::new(), route: String::new() });
            }
        }
    }
    // appended (grid indices of earlier cases are referenced by regress files)
    for (ti, target) in TARGETS.iter().enumerate() {
        for (wi, w) in WRAPS.iter().enumerate() {
            for mode in ["none", "zod"] {
                let form = LOCAL_FORMS[(ti + wi) % LOCAL_FORMS.len()];
                let plain = PLAIN_NAMES[(ti + wi) % PLAIN_NAMES.len()];
                out.push(Case18 { name: plain.into(), generic: false, target: target.to_string(), wrap: w.to_string(), mode: mode.into(), extra: vec![], local: form.into(), route: String::new() });
            }
        }
    }
    // appended in round 8: the table reaches the generator through a file the tool wrote and read
    // back (the typegen entry of tauri.conf.json, a stand-alone configuration file); generic
    // source names with two arguments are spelled with the space the tool's own type strings have
    for route in ["tauri_conf", "file"] {
        for (ni, (name, generic)) in [("PathBuf", false), ("Decimal", false), ("DateTime<Utc>", true), ("Arc<str>", true), ("Either<String, i32>", true), ("Pair<u8, Uuid>", true)].into_iter().enumerate() {
            for (wi, w) in ["direct", "vec", "map_value", "tuple_last", "option_vec"].into_iter().enumerate() {
                for mode in ["none", "zod"] {
                    let target = TARGETS[(ni + wi) % TARGETS.len()];
                    let extra = if generic { vec![("Unrelated".to_string(), "number".to_string())] } else { vec![] };
                    out.push(Case18 { name: name.into(), generic, target: target.to_string(), wrap: w.to_string(), mode: mode.into(), extra, local: String::new(), route: route.into() });
                }
            }
        }
    }
    out
}

fn random_case(t: &mut Tape) -> Case18 {
    let generic = t.chance(1, 3);
    let name = if generic { t.choose(GENERIC_NAMES).to_string() } else { t.choose(PLAIN_NAMES).to_string() };
    let n_extra = t.pick(3);
    let mut extra = vec![];
    for _ in 0..n_extra {
        let n = *t.choose(&["Unrelated", "Instant", "Url", "Version", "Item2"]);
        if n != name && !extra.iter().any(|(k, _): &(String, String)| k == n) {
            extra.push((n.to_string(), t.choose(TARGETS).to_string()));
        }
    }
    let target = t.choose(TARGETS).to_string();
    let wrap = t.choose(WRAPS).to_string();
    let mode: String = if t.bool() { "zod".into() } else { "none".into() };
    let local = if !generic && t.chance(1, 3) { t.choose(LOCAL_FORMS).to_string() } else { String::new() };
    Case18 { name, generic, target, wrap, mode, extra, local, route: String::new() }
}

pub fn run(ctx: &Ctx) {
    ctx.set_rule("mapping tables of 1-3 entries over plain (PathBuf, Uuid, UserId, Decimal) and generic (DateTime<Utc>, Arc<str>, Box<str>; in the routed part of the grid also Either<String, i32>, Pair<u8, Uuid>) source names, handed over as a configuration value or (120 grid cases) through the typegen entry of a tauri.conf.json / a stand-alone configuration file written and read back by the tool; with targets string/number/boolean; the mapped name placed at each of 16 constructor positions (wraps) of each of the 5 translation sites, both modes; grid = target x wrap x mode x {plain, generic}; plus, for plain names, the mapped name also defined in the project as a serde struct / struct reaching a further type / enum / newtype; then random cases; evaluation = one (case, site) comparison between the mapped run and its reference run; non-trivial = mapped name below a constructor or at a non-field site");
    ctx.set_exhaustive(true);
    ctx.assume("differential oracle: unmapped run with Ref N substituted by M (plain names) or a plain-name twin mapped to the same target (generic names)");
    let g = grid();
    let idx: Vec<usize> = (0..g.len()).collect();
    ctx.note("grid_cases", json!(g.len()));
    ctx.enumerate("c18.grid", &idx, |i| json!({"index": i}), |i, stats| check_case(&g[*i], stats));
    let cases = ctx.tier.pick(500, 200000);
    ctx.search("c18.random", cases, 40, |tape, stats| check_case(&random_case(tape), stats));
}

pub fn replay(check: &str, input: &Value, stats: &mut Stats) -> Option<Vec<Failure>> {
    match check {
        "c18.grid" => {
            let g = grid();
            Some(check_case(g.get(input["index"].as_u64()? as usize)?, stats))
        }
        "c18.random" => {
            let mut tape = Tape::new(super::tape_of(input));
            Some(check_case(&random_case(&mut tape), stats))
        }
        _ => None,
    }
}
