//! C12 — one correctly named, correctly subscribed listener per emitted event.

use crate::gen::names;
use crate::gen::rust::{must_parse, rust_str_lit, PRELUDE};
use crate::gen::ty::{bx, Ty};
use crate::run::{Ctx, Failure, Stats};
use crate::tape::Tape;
use crate::tool::{generate, Cfg};
use crate::ts::ast::{Expr, Item, Type};
use crate::ts::lex::{is_identifier_name, is_reserved};
use crate::ts::parse::parse_module;
use crate::ts::shape::{normalise, Shape};
use crate::tsx;
use serde_json::{json, Value};
use std::collections::{BTreeMap, BTreeSet};

pub const RECEIVERS: &[&str] = &["app", "window", "webview", "state.app", "ctx.window", "self_like.webview", "app.app_handle()", "window.get_webview_window(\"main\").unwrap()", "state.handle()"];
pub const DECOY_RECEIVERS: &[&str] = &["socket", "bus", "tx", "emitter_like"];
pub const PLACEMENTS: &[&str] = &[
    "stmt", "let_init", "if_then", "if_else", "else_if", "match_arm_expr", "match_arm_block", "loop", "while", "for", "nested_block", "try", "await", "unwrap", "ok", "expect", "let_underscore",
];
pub const PAYLOADS: &[&str] = &["lit_str", "lit_int", "lit_float", "lit_bool", "struct_expr", "typed_param", "typed_let", "let_struct", "ref_var", "clone_var", "call", "method_call", "tuple", "macro", "unit", "untyped_let", "untyped_let_ref"];

#[derive(Clone, Debug)]
pub struct Emit {
    pub name: String,
    pub receiver: String,
    pub emit_to: bool,
    pub placement: String,
    pub payload: String,
    /// type used by typed_param / typed_let / ref_var / clone_var
    pub ty: Ty,
    pub decoy: bool,
}

#[derive(Clone, Debug)]
pub struct FnM {
    pub name: String,
    pub is_command: bool,
    pub file: usize,
    pub emits: Vec<Emit>,
}

#[derive(Clone, Debug)]
pub struct EvProject {
    pub n_files: usize,
    pub fns: Vec<FnM>,
}

/// (setup statements, extra fn params, payload expression, expected shape or None = unknown)
fn payload_parts(e: &Emit, k: usize) -> (String, Vec<String>, String, Option<Shape>) {
    let var = format!("v{}", k);
    let ty_rust = e.ty.rust(false);
    match e.payload.as_str() {
        "lit_str" => (String::new(), vec![], "\"hello\"".into(), Some(Shape::Str)),
        "lit_int" => (String::new(), vec![], "42".into(), Some(Shape::Num)),
        "lit_float" => (String::new(), vec![], "2.5".into(), Some(Shape::Num)),
        "lit_bool" => (String::new(), vec![], "true".into(), Some(Shape::Bool)),
        "unit" => (String::new(), vec![], "()".into(), Some(Shape::Void)),
        "struct_expr" => (String::new(), vec![], "Note { id: 1, text: String::new() }".into(), Some(Shape::Ref("Note".into()))),
        "typed_param" => (String::new(), vec![format!("{}: {}", var, ty_rust)], var.clone(), Some(e.ty.d())),
        "typed_let" => (format!("let {}: {} = make();\n", var, ty_rust), vec![], var.clone(), Some(e.ty.d())),
        "let_struct" => (format!("let {} = Note {{ id: 2, text: String::new() }};\n", var), vec![], var.clone(), Some(Shape::Ref("Note".into()))),
        "ref_var" => (String::new(), vec![format!("{}: {}", var, ty_rust)], format!("&{}", var), Some(e.ty.d())),
        "clone_var" => (String::new(), vec![format!("{}: {}", var, ty_rust)], format!("{}.clone()", var), Some(e.ty.d())),
        // a binding without annotation initialised by a call: not evident, whatever other
        // functions of the file call their (typed) variables
        "untyped_let" => (format!("let {} = compute_payload(4);\n", var), vec![], var.clone(), None),
        "untyped_let_ref" => (format!("let {} = registry.snapshot();\n", var), vec![], format!("&{}", var), None),
        "call" => (String::new(), vec![], "compute_payload(3)".into(), None),
        "method_call" => (String::new(), vec![], "registry.snapshot()".into(), None),
        "tuple" => (String::new(), vec![], "(1, \"two\")".into(), None),
        "macro" => (String::new(), vec![], "format!(\"{}-{}\", 1, 2)".into(), None),
        other => crate::run::infra_exit(&format!("unknown payload form {}", other)),
    }
}

fn emit_call(e: &Emit, payload: &str) -> String {
    if e.emit_to {
        format!("{}.emit_to(\"main\", {}, {})", e.receiver, rust_str_lit(&e.name), payload)
    } else {
        format!("{}.emit({}, {})", e.receiver, rust_str_lit(&e.name), payload)
    }
}

fn place(e: &Emit, call: &str, k: usize) -> String {
    match e.placement.as_str() {
        "stmt" => format!("{};\n", call),
        "let_init" => format!("let r{} = {};\n", k, call),
        "let_underscore" => format!("let _ = {};\n", call),
        "if_then" => format!("if flag {{\n    {};\n}}\n", call),
        "if_else" => format!("if flag {{\n    noop();\n}} else {{\n    {};\n}}\n", call),
        "else_if" => format!("if flag {{\n    noop();\n}} else if other {{\n    {};\n}} else {{\n    noop();\n}}\n", call),
        "match_arm_expr" => format!("match code {{\n    1 => {},\n    _ => noop(),\n}};\n", call.replace(";", "")),
        "match_arm_block" => format!("match code {{\n    1 => {{\n        {};\n    }}\n    _ => {{}}\n}}\n", call),
        "loop" => format!("loop {{\n    {};\n    break;\n}}\n", call),
        "while" => format!("while flag {{\n    {};\n}}\n", call),
        "for" => format!("for _i in 0..3 {{\n    {};\n}}\n", call),
        "nested_block" => format!("{{\n    {{\n        {};\n    }}\n}}\n", call),
        "try" => format!("{}?;\n", call),
        "await" => format!("{}.await;\n", call),
        "unwrap" => format!("{}.unwrap();\n", call),
        "ok" => format!("{}.ok();\n", call),
        "expect" => format!("{}.expect(\"emit failed\");\n", call),
        other => crate::run::infra_exit(&format!("unknown placement {}", other)),
    }
}

pub fn render(p: &EvProject) -> Vec<(String, String)> {
    let mut files: Vec<String> = (0..p.n_files).map(|_| String::from(PRELUDE)).collect();
    files[0].push_str("#[derive(Debug, Clone, Serialize, Deserialize)]\npub struct Note {\n    pub id: i32,\n    pub text: String,\n}\n\n#[derive(Debug, Clone, Serialize, Deserialize)]\npub enum Level {\n    Low,\n    High,\n}\n\n#[tauri::command]\npub fn ping() -> i32 {\n    1\n}\n\n");
    for f in &p.fns {
        let mut params: Vec<String> = vec!["app: AppHandle".into(), "window: tauri::Window".into(), "webview: tauri::WebviewWindow".into(), "state: State<'_, Holder>".into(), "ctx: State<'_, Holder>".into(), "self_like: State<'_, Holder>".into(), "flag: bool".into(), "other: bool".into(), "code: i32".into()];
        let mut body = String::new();
        for (k, e) in f.emits.iter().enumerate() {
            let (setup, extra, payload, _) = payload_parts(e, k);
            params.extend(extra);
            body.push_str(&setup);
            body.push_str(&place(e, &emit_call(e, &payload), k));
        }
        let body_ind: String = body.lines().map(|l| format!("    {}\n", l)).collect();
        let s = &mut files[f.file];
        if f.is_command {
            s.push_str("#[tauri::command]\n");
        }
        s.push_str(&format!("pub async fn {}({}) -> Result<(), String> {{\n{}    Ok(())\n}}\n\n", f.name, params.join(", "), body_ind));
    }
    files.into_iter().enumerate().map(|(i, s)| (crate::gen::graph::file_path(i), s)).collect()
}

/// expected: event name -> set of acceptable payload shapes (one per emission; they agree by
/// construction) ; `None` = unknown
pub fn expected_events(p: &EvProject) -> BTreeMap<String, Option<Shape>> {
    let mut m = BTreeMap::new();
    for f in &p.fns {
        for (k, e) in f.emits.iter().enumerate() {
            if e.decoy {
                continue;
            }
            let (_, _, _, shape) = payload_parts(e, k);
            m.insert(e.name.clone(), shape);
        }
    }
    m
}

pub struct Listener {
    pub fn_name: String,
    pub event: String,
    pub payload: Result<Shape, String>,
}

/// split events.ts at listener boundaries and parse each listener on its own
pub fn observe_listeners(events_ts: &str) -> Vec<Result<Listener, (String, String)>> {
    let mut out = vec![];
    let marker = "export async function ";
    let mut starts: Vec<usize> = events_ts.match_indices(marker).map(|(i, _)| i).collect();
    starts.push(events_ts.len());
    let re = regex::Regex::new(r#"listen<[^\n]*>\('((?:[^'\\\n]|\\.)*)'"#).unwrap();
    for w in starts.windows(2) {
        let mut chunk = &events_ts[w[0]..w[1]];
        // cut the JSDoc of the *next* listener off the end of this chunk
        if let Some(p) = chunk.rfind("\n/**") {
            chunk = &chunk[..p];
        }
        let raw_event = re.captures(chunk).map(|c| c[1].to_string());
        let m = parse_module(chunk, false);
        if let Some(e) = m.errors.first() {
            out.push(Err((raw_event.unwrap_or_default(), format!("{} ⟸ {}", e.msg, tsx::collapse_ws(chunk)))));
            continue;
        }
        for it in &m.items {
            if let Item::Function(f) = &it.item {
                let mut event = None;
                let mut listen_ty = None;
                tsx::walk_stmts(&f.body, &mut |e| {
                    if let Expr::Call { callee, type_args, args, .. } = e {
                        if matches!(&**callee, Expr::Ident(n) if n == "listen") {
                            if let Some(Expr::Str(s)) = args.first() {
                                event = Some(s.clone());
                            }
                            listen_ty = type_args.first().cloned();
                        }
                    }
                });
                let handler_payload = match f.params.first().and_then(|p| p.ty.as_ref()) {
                    Some(Type::Func { params, .. }) => params.first().and_then(|p| p.ty.clone()),
                    _ => None,
                };
                let payload = match (handler_payload, listen_ty) {
                    (Some(a), Some(b)) => {
                        if normalise(&a) == normalise(&b) {
                            Ok(normalise(&a))
                        } else {
                            Err(format!("handler payload {} differs from listen<{}>", normalise(&a), normalise(&b)))
                        }
                    }
                    _ => Err("payload annotation missing".into()),
                };
                out.push(Ok(Listener { fn_name: f.name.clone(), event: event.unwrap_or_default(), payload }));
            }
        }
    }
    out
}

fn name_tags(n: &str) -> Vec<String> {
    let mut t = vec![];
    if n.contains(':') {
        t.push("name_has=colon".to_string());
    }
    if n.contains('/') {
        t.push("name_has=slash".to_string());
    }
    if n.contains('-') {
        t.push("name_has=dash".to_string());
    }
    if n.contains('_') {
        t.push("name_has=underscore".to_string());
    }
    if n.chars().next().map_or(false, |c| c.is_ascii_digit()) {
        t.push("name_has=leading_digit".to_string());
    }
    if n.chars().any(|c| c.is_ascii_uppercase()) {
        t.push("name_has=uppercase".to_string());
    }
    t
}

pub fn check_project(p: &EvProject, mode: &str, stats: &mut Stats) -> Vec<Failure> {
    let files = render(p);
    for (path, s) in &files {
        must_parse(path, s);
    }
    let expected = expected_events(p);
    let all_emits: Vec<&Emit> = p.fns.iter().flat_map(|f| f.emits.iter()).collect();
    let repeated = {
        let mut c: BTreeMap<&String, usize> = BTreeMap::new();
        for e in all_emits.iter().filter(|e| !e.decoy) {
            *c.entry(&e.name).or_insert(0) += 1;
        }
        c.values().any(|v| *v > 1)
    };
    stats.eval();
    if expected.len() >= 2 && (expected.keys().any(|n| n.contains(':') || n.contains('/')) || repeated || all_emits.iter().any(|e| e.ty.depth() >= 1)) {
        stats.nontrivial(&(format!("{:?}", files), mode));
    }
    for e in &all_emits {
        stats.label(&format!("placement={}", e.placement));
        stats.label(&format!("payload={}", e.payload));
        stats.label(&format!("receiver={}", if e.decoy { "decoy" } else { e.receiver.as_str() }));
        stats.distinct("placement_x_receiver", &(&e.placement, &e.receiver));
    }
    if repeated {
        stats.label("repeated_event_name");
    }
    let out = generate(&files, &Cfg::mode(mode));
    let case = json!({"mode": mode, "files": files.iter().map(|(p, s)| json!({"path": p, "content": s})).collect::<Vec<_>>(), "expected_events": expected.iter().map(|(k, v)| (k.clone(), v.as_ref().map(|s| s.to_string()).unwrap_or("unknown".into()))).collect::<BTreeMap<_, _>>()});
    let base = vec![format!("mode={}", mode)];
    if let Err(e) = &out.result {
        return vec![Failure::new(if out.panic.is_some() { "panic" } else { "tool_error" }).tags(base).observed(e.clone()).expected("generation succeeds").case(case)];
    }
    let mut fails = vec![];
    let index = out.file("index.ts").unwrap_or("");
    let reexported = index.contains("'./events'");
    if expected.is_empty() && !all_emits.iter().any(|e| e.decoy) {
        if out.files.contains_key("events.ts") || reexported {
            fails.push(Failure::new("events_module_without_events").tags(base.clone()).observed(format!("events.ts present: {}, re-exported: {}", out.files.contains_key("events.ts"), reexported)).expected("no events module without events").case(case));
        }
        return fails;
    }
    let Some(ev) = out.file("events.ts") else {
        if expected.is_empty() {
            return fails;
        }
        return vec![Failure::new("events_module_missing").tags(base).observed(format!("{:?}", out.files.keys().collect::<Vec<_>>())).expected("events.ts").case(case)];
    };
    if !expected.is_empty() && !reexported {
        fails.push(Failure::new("events_not_reexported").tags(base.clone()).observed(index.to_string()).expected("export * from './events'").case(case.clone()));
    }
    let listeners = observe_listeners(ev);
    stats.sample(|| json!({"mode": mode, "expected_events": expected.keys().collect::<Vec<_>>(), "listeners": listeners.iter().map(|l| match l { Ok(l) => format!("{} -> '{}' : {:?}", l.fn_name, l.event, l.payload.as_ref().map(|s| s.to_string())), Err((n, e)) => format!("UNPARSABLE '{}': {}", n, crate::run::truncate(e, 120)) }).collect::<Vec<_>>()}));
    let emit_of = |name: &str| all_emits.iter().find(|e| e.name == name && !e.decoy).copied();
    let tags_for = |name: &str| -> Vec<String> {
        let mut t = base.clone();
        t.extend(name_tags(name));
        if let Some(e) = emit_of(name) {
            t.push(format!("placement={}", e.placement));
            t.push(format!("payload={}", e.payload));
            t.push(format!("receiver={}", e.receiver));
            if matches!(e.payload.as_str(), "typed_param" | "typed_let" | "ref_var" | "clone_var") {
                t.extend(e.ty.tags().into_iter().map(|x| format!("ty:{}", x)));
            }
        }
        let n_sites = all_emits.iter().filter(|e| e.name == name && !e.decoy).count();
        if n_sites > 1 {
            t.push("emitted_from_several_places".into());
        }
        let twin = expected.keys().any(|o| o != name && o.replace('-', "_") == name.replace('-', "_"));
        if twin {
            t.push("dash_underscore_twin".into());
        }
        t
    };
    let mut by_event: BTreeMap<String, Vec<&Listener>> = BTreeMap::new();
    let mut fn_names: BTreeMap<String, usize> = BTreeMap::new();
    for l in &listeners {
        match l {
            Ok(l) => {
                by_event.entry(l.event.clone()).or_default().push(l);
                *fn_names.entry(l.fn_name.clone()).or_insert(0) += 1;
                if !is_identifier_name(&l.fn_name) || is_reserved(&l.fn_name) {
                    fails.push(Failure::new("illegal_listener_identifier").tags(tags_for(&l.event)).observed(l.fn_name.clone()).expected("a legal identifier").case(case.clone()));
                }
            }
            Err((name, err)) => {
                fails.push(Failure::new("unparsable").tags(tags_for(name)).observed(err.clone()).expected(format!("a parsable listener for '{}'", name)).case(case.clone()));
            }
        }
    }
    let unparsable_names: BTreeSet<&String> = listeners.iter().filter_map(|l| l.as_ref().err().map(|(n, _)| n)).collect();
    for (fnname, n) in &fn_names {
        if *n > 1 {
            let events: Vec<&String> = listeners.iter().filter_map(|l| l.as_ref().ok()).filter(|l| &l.fn_name == fnname).map(|l| &l.event).collect();
            let mut t = base.clone();
            for e in &events {
                t.extend(tags_for(e));
            }
            t.sort();
            t.dedup();
            let distinct_events: BTreeSet<&&String> = events.iter().collect();
            t.push(if distinct_events.len() == 1 { "same_event".into() } else { "different_events".into() });
            fails.push(Failure::new("duplicate_listener_identifier").tags(t).observed(format!("{} declared {} times for events {:?}", fnname, n, events)).expected("unique listener identifiers").case(case.clone()));
        }
    }
    for (name, shape) in &expected {
        match by_event.get(name) {
            None => {
                if !unparsable_names.contains(name) {
                    fails.push(Failure::new("listener_missing").tags(tags_for(name)).observed(format!("listeners for {:?}", by_event.keys().collect::<Vec<_>>())).expected(format!("a listener subscribed to '{}'", name)).case(case.clone()));
                }
            }
            Some(ls) => {
                if ls.len() > 1 && !fn_names.iter().any(|(f, n)| *n > 1 && ls.iter().any(|l| &l.fn_name == f)) {
                    fails.push(Failure::new("several_listeners_for_one_event").tags(tags_for(name)).observed(format!("{:?}", ls.iter().map(|l| &l.fn_name).collect::<Vec<_>>())).expected("exactly one listener per distinct event name").case(case.clone()));
                }
                for l in ls {
                    match (&l.payload, shape) {
                        (Err(e), _) => fails.push(Failure::new("payload_annotation_inconsistent").tags(tags_for(name)).observed(e.clone()).expected("one payload type").case(case.clone())),
                        (Ok(s), None) => {
                            if *s != Shape::Unknown {
                                fails.push(Failure::new("payload_not_unknown").tags(tags_for(name)).observed(s.to_string()).expected("unknown (payload type not syntactically evident)").case(case.clone()));
                            }
                        }
                        (Ok(s), Some(want)) => {
                            if s != want {
                                fails.push(Failure::new("wrong_payload_type").tags(tags_for(name)).observed(s.to_string()).expected(want.to_string()).case(case.clone()));
                            }
                        }
                    }
                }
            }
        }
    }
    for name in by_event.keys() {
        if !expected.contains_key(name) {
            let decoy = all_emits.iter().find(|e| e.decoy && &e.name == name);
            let mut t = base.clone();
            if let Some(d) = decoy {
                t.push(format!("decoy_receiver={}", d.receiver));
            }
            fails.push(Failure::new("listener_for_non_event").tags(t).observed(format!("listener for '{}'", name)).expected(format!("listeners only for {:?}", expected.keys().collect::<Vec<_>>())).case(case.clone()));
        }
    }
    fails
}

fn shallow_ty(t: &mut Tape, deep: bool) -> Ty {
    let leaf = |t: &mut Tape| match t.pick(6) {
        0 => Ty::named("Note"),
        1 => Ty::named("Level"),
        2 => Ty::Prim("String"),
        3 => Ty::Prim("u32"),
        4 => Ty::Prim("bool"),
        _ => Ty::Prim("f64"),
    };
    if !deep || t.chance(1, 2) {
        // a borrowed value is the same payload: `let v: &Note = ..`, `fn f(v: &Note)`
        let l = leaf(t);
        return if t.chance(1, 5) { Ty::Ref(bx(l)) } else { l };
    }
    match t.pick(6) {
        5 => Ty::Vec(bx(Ty::Ref(bx(leaf(t))))),
        0 => Ty::Vec(bx(leaf(t))),
        1 => Ty::Option(bx(leaf(t))),
        2 => Ty::HashMap(bx(Ty::Prim("String")), bx(leaf(t))),
        3 => Ty::Tuple(vec![leaf(t), leaf(t)]),
        _ => Ty::Vec(bx(Ty::Option(bx(leaf(t))))),
    }
}

pub fn random_project(t: &mut Tape, deep: bool) -> (EvProject, &'static str) {
    let mode = if t.bool() { "zod" } else { "none" };
    let n_files = t.range(1, 4);
    let n_fns = t.range(0, 4);
    let mut fns = vec![];
    // a pool of events for this project; each has one fixed payload description
    let n_events = t.range(0, 5);
    let mut pool: Vec<Emit> = vec![];
    for _ in 0..n_events {
        let mut name = names::random_event_name(t);
        if t.chance(1, 3) && !pool.is_empty() {
            // a twin differing only in '-' / '_'
            let base = pool[t.pick(pool.len())].name.clone();
            let tw = match t.pick(4) {
                0 => format!("{}-2", base),
                1 => format!("{}2", base),
                _ => {
                    if base.contains('-') {
                        base.replace('-', "_")
                    } else {
                        base.replace('_', "-")
                    }
                }
            };
            if tw != base {
                name = tw;
            }
        }
        if pool.iter().any(|e| e.name == name) {
            continue;
        }
        let payload = t.choose(PAYLOADS).to_string();
        pool.push(Emit { name, receiver: String::new(), emit_to: false, placement: String::new(), payload, ty: shallow_ty(t, deep), decoy: false });
    }
    for fi in 0..n_fns {
        let n_emits = if pool.is_empty() { 0 } else { t.range(0, 3) };
        let mut emits = vec![];
        for _ in 0..n_emits {
            let mut e = pool[t.pick(pool.len())].clone();
            e.receiver = t.choose(RECEIVERS).to_string();
            e.emit_to = t.chance(1, 4);
            e.placement = t.choose(PLACEMENTS).to_string();
            emits.push(e);
        }
        if t.chance(1, 5) {
            emits.push(Emit { name: format!("decoy-{}", fi), receiver: t.choose(DECOY_RECEIVERS).to_string(), emit_to: false, placement: "stmt".into(), payload: "lit_int".into(), ty: Ty::Prim("i32"), decoy: true });
        }
        fns.push(FnM { name: format!("handler_{}", fi), is_command: t.bool(), file: t.pick(n_files), emits });
    }
    (EvProject { n_files, fns }, mode)
}

/// every placement x receiver once, every payload form once, every name character class once
pub fn grid() -> Vec<(EvProject, &'static str)> {
    let mut out = vec![];
    let single = |e: Emit, mode: &'static str| (EvProject { n_files: 1, fns: vec![FnM { name: "handler".into(), is_command: true, file: 0, emits: vec![e] }] }, mode);
    for pl in PLACEMENTS {
        for rc in RECEIVERS {
            out.push(single(Emit { name: "thing-happened".into(), receiver: rc.to_string(), emit_to: false, placement: pl.to_string(), payload: "lit_str".into(), ty: Ty::Prim("String"), decoy: false }, "none"));
        }
    }
    for mode in ["none", "zod"] {
        for pay in PAYLOADS {
            for ty in [Ty::named("Note"), Ty::Prim("u32"), Ty::Vec(bx(Ty::named("Note"))), Ty::Option(bx(Ty::Prim("String"))), Ty::Tuple(vec![Ty::Prim("i32"), Ty::named("Level")])] {
                out.push(single(Emit { name: "data_ready".into(), receiver: "app".into(), emit_to: *pay == "lit_int", placement: "stmt".into(), payload: pay.to_string(), ty, decoy: false }, mode));
            }
        }
        for name in ["update", "user-updated", "download_done", "app://ready", "user:login", "a/b", "x", "9lives", "Mixed-Case_Name", "a:b/c-d_e", "user-id", "delete", "new"] {
            out.push(single(Emit { name: name.into(), receiver: "window".into(), emit_to: false, placement: "stmt".into(), payload: "lit_bool".into(), ty: Ty::Prim("bool"), decoy: false }, mode));
        }
        // the same event from two functions in two files; twins; no events at all
        let e = |n: &str| Emit { name: n.into(), receiver: "app".into(), emit_to: false, placement: "stmt".into(), payload: "struct_expr".into(), ty: Ty::named("Note"), decoy: false };
        out.push((EvProject { n_files: 2, fns: vec![FnM { name: "first".into(), is_command: true, file: 0, emits: vec![e("note-saved")] }, FnM { name: "second".into(), is_command: false, file: 1, emits: vec![e("note-saved"), e("note-saved")] }] }, mode));
        out.push((EvProject { n_files: 1, fns: vec![FnM { name: "first".into(), is_command: true, file: 0, emits: vec![e("note-saved"), e("note_saved")] }] }, mode));
        out.push((EvProject { n_files: 1, fns: vec![FnM { name: "first".into(), is_command: true, file: 0, emits: vec![] }] }, mode));
    }
    out
}

pub fn run(ctx: &Ctx) {
    ctx.set_rule("projects of 1-4 files with 0-4 functions (commands and helpers) whose bodies place emit/emit_to at 17 positions (statement, let initialiser, if/else-if/else, match arms, loop/while/for, nested blocks, ?, .await, .unwrap()/.ok()/.expect()) on 9 documented receiver forms; event names over [A-Za-z0-9_-/:] incl. '-'/'_' twins; one name emitted 1-3 times; 17 payload forms (literals, struct expression, typed parameter/let of shallow or one-level composite types, &x, x.clone(), and non-evident forms); decoy emits on undocumented receivers; grid = every placement x receiver, every payload form x 5 types x 2 modes, 13 name shapes, repeated/twin/no-event projects; then random projects. evaluation = one generation run; non-trivial = >=2 events and (a name with ':' or '/', or a repeated name, or a composite payload)");
    ctx.set_exhaustive(false);
    ctx.assume("payload 'syntactically evident' = literal, struct expression, typed parameter/binding, &x, x.clone(); call/method/tuple/macro results must be `unknown`");
    let g = grid();
    let idx: Vec<usize> = (0..g.len()).collect();
    ctx.note("grid_cases", json!(g.len()));
    ctx.enumerate("c12.grid", &idx, |i| json!({"index": i}), |i, stats| check_project(&g[*i].0, g[*i].1, stats));
    let deep = ctx.tier == crate::run::Tier::Thorough;
    let cases = ctx.tier.pick(2000, 300000);
    ctx.search("c12.random", cases, 160, |tape, stats| {
        let (p, mode) = random_project(tape, deep);
        check_project(&p, mode, stats)
    });
}

pub fn replay(check: &str, input: &Value, stats: &mut Stats) -> Option<Vec<Failure>> {
    match check {
        "c12.grid" => {
            let g = grid();
            let (p, m) = g.get(input["index"].as_u64()? as usize)?;
            Some(check_project(p, m, stats))
        }
        "c12.explicit" => {
            // one emit of the given payload form in a single command
            let e = Emit { name: "data_ready".into(), receiver: "app".into(), emit_to: false, placement: "stmt".into(), payload: input["payload"].as_str()?.to_string(), ty: Ty::named("Note"), decoy: false };
            let p = EvProject { n_files: 1, fns: vec![FnM { name: "handler".into(), is_command: true, file: 0, emits: vec![e] }] };
            Some(check_project(&p, input["mode"].as_str().unwrap_or("none"), stats))
        }
        "c12.random" => {
            let mut tape = Tape::new(super::tape_of(input));
            let deep = input["deep"].as_bool().unwrap_or(false);
            let (p, mode) = random_project(&mut tape, deep);
            let mut f = check_project(&p, mode, stats);
            if f.is_empty() && !deep {
                let mut tape = Tape::new(super::tape_of(input));
                let (p, mode) = random_project(&mut tape, true);
                f = check_project(&p, mode, stats);
            }
            Some(f)
        }
        _ => None,
    }
}
