//! C07 — types.ts declares exactly the serde types reachable from the public surface.

use crate::gen::graph::{self, TypeGraph, ROOT_SITES, WRAPS};
use crate::gen::rust::must_parse;
use crate::run::{Ctx, Failure, Stats};
use crate::tape::Tape;
use crate::tool::{generate, Cfg};
use crate::ts::ast::Item;
use crate::tsx;
use serde_json::{json, Value};
use std::collections::{BTreeMap, BTreeSet};

/// declared type names of types.ts (Params helper types excluded), with multiplicity
pub fn declared_types(types_ts: &str, zod: bool) -> (BTreeMap<String, usize>, Vec<String>) {
    let p = tsx::parse(types_ts);
    let mut m: BTreeMap<String, usize> = BTreeMap::new();
    let errs = p.errors().iter().map(|e| e.msg.clone()).collect();
    let mut aliases: BTreeSet<String> = BTreeSet::new();
    let mut schemas: BTreeMap<String, usize> = BTreeMap::new();
    for it in &p.module.items {
        match &it.item {
            Item::Interface(i) if !i.name.ends_with("Params") => *m.entry(i.name.clone()).or_insert(0) += 1,
            Item::TypeAlias { name, .. } if !name.ends_with("Params") => {
                if zod {
                    aliases.insert(name.clone());
                } else {
                    *m.entry(name.clone()).or_insert(0) += 1;
                }
            }
            Item::Const { name, .. } if zod && name.ends_with("Schema") && !name.ends_with("ParamsSchema") => {
                *schemas.entry(name.trim_end_matches("Schema").to_string()).or_insert(0) += 1;
            }
            _ => {}
        }
    }
    if zod {
        // a type counts as declared through its schema and/or its alias
        for (k, v) in schemas {
            m.insert(k, v);
        }
        for a in aliases {
            m.entry(a).or_insert(1);
        }
    }
    (m, errs)
}

pub fn check_graph(g: &TypeGraph, mode: &str, stats: &mut Stats) -> Vec<Failure> {
    let files = g.render();
    for (p, s) in &files {
        must_parse(p, s);
    }
    let reach = g.reachable();
    let expected: BTreeSet<String> = reach.iter().map(|i| g.nodes[*i].name.clone()).collect();
    stats.eval();
    let nested_edge = g.edges.iter().any(|e| reach.contains(&e.from) && !matches!(e.wrap.as_str(), "direct")) || g.roots.iter().any(|r| r.wrap != "direct");
    let has_decoy = g.nodes.len() > reach.len();
    if g.nodes.len() >= 3 && nested_edge && has_decoy {
        stats.nontrivial(&(format!("{:?}", files), mode));
    }
    stats.label(&format!("mode={}", mode));
    stats.label(&format!("files={}", g.n_files));
    for r in &g.roots {
        stats.label(&format!("root_site={}", r.site));
        stats.distinct("root_site_x_wrap", &(&r.site, &r.wrap));
    }
    for e in &g.edges {
        stats.distinct("edge_wraps", &e.wrap);
    }
    let has_cycle = {
        // simple check: any edge to an index <= from
        g.edges.iter().any(|e| e.to <= e.from)
    };
    if has_cycle {
        stats.label("has_cycle_or_selfloop");
    }
    let out = generate(&files, &Cfg::mode(mode));
    let case = json!({"mode": mode, "graph": g.summary(), "files": files.iter().map(|(p, s)| json!({"path": p, "content": s})).collect::<Vec<_>>()});
    let base_tags = vec![format!("mode={}", mode)];
    if let Err(e) = &out.result {
        return vec![Failure::new(if out.panic.is_some() { "panic" } else { "tool_error" }).tags(base_tags).observed(e.clone()).expected("generation succeeds").case(case)];
    }
    let (declared, errs) = declared_types(out.file("types.ts").unwrap_or(""), mode == "zod");
    stats.sample(|| json!({"mode": mode, "graph": g.summary(), "expected_types": expected, "declared": declared}));
    let mut fails = vec![];
    // frontier of missing types: roots, or children of a declared parent
    for i in &reach {
        let name = &g.nodes[*i].name;
        if declared.contains_key(name) {
            continue;
        }
        let mut via: BTreeSet<String> = BTreeSet::new();
        for r in g.roots.iter().filter(|r| r.node == *i && r.site != "result_err") {
            via.insert(format!("via=root:{}:{}", r.site, r.wrap));
        }
        for e in g.edges.iter().filter(|e| e.to == *i && reach.contains(&e.from) && declared.contains_key(&g.nodes[e.from].name)) {
            via.insert(format!("via=field:{}", e.wrap));
        }
        if via.is_empty() {
            continue; // lost together with its parent: one root cause, reported at the frontier
        }
        let mut f = Failure::new("reachable_type_missing").tags(base_tags.clone()).tags(via.iter().cloned()).observed(format!("declared: {:?}", declared.keys().collect::<Vec<_>>())).expected(format!("{} declared (reachable {})", name, via.iter().cloned().collect::<Vec<_>>().join(", "))).case(case.clone());
        if !errs.is_empty() {
            f = f.tag("types_ts_has_syntax_errors");
        }
        fails.push(f);
    }
    for (name, count) in &declared {
        if !expected.contains(name) {
            let kind_tag = match g.nodes.iter().position(|n| &n.name == name) {
                Some(i) if !g.nodes[i].serde => "decoy=non_serde".to_string(),
                Some(i) if g.roots.iter().any(|r| r.site == "result_err" && r.node == i) => "decoy=result_err_arm".to_string(),
                Some(_) => {
                    // reachable only from an error-arm type?
                    "decoy=unreferenced_or_err_only".to_string()
                }
                None => "decoy=unknown_name".to_string(),
            };
            fails.push(Failure::new("unreachable_type_emitted").tags(base_tags.clone()).tag(kind_tag).observed(format!("{} is declared", name)).expected(format!("only {:?}", expected)).case(case.clone()));
        } else if *count > 1 {
            fails.push(Failure::new("type_declared_twice").tags(base_tags.clone()).observed(format!("{} declared {} times", name, count)).expected("exactly once").case(case.clone()));
        }
    }
    fails
}

/// every (root site x wrap) pair once, on a two-node graph with a decoy
pub fn pair_grid() -> Vec<(TypeGraph, &'static str)> {
    let mut out = vec![];
    for site in ROOT_SITES {
        for w in WRAPS {
            if *site == "result_err" && *w != "direct" {
                continue;
            }
            for (ei, edge_wrap) in ["direct", *w].into_iter().enumerate() {
                for mode in ["none", "zod"] {
                    let mut g = TypeGraph {
                        n_files: 2,
                        nodes: vec![
                            graph::Node::new("Outer".into(), false, 1, true),
                            graph::Node::new("Inner".into(), false, 0, true),
                            graph::Node::new("Level".into(), true, 1, true),
                            graph::Node::new("UnusedDto".into(), false, 1, true),
                            graph::Node::new("PlainHelper".into(), false, 0, false),
                            graph::Node::new("Marker".into(), false, 0, true),
                        ],
                        edges: vec![graph::Edge { from: 0, to: 1, wrap: edge_wrap.to_string() }, graph::Edge { from: 1, to: 2, wrap: (*w).to_string() }, graph::Edge { from: 1, to: 5, wrap: (*w).to_string() }],
                        roots: vec![graph::Root { site: site.to_string(), wrap: w.to_string(), node: 0, file: 0 }],
                        qualify: false,
                    };
                    g.qualify = (out.len() / 2) % 3 == 1;
                    // derive spellings and the unit-struct form rotate over the grid
                    let k = out.len() / 2 + ei;
                    g.nodes[1].derive = graph::DERIVE_FORMS[k % graph::DERIVE_FORMS.len()];
                    g.nodes[2].derive = graph::DERIVE_FORMS[(k / 5) % graph::DERIVE_FORMS.len()];
                    g.nodes[5].unit = true;
                    out.push((g, mode));
                }
            }
        }
    }
    // later additions go last (indices above stay what they were): the only mention of a type
    // sits below nine / twelve constructors, at an edge or at the root
    let template = out[0].0.clone();
    for site in ROOT_SITES {
        if matches!(*site, "result_err" | "event" | "event_to") {
            continue;
        }
        for w in ["deep9", "deep12"] {
            for (root_wrap, edge_wrap) in [("direct", w), (w, "direct"), (w, w)] {
                for mode in ["none", "zod"] {
                    let mut g = template.clone();
                    g.edges = vec![graph::Edge { from: 0, to: 1, wrap: edge_wrap.to_string() }, graph::Edge { from: 1, to: 2, wrap: w.to_string() }, graph::Edge { from: 1, to: 5, wrap: edge_wrap.to_string() }];
                    g.roots = vec![graph::Root { site: site.to_string(), wrap: root_wrap.to_string(), node: 0, file: 0 }];
                    g.qualify = false;
                    out.push((g, mode));
                }
            }
        }
    }
    // a serde type in an inline module with a non-serde namesake in an earlier private module
    for site in ROOT_SITES {
        if *site == "result_err" {
            continue;
        }
        for (which, mode) in [(0usize, "none"), (0, "zod"), (1, "none"), (1, "zod"), (2, "zod")] {
            let mut g = template.clone();
            g.roots = vec![graph::Root { site: site.to_string(), wrap: "direct".to_string(), node: 0, file: 0 }];
            g.nodes[which].inline_mod = true;
            g.nodes[which].shadowed = true;
            g.qualify = false;
            out.push((g, mode));
        }
    }
    out
}

fn random_case(t: &mut Tape) -> (TypeGraph, &'static str) {
    let mode = if t.bool() { "zod" } else { "none" };
    (graph::random_graph(t, true), mode)
}

pub fn run(ctx: &Ctx) {
    ctx.set_rule("type graphs of 1-8 nodes (named-field and unit structs, unit enums; serde derive spelled as Serialize+Deserialize / one of them / serde::-qualified / in a separate derive attribute; chains, diamonds, fan-out, cycles, self-loops) spread over 1-5 files, each edge through one of 16 wraps (direct, Option, Vec, HashSet, map value/key, tuple slots, two-level nestings), 1-3 roots through {param, return, Result ok arm, Result err arm, Channel<T>, emit payload, emit_to payload} with their own wraps, plus unreachable serde decoys and types without serde derive; both modes; a grid of every (root site x wrap x edge wrap) once, then random graphs; evaluation = one generation run; non-trivial = >=3 types, >=1 nested wrap, >=1 decoy");
    ctx.set_exhaustive(false);
    ctx.assume("expected set = BFS over the graph model (error arms of Result do not make a type reachable)");
    let grid = pair_grid();
    let idx: Vec<usize> = (0..grid.len()).collect();
    ctx.note("grid_cases", json!(grid.len()));
    ctx.enumerate("c07.grid", &idx, |i| json!({"index": i}), |i, stats| check_graph(&grid[*i].0, grid[*i].1, stats));
    let cases = ctx.tier.pick(1500, 400000);
    ctx.search("c07.random", cases, 200, |tape, stats| {
        let (g, mode) = random_case(tape);
        check_graph(&g, mode, stats)
    });
}

pub fn replay(check: &str, input: &Value, stats: &mut Stats) -> Option<Vec<Failure>> {
    match check {
        "c07.grid" => {
            let grid = pair_grid();
            let (g, m) = grid.get(input["index"].as_u64()? as usize)?;
            Some(check_graph(g, m, stats))
        }
        "c07.random" => {
            let mut tape = Tape::new(super::tape_of(input));
            let (g, mode) = random_case(&mut tape);
            Some(check_graph(&g, mode, stats))
        }
        _ => None,
    }
}
