//! C13 — output is a deterministic function of sources and configuration.
//!
//! (a) repeated runs on identical input (in-process: every run builds fresh hash maps with fresh
//!     random states; fresh processes of the real binary incl. `--verbose`, `--visualize-deps`)
//!     must be byte-identical after removing the timestamp line; `--visualize-deps` adds exactly
//!     `dependency-graph.txt` and `dependency-graph.dot`;
//! (b) metamorphic transforms of the sources: T1 comments / whitespace and T2 decoy items must
//!     leave the output unchanged; T3 reordering items inside a file, T4 moving items between
//!     files / splitting / merging files and T5 renaming files / directories may change the
//!     order of declarations only.

use crate::gen::rust::must_parse;
use crate::run::{stable_hash, Ctx, Failure, Stats};
use crate::sandbox::declaration_map;
use crate::tape::Tape;
use crate::tool::{self, fresh_dir, generate, strip_timestamp, Cfg};
use crate::tsx;
use serde_json::{json, Value};
use std::collections::{BTreeMap, BTreeSet};

// ------------------------------------------------------------------------------------------
// project model

#[derive(Clone, Debug, PartialEq, Eq, Hash)]
pub struct TypeDef {
    pub name: String,
    pub is_enum: bool,
    /// struct: (field, rust type); enum: (variant, "")
    pub members: Vec<(String, String)>,
    pub rename_all: bool,
    /// declared inside `pub mod dto_<name> { use super::*; … }` and re-exported with `pub use`
    pub inline: bool,
}

#[derive(Clone, Debug, PartialEq, Eq, Hash)]
pub struct Cmd {
    pub name: String,
    pub is_async: bool,
    pub params: Vec<(String, String)>,
    pub ret: Option<String>,
    pub channel: Option<(String, String)>,
    /// (event name, payload expression)
    pub emits: Vec<(String, String)>,
}

#[derive(Clone, Debug, PartialEq, Eq, Hash)]
pub enum ItemKind {
    Type(TypeDef),
    Cmd(Cmd),
    /// verbatim text of an item no generator looks at (helper fn, non-serde struct, const, use …)
    Decoy(String),
}

/// layout noise attached to one item (T1)
#[derive(Clone, Debug, Default, PartialEq, Eq, Hash)]
pub struct Noise {
    /// lines placed before the item (comments, blank lines)
    pub before: Vec<String>,
    pub doc: bool,
    pub inner_comment: bool,
    pub multiline: bool,
    pub trailing_ws: bool,
}

#[derive(Clone, Debug, PartialEq, Eq, Hash)]
pub struct Item {
    pub kind: ItemKind,
    pub noise: Noise,
}

#[derive(Clone, Debug, PartialEq, Eq, Hash)]
pub struct FileM {
    /// relative to the project directory, e.g. `src/api/users.rs`
    pub path: String,
    pub items: Vec<Item>,
}

#[derive(Clone, Debug, PartialEq, Eq, Hash)]
pub struct Project {
    pub mode: &'static str,
    pub files: Vec<FileM>,
}

const FILE_POOL: &[&str] = &[
    "src/commands.rs", "src/models.rs", "src/events.rs", "src/api/users.rs", "src/api/files.rs", "src/domain/types.rs", "src/domain/orders.rs", "src/util/helpers.rs", "src/state.rs", "src/handlers/sync.rs",
    "src/handlers/export.rs", "src/settings.rs",
    // files that share their name with another one (same depth and different depth): any file order that is
    // not a total order over full paths shows as nondeterminism here
    "src/api/commands.rs", "src/domain/users.rs", "src/handlers/types.rs", "src/util/sync.rs", "src/domain/files.rs",
];
const DIR_POOL: &[&str] = &["backend", "core", "features", "services"];
const TYPE_WORDS: &[&str] = &["User", "Order", "Invoice", "Report", "Session", "Profile", "Ticket", "Asset", "Device", "Folder"];
const FIELD_POOL: &[&str] = &["id", "name", "count", "is_ready", "created_at", "items", "owner", "tag_list", "total_amount", "note"];
const VARIANT_POOL: &[&str] = &["Active", "Pending", "Closed", "OnHold", "Archived"];
const PRIMS: &[&str] = &["i32", "String", "bool", "f64", "u64", "Option<String>", "Vec<i32>", "u8"];
const CMD_WORDS: &[&str] = &["load", "save", "list", "remove", "sync", "export", "count", "reset", "find", "update"];
const PARAM_POOL: &[&str] = &["id", "query", "page_size", "payload", "force", "target", "filter_by", "item"];
const EVENT_WORDS: &[&str] = &["changed", "progress", "done", "failed", "started", "tick"];

fn type_ref(t: &mut Tape, types: &[TypeDef]) -> String {
    let ty = &types[t.pick(types.len())];
    match t.pick(3) {
        0 => ty.name.clone(),
        1 => format!("Option<{}>", ty.name),
        _ => format!("Vec<{}>", ty.name),
    }
}

pub fn gen_project(t: &mut Tape) -> Project {
    let mode = if t.bool() { "zod" } else { "none" };
    let nfiles = t.range(2, 6);
    let ntypes = t.range(2, 7);
    let ncmds = t.range(2, 7);
    // file paths: the crate root plus distinct entries of the pool
    let mut paths: Vec<String> = vec!["src/lib.rs".to_string()];
    let mut pool: Vec<&str> = FILE_POOL.to_vec();
    while paths.len() < nfiles {
        let i = t.pick(pool.len());
        paths.push(pool.remove(i).to_string());
    }
    // types: a type refers to earlier types only (no cycles; deep nesting is not this property's business)
    let mut types: Vec<TypeDef> = vec![];
    for i in 0..ntypes {
        let is_enum = i > 0 && t.chance(1, 3);
        let mut name = format!("{}{}", TYPE_WORDS[t.pick(TYPE_WORDS.len())], i);
        if i > 0 && t.chance(1, 4) {
            // a name that differs from an earlier one only in the case of one letter (UserId /
            // UserID): any ordering that ignores case leaves such a pair to the hash seed
            let earlier: &TypeDef = &types[t.pick(types.len())];
            let mut chars: Vec<char> = earlier.name.chars().collect();
            if let Some(pos) = chars.iter().rposition(|c| c.is_ascii_lowercase()) {
                chars[pos] = chars[pos].to_ascii_uppercase();
            }
            let variant: String = chars.into_iter().collect();
            if !types.iter().any(|x| x.name == variant) {
                name = variant;
            }
        }
        let mut members = vec![];
        if is_enum {
            let nv = t.range(1, 4);
            for v in 0..nv {
                members.push((VARIANT_POOL[(v + i) % VARIANT_POOL.len()].to_string(), String::new()));
            }
        } else {
            let nf = t.range(1, 4);
            let off = t.pick(FIELD_POOL.len());
            for f in 0..nf {
                let fname = FIELD_POOL[(off + f) % FIELD_POOL.len()].to_string();
                let ty = if !types.is_empty() && t.chance(1, 3) { type_ref(t, &types) } else { PRIMS[t.pick(PRIMS.len())].to_string() };
                members.push((fname, ty));
            }
        }
        let rename_all = t.chance(1, 4);
        types.push(TypeDef { name, is_enum, members, rename_all, inline: false });
    }
    let structs: Vec<TypeDef> = types.iter().filter(|x| !x.is_enum).cloned().collect();
    let mut cmds: Vec<Cmd> = vec![];
    let mut ev_counter = 0;
    for k in 0..ncmds {
        let name = format!("{}_{}{}", CMD_WORDS[t.pick(CMD_WORDS.len())], TYPE_WORDS[k % TYPE_WORDS.len()].to_lowercase(), k);
        let np = t.pick(4);
        let off = t.pick(PARAM_POOL.len());
        let mut params = vec![];
        for p in 0..np {
            let pname = PARAM_POOL[(off + p) % PARAM_POOL.len()].to_string();
            let ty = if t.chance(2, 3) { type_ref(t, &types) } else { PRIMS[t.pick(PRIMS.len())].to_string() };
            params.push((pname, ty));
        }
        let ret = match t.pick(6) {
            0 => None,
            1 => Some(PRIMS[t.pick(PRIMS.len())].to_string()),
            2 => Some(format!("Result<{}, String>", type_ref(t, &types))),
            3 => Some("Result<(), String>".to_string()),
            _ => Some(type_ref(t, &types)),
        };
        let channel = if t.chance(1, 5) { Some(("on_event".to_string(), if t.bool() { types[t.pick(types.len())].name.clone() } else { "u32".to_string() })) } else { None };
        let ne = t.pick(3);
        let mut emits = vec![];
        for _ in 0..ne {
            ev_counter += 1;
            let ev = format!("{}-{}{}", name.split('_').next().unwrap_or("x"), EVENT_WORDS[t.pick(EVENT_WORDS.len())], ev_counter);
            // payloads whose type the tool can name: literals, struct literals, a by-reference
            // parameter of plain struct type
            let struct_params: Vec<&(String, String)> = params.iter().filter(|(_, ty)| structs.iter().any(|s| &s.name == ty)).collect();
            let payload = match t.pick(5) {
                // a binding whose type only a type checker could know: the payload must be
                // `unknown` whatever other functions of the file call their variables
                4 => "summary".to_string(),
                0 => "1".to_string(),
                1 => "\"text\"".to_string(),
                2 if !struct_params.is_empty() => format!("&{}", struct_params[t.pick(struct_params.len())].0),
                _ => format!("{} {{ ..Default::default() }}", structs[t.pick(structs.len())].name),
            };
            emits.push((ev, payload));
        }
        cmds.push(Cmd { name, is_async: t.bool(), params, ret, channel, emits });
    }
    let mut files: Vec<FileM> = paths.iter().map(|p| FileM { path: p.clone(), items: vec![] }).collect();
    for ty in types {
        let f = t.pick(nfiles);
        files[f].items.push(Item { kind: ItemKind::Type(ty), noise: Noise::default() });
    }
    // the first two commands live in different files (the property is about multi-file projects)
    let first = t.pick(nfiles);
    let second = (first + 1 + t.pick(nfiles - 1)) % nfiles;
    for (k, c) in cmds.into_iter().enumerate() {
        let f = match k {
            0 => first,
            1 => second,
            _ => t.pick(nfiles),
        };
        files[f].items.push(Item { kind: ItemKind::Cmd(c), noise: Noise::default() });
    }
    // later addition, drawn last (an exhausted tape yields 0 = unchanged): some types live in an
    // inline module of their file
    if t.pick(3) == 2 {
        for f in files.iter_mut() {
            for it in f.items.iter_mut() {
                if let ItemKind::Type(ty) = &mut it.kind {
                    if t.pick(2) == 1 {
                        ty.inline = true;
                    }
                }
            }
        }
    }
    Project { mode, files }
}

/// a fixed three-file project (the smallest shape that is non-trivial)
pub fn fixed_project(mode: &'static str) -> Project {
    let user = TypeDef { name: "User".into(), is_enum: false, members: vec![("id".into(), "i32".into()), ("name".into(), "String".into())], rename_all: false, inline: false };
    let order = TypeDef { name: "Order".into(), is_enum: false, members: vec![("id".into(), "i32".into()), ("owner".into(), "User".into())], rename_all: false, inline: false };
    let status = TypeDef { name: "Status".into(), is_enum: true, members: vec![("Active".into(), "".into()), ("Closed".into(), "".into())], rename_all: false, inline: false };
    let c1 = Cmd { name: "get_user".into(), is_async: false, params: vec![("id".into(), "i32".into())], ret: Some("User".into()), channel: None, emits: vec![] };
    let c2 = Cmd { name: "list_orders".into(), is_async: true, params: vec![("status".into(), "Status".into())], ret: Some("Vec<Order>".into()), channel: None, emits: vec![("orders-listed".into(), "1".into())] };
    let c3 = Cmd { name: "save_user".into(), is_async: false, params: vec![("user".into(), "User".into())], ret: Some("Result<(), String>".into()), channel: None, emits: vec![("user-saved".into(), "&user".into())] };
    let it = |k: ItemKind| Item { kind: k, noise: Noise::default() };
    Project {
        mode,
        files: vec![
            FileM { path: "src/lib.rs".into(), items: vec![it(ItemKind::Cmd(c1))] },
            FileM { path: "src/orders.rs".into(), items: vec![it(ItemKind::Cmd(c2)), it(ItemKind::Cmd(c3))] },
            FileM { path: "src/models.rs".into(), items: vec![it(ItemKind::Type(user)), it(ItemKind::Type(order)), it(ItemKind::Type(status))] },
        ],
    }
}

// ------------------------------------------------------------------------------------------
// rendering

fn render_item(it: &Item, out: &mut String) {
    for l in &it.noise.before {
        out.push_str(l);
        out.push('\n');
    }
    let tw = if it.noise.trailing_ws { "   " } else { "" };
    match &it.kind {
        ItemKind::Decoy(text) => {
            out.push_str(text);
            out.push('\n');
        }
        ItemKind::Type(ty) => {
            if ty.inline {
                out.push_str(&format!("pub mod dto_{} {{\nuse super::*;\n\n", ty.name.to_lowercase()));
            }
            if it.noise.doc {
                out.push_str(&format!("/// {} as it is sent to the frontend.\n/// Keep in sync with the UI.\n", ty.name));
            }
            out.push_str(&format!("#[derive(Debug, Clone, Default, Serialize, Deserialize)]{}\n", tw));
            if ty.rename_all {
                out.push_str("#[serde(rename_all = \"camelCase\")]\n");
            }
            if ty.is_enum {
                out.push_str(&format!("pub enum {} {{\n", ty.name));
                if it.noise.inner_comment {
                    out.push_str("    // the first variant is the default\n");
                }
                for (i, (v, _)) in ty.members.iter().enumerate() {
                    if i == 0 {
                        out.push_str("    #[default]\n");
                    }
                    out.push_str(&format!("    {},{}\n", v, tw));
                }
            } else {
                out.push_str(&format!("pub struct {} {{\n", ty.name));
                for (i, (f, t)) in ty.members.iter().enumerate() {
                    if it.noise.inner_comment && i == 0 {
                        out.push_str("    /* primary member */\n");
                    }
                    if it.noise.multiline {
                        out.push_str(&format!("    pub {}\n        : {},\n", f, t));
                    } else {
                        out.push_str(&format!("    pub {}: {},{}\n", f, t, tw));
                    }
                }
            }
            out.push_str("}\n\n");
            if ty.inline {
                out.push_str(&format!("}}\n\npub use dto_{}::*;\n\n", ty.name.to_lowercase()));
            }
        }
        ItemKind::Cmd(c) => {
            if it.noise.doc {
                out.push_str(&format!("/// Command `{}`.\n", c.name));
            }
            out.push_str("#[tauri::command]\n");
            let mut ps: Vec<String> = vec![];
            if !c.emits.is_empty() {
                ps.push("app: AppHandle".to_string());
            }
            for (n, t) in &c.params {
                ps.push(format!("{}: {}", n, t));
            }
            if let Some((n, m)) = &c.channel {
                ps.push(format!("{}: Channel<{}>", n, m));
            }
            let sig = if it.noise.multiline && !ps.is_empty() { format!("\n    {},\n", ps.join(",\n    ")) } else { ps.join(", ") };
            out.push_str(&format!("pub {}fn {}({})", if c.is_async { "async " } else { "" }, c.name, sig));
            if let Some(r) = &c.ret {
                out.push_str(&format!(" -> {}", r));
            }
            out.push_str(&format!(" {{{}\n", tw));
            if it.noise.inner_comment {
                out.push_str("    // notify the frontend first\n");
            }
            if c.emits.iter().any(|(_, p)| p == "summary") {
                out.push_str("    let summary = build_summary();\n");
            }
            for (ev, payload) in &c.emits {
                out.push_str(&format!("    app.emit(\"{}\", {}).unwrap();\n", ev, payload));
            }
            out.push_str("    todo!()\n}\n\n");
        }
    }
}

/// module file of a directory: `src` -> `src/lib.rs`, `src/api` -> `src/api/mod.rs`
fn module_file(dir: &str) -> String {
    if dir == "src" {
        "src/lib.rs".to_string()
    } else {
        format!("{}/mod.rs", dir)
    }
}

/// Render every file; `mod` declarations are derived from the file list so that every variant
/// of a project is a self-consistent crate (the tool ignores them).
pub fn render_project(p: &Project) -> Vec<(String, String)> {
    let mut mods: BTreeMap<String, BTreeSet<String>> = BTreeMap::new();
    let mut all_paths: BTreeSet<String> = p.files.iter().map(|f| f.path.clone()).collect();
    all_paths.insert("src/lib.rs".to_string());
    loop {
        let snapshot: Vec<String> = all_paths.iter().cloned().collect();
        for path in &snapshot {
            let Some(i) = path.rfind('/') else { continue };
            let (dir, file) = (&path[..i], &path[i + 1..]);
            let stem = file.trim_end_matches(".rs");
            if stem == "lib" || stem == "main" {
                continue;
            }
            // (module name, directory whose module file declares it)
            let (name, parent) = if stem == "mod" {
                match dir.rfind('/') {
                    Some(j) => (dir[j + 1..].to_string(), dir[..j].to_string()),
                    None => continue,
                }
            } else {
                (stem.to_string(), dir.to_string())
            };
            let mf = module_file(&parent);
            mods.entry(mf.clone()).or_default().insert(name);
            all_paths.insert(mf);
        }
        if all_paths.len() == snapshot.len() {
            break;
        }
    }
    let mut out = vec![];
    for path in &all_paths {
        let mut s = String::new();
        s.push_str("use serde::{Deserialize, Serialize};\nuse tauri::ipc::Channel;\nuse tauri::{AppHandle, Emitter};\n\n");
        if let Some(ms) = mods.get(path) {
            for m in ms {
                s.push_str(&format!("pub mod {};\n", m));
            }
            s.push('\n');
        }
        if let Some(f) = p.files.iter().find(|f| &f.path == path) {
            for it in &f.items {
                render_item(it, &mut s);
            }
        }
        must_parse(path, &s);
        out.push((path.clone(), s));
    }
    out
}

// ------------------------------------------------------------------------------------------
// transforms

fn pick_nonempty_file(t: &mut Tape, p: &Project, min_items: usize) -> Option<usize> {
    let c: Vec<usize> = (0..p.files.len()).filter(|i| p.files[*i].items.len() >= min_items).collect();
    if c.is_empty() {
        None
    } else {
        Some(c[t.pick(c.len())])
    }
}

fn unused_path(t: &mut Tape, p: &Project) -> String {
    let free: Vec<&str> = FILE_POOL.iter().copied().filter(|c| !p.files.iter().any(|f| f.path == *c)).collect();
    if free.is_empty() {
        format!("src/extra{}.rs", p.files.len())
    } else {
        free[t.pick(free.len())].to_string()
    }
}

/// T1: comments and whitespace
pub fn t1_layout(t: &mut Tape, p: &Project) -> (Project, Vec<String>) {
    let mut q = p.clone();
    let mut ops = BTreeSet::new();
    let mut n = 0;
    for f in &mut q.files {
        for it in &mut f.items {
            let k = t.pick(8);
            n += 1;
            match k {
                0 => {
                    it.noise.before.push(format!("// section {}: see docs/architecture.md", n));
                    ops.insert("line_comment");
                }
                1 => {
                    it.noise.before.push("/* block comment\n   spanning two lines */".to_string());
                    ops.insert("block_comment");
                }
                2 => {
                    it.noise.before.push("\n\n".to_string());
                    ops.insert("blank_lines");
                }
                3 => {
                    it.noise.doc = true;
                    ops.insert("doc_comment");
                }
                4 => {
                    it.noise.inner_comment = true;
                    ops.insert("inner_comment");
                }
                5 => {
                    it.noise.multiline = true;
                    ops.insert("multiline");
                }
                6 => {
                    it.noise.trailing_ws = true;
                    ops.insert("trailing_ws");
                }
                _ => {}
            }
        }
    }
    if ops.is_empty() {
        // make sure the transform does something
        if let Some(fi) = pick_nonempty_file(t, &q, 1) {
            q.files[fi].items[0].noise.before.push("// layout note".to_string());
            ops.insert("line_comment");
        }
    }
    (q, ops.into_iter().map(String::from).collect())
}

fn decoy(t: &mut Tape, n: usize) -> (String, &'static str) {
    match t.pick(10) {
        8 => (format!("fn record_{}(summary: u32) -> u32 {{\n    summary\n}}\n", n), "helper_fn_same_binding_name"),
        9 => (format!("pub fn log_{}(app: &AppHandle, summary: &str) {{\n    let _ = (app, summary);\n}}\n", n), "helper_fn_same_binding_name"),
        0 => (format!("fn helper_{}(values: &[u32]) -> u32 {{\n    values.iter().sum()\n}}\n", n), "helper_fn"),
        1 => (format!("#[derive(Debug, Clone, PartialEq)]\npub struct Internal{} {{\n    pub handle: u64,\n    pub label: String,\n}}\n", n), "non_serde_struct"),
        2 => (format!("pub const LIMIT_{}: usize = {};\n", n, 10 + n), "const"),
        3 => (format!("use std::fmt::Debug as Debug{};\nuse std::collections::BTreeMap as OrderedMap{};\n", n, n), "use_lines"),
        4 => (format!("pub(crate) async fn background_{}(delay_ms: u64) -> Result<(), String> {{\n    let _ = delay_ms;\n    Ok(())\n}}\n", n), "helper_async_fn"),
        5 => (format!("type Millis{} = u64;\n", n), "type_alias"),
        6 => (format!("#[derive(Debug)]\nenum Phase{} {{\n    Idle,\n    Busy(u8),\n}}\n", n), "non_serde_enum"),
        _ => (format!("pub trait Describe{} {{\n    fn describe(&self) -> String;\n}}\n", n), "trait"),
    }
}

/// T2: items no generator looks at
pub fn t2_decoys(t: &mut Tape, p: &Project) -> (Project, Vec<String>) {
    let mut q = p.clone();
    let mut ops = BTreeSet::new();
    let n = t.range(1, 4);
    for i in 0..n {
        let fi = t.pick(q.files.len());
        let (text, op) = decoy(t, i);
        let pos = t.pick(q.files[fi].items.len() + 1);
        q.files[fi].items.insert(pos, Item { kind: ItemKind::Decoy(text), noise: Noise::default() });
        ops.insert(op);
    }
    // later addition, drawn last: a private inline module with a non-serde struct named like a
    // project type that lives in an inline module of the same file, placed in front of it (it is
    // not re-exported, so every mention of the name still means the serde type)
    if t.pick(2) == 1 {
        let mut spots = vec![];
        for (fi, f) in q.files.iter().enumerate() {
            for (ii, it) in f.items.iter().enumerate() {
                if let ItemKind::Type(ty) = &it.kind {
                    if ty.inline {
                        spots.push((fi, ii, ty.name.clone()));
                    }
                }
            }
        }
        if !spots.is_empty() {
            let (fi, ii, name) = spots[t.pick(spots.len())].clone();
            let text = format!("mod runtime_{} {{\n    #[derive(Debug)]\n    pub struct {} {{\n        pub handle: usize,\n    }}\n}}\n", name.to_lowercase(), name);
            q.files[fi].items.insert(ii, Item { kind: ItemKind::Decoy(text), noise: Noise::default() });
            ops.insert("non_serde_namesake_in_earlier_inline_module");
        }
    }
    (q, ops.into_iter().map(String::from).collect())
}

fn shuffle<T>(t: &mut Tape, v: &mut Vec<T>) {
    for i in (1..v.len()).rev() {
        let j = t.pick(i + 1);
        v.swap(i, j);
    }
}

/// T3: reorder the items of every file
pub fn t3_reorder(t: &mut Tape, p: &Project) -> (Project, Vec<String>) {
    let mut q = p.clone();
    for f in &mut q.files {
        shuffle(t, &mut f.items);
    }
    if q == *p {
        // force a change where possible: reverse the first file with two items
        if let Some(f) = q.files.iter_mut().find(|f| f.items.len() >= 2) {
            f.items.reverse();
        }
    }
    let op = if q == *p { "noop" } else { "reorder" };
    (q, vec![op.to_string()])
}

/// T4: move items between files, split a file, merge two files
pub fn t4_move(t: &mut Tape, p: &Project) -> (Project, Vec<String>) {
    let mut q = p.clone();
    let mut ops = BTreeSet::new();
    let n = t.range(1, 2);
    for _ in 0..n {
        match t.pick(3) {
            0 => {
                if let Some(a) = pick_nonempty_file(t, &q, 1) {
                    let mut b = t.pick(q.files.len());
                    if b == a {
                        b = (a + 1) % q.files.len();
                    }
                    let i = t.pick(q.files[a].items.len());
                    let it = q.files[a].items.remove(i);
                    let what = match &it.kind {
                        ItemKind::Type(_) => "move_type",
                        ItemKind::Cmd(_) => "move_command",
                        ItemKind::Decoy(_) => "move_decoy",
                    };
                    let pos = t.pick(q.files[b].items.len() + 1);
                    q.files[b].items.insert(pos, it);
                    ops.insert(what);
                }
            }
            1 => {
                if let Some(a) = pick_nonempty_file(t, &q, 2) {
                    let path = unused_path(t, &q);
                    let k = t.range(1, q.files[a].items.len() - 1);
                    let moved: Vec<Item> = q.files[a].items.drain(..k).collect();
                    q.files.push(FileM { path, items: moved });
                    ops.insert("split_file");
                }
            }
            _ => {
                if q.files.len() >= 2 {
                    let a = t.pick(q.files.len());
                    let mut b = t.pick(q.files.len());
                    if b == a {
                        b = (a + 1) % q.files.len();
                    }
                    let items: Vec<Item> = q.files[a].items.drain(..).collect();
                    q.files[b].items.extend(items);
                    if q.files[a].path != "src/lib.rs" {
                        q.files.remove(a);
                    }
                    ops.insert("merge_files");
                }
            }
        }
    }
    (q, ops.into_iter().map(String::from).collect())
}

/// T5: rename files and directories
pub fn t5_rename(t: &mut Tape, p: &Project) -> (Project, Vec<String>) {
    let mut q = p.clone();
    let mut ops = BTreeSet::new();
    let candidates: Vec<usize> = (0..q.files.len()).filter(|i| q.files[*i].path != "src/lib.rs").collect();
    if !candidates.is_empty() {
        match t.pick(3) {
            0 => {
                let i = candidates[t.pick(candidates.len())];
                q.files[i].path = unused_path(t, &q);
                ops.insert("rename_file");
            }
            1 => {
                // move one file into a (new) directory
                let i = candidates[t.pick(candidates.len())];
                let d = DIR_POOL[t.pick(DIR_POOL.len())];
                let name = q.files[i].path.rsplit('/').next().unwrap_or("x.rs").to_string();
                let np = format!("src/{}/{}", d, name);
                if !q.files.iter().any(|f| f.path == np) {
                    q.files[i].path = np;
                    ops.insert("move_into_dir");
                }
            }
            _ => {
                // rename a directory (all files below it), or nest everything below src/<dir>/
                let dirs: BTreeSet<String> = q.files.iter().filter_map(|f| f.path.strip_prefix("src/").and_then(|r| r.find('/').map(|i| r[..i].to_string()))).collect();
                let d = DIR_POOL[t.pick(DIR_POOL.len())];
                if let Some(old) = dirs.iter().next().cloned() {
                    for f in &mut q.files {
                        if let Some(rest) = f.path.strip_prefix(&format!("src/{}/", old)) {
                            f.path = format!("src/{}/{}", d, rest);
                        }
                    }
                    ops.insert("rename_dir");
                } else {
                    for f in &mut q.files {
                        if f.path != "src/lib.rs" {
                            let rest = f.path.strip_prefix("src/").unwrap_or(&f.path).to_string();
                            f.path = format!("src/{}/{}", d, rest);
                        }
                    }
                    ops.insert("nest_all_in_dir");
                }
            }
        }
    }
    if ops.is_empty() {
        ops.insert("noop");
    }
    (q, ops.into_iter().map(String::from).collect())
}

// ------------------------------------------------------------------------------------------
// observations

type Files = BTreeMap<String, String>;

/// generated files with the timestamp line removed; the cache file is not a binding (C14)
fn normalised(files: &Files) -> Files {
    files.iter().filter(|(k, _)| k.as_str() != ".typecache").map(|(k, v)| (k.clone(), strip_timestamp(v))).collect()
}

/// declaration map whose keys do not depend on positions
fn decls(name: &str, text: &str) -> BTreeMap<String, String> {
    if !name.ends_with(".ts") {
        // line multiset for the visualisation files
        let mut m = BTreeMap::new();
        for l in text.lines() {
            let mut k = format!("line:{}", l);
            let mut n = 1;
            while m.contains_key(&k) {
                n += 1;
                k = format!("line:{}#{}", l, n);
            }
            m.insert(k, String::new());
        }
        return m;
    }
    let mut out = BTreeMap::new();
    for (k, v) in declaration_map(text) {
        if k.starts_with("unparsed:") || k.starts_with("stmt:") {
            let mut key = format!("{}:{}", k.split(':').next().unwrap_or(""), v);
            let mut n = 1;
            while out.contains_key(&key) {
                n += 1;
                key = format!("{}#{}", key, n);
            }
            out.insert(key, v);
        } else {
            out.insert(k, v);
        }
    }
    out
}

fn decl_maps(files: &Files) -> BTreeMap<String, BTreeMap<String, String>> {
    files.iter().map(|(k, v)| (k.clone(), decls(k, v))).collect()
}

/// names of the top-level declarations in emission order, over the three binding files
fn order_signature(files: &Files) -> String {
    let mut s = String::new();
    for f in ["types.ts", "commands.ts", "events.ts"] {
        if let Some(text) = files.get(f) {
            let p = tsx::parse(text);
            s.push_str(f);
            s.push('[');
            s.push_str(&p.declared().iter().map(|d| d.0.clone()).collect::<Vec<_>>().join(","));
            s.push_str("] ");
        }
    }
    s
}

/// human-readable differences between two normalised outputs (declaration level)
fn describe_diff(a: &Files, b: &Files) -> (Vec<String>, Vec<String>) {
    let mut out = vec![];
    let mut files = vec![];
    for k in a.keys() {
        if !b.contains_key(k) {
            out.push(format!("{}: only in the first output", k));
            files.push(k.clone());
        }
    }
    for k in b.keys() {
        if !a.contains_key(k) {
            out.push(format!("{}: only in the second output", k));
            files.push(k.clone());
        }
    }
    for (k, va) in a {
        let Some(vb) = b.get(k) else { continue };
        if va == vb {
            continue;
        }
        files.push(k.clone());
        let da = decls(k, va);
        let db = decls(k, vb);
        if da == db {
            let (la, lb) = (sorted_lines(va), sorted_lines(vb));
            if la == lb {
                out.push(format!("{}: same {} in a different order", k, if k.ends_with(".ts") { "declarations" } else { "lines" }));
            } else {
                // same declarations, but text outside them (comments, header) differs
                let only_a: Vec<&&str> = la.iter().filter(|l| !lb.contains(l)).take(2).collect();
                let only_b: Vec<&&str> = lb.iter().filter(|l| !la.contains(l)).take(2).collect();
                out.push(format!("{}: same declarations, but other text differs: {:?} vs {:?}", k, only_a, only_b));
            }
            continue;
        }
        for (dk, dv) in &da {
            match db.get(dk) {
                None => out.push(format!("{}: {} only in the first output: `{}`", k, dk, crate::run::truncate(dv, 120))),
                Some(x) if x != dv => out.push(format!("{}: {} differs: `{}` vs `{}`", k, dk, crate::sandbox::window_at_difference(dv, x), crate::sandbox::window_at_difference(x, dv))),
                _ => {}
            }
        }
        for (dk, dv) in &db {
            if !da.contains_key(dk) {
                out.push(format!("{}: {} only in the second output: `{}`", k, dk, crate::run::truncate(dv, 120)));
            }
        }
    }
    (out, files)
}

#[derive(PartialEq, Eq, Clone, Copy, Debug)]
enum Rel {
    Identical,
    OrderOnly,
    Content,
}

fn sorted_lines(s: &str) -> Vec<&str> {
    let mut v: Vec<&str> = s.lines().collect();
    v.sort_unstable();
    v
}

/// `OrderOnly` = same files, same declarations and the same multiset of lines (a permutation of
/// declaration blocks); anything else that is not byte-identical — including differences in
/// comments outside declarations — is `Content`.
fn relate(a: &Files, b: &Files) -> Rel {
    if a == b {
        Rel::Identical
    } else if decl_maps(a) == decl_maps(b) && a.iter().all(|(k, v)| b.get(k).map_or(false, |w| sorted_lines(v) == sorted_lines(w))) {
        Rel::OrderOnly
    } else {
        Rel::Content
    }
}

fn project_features(p: &Project) -> (usize, usize, usize, usize) {
    let files = p.files.len();
    let cmd_files = p.files.iter().filter(|f| f.items.iter().any(|i| matches!(i.kind, ItemKind::Cmd(_)))).count();
    let types = p.files.iter().flat_map(|f| f.items.iter()).filter(|i| matches!(i.kind, ItemKind::Type(_))).count();
    let events = p.files.iter().flat_map(|f| f.items.iter()).map(|i| if let ItemKind::Cmd(c) = &i.kind { c.emits.len() } else { 0 }).sum();
    (files, cmd_files, types, events)
}

fn files_json(files: &[(String, String)]) -> Value {
    Value::Object(files.iter().map(|(p, s)| (p.clone(), Value::String(s.clone()))).collect())
}

fn base_tags(p: &Project) -> Vec<String> {
    let (files, cmd_files, types, events) = project_features(p);
    vec![format!("mode={}", p.mode), format!("files={}", files), format!("cmd_files={}", cmd_files), format!("types={}", types), format!("events={}", events)]
}

/// run the tool in-process once; Ok(normalised files) or Err(error text)
fn run_inproc(rendered: &[(String, String)], mode: &str, stats: &mut Stats) -> Result<Files, String> {
    stats.eval();
    let out = generate(rendered, &Cfg::mode(mode));
    match out.result {
        Ok(_) => Ok(normalised(&out.files)),
        Err(e) => Err(e),
    }
}

const CLI_VARIANTS: &[&[&str]] = &[&[], &["--verbose"], &["--visualize-deps"], &["--verbose", "--visualize-deps"]];

pub struct Budget {
    pub inproc_runs: usize,
    pub process_runs: usize,
}

/// Which stage produced the first not-known failure of the last full evaluation on this thread.
/// proptest shrinks on the thread that found the failure, so a shrink step (frozen counters) only
/// re-runs that stage; this only makes shrinking cheaper, every reported failure is still one
/// that was observed.
#[derive(Clone, Copy, PartialEq, Eq, Debug)]
enum Stage {
    Inproc,
    Process,
    Transform(usize),
}

thread_local! {
    static FOCUS: std::cell::Cell<Option<Stage>> = const { std::cell::Cell::new(None) };
}

fn stage_of(f: &Failure) -> Stage {
    for (i, t) in ["transform=T1", "transform=T2", "transform=T3", "transform=T4", "transform=T5"].iter().enumerate() {
        if f.tags.iter().any(|x| x == t) {
            return Stage::Transform(i);
        }
    }
    if f.tags.iter().any(|x| x == "runs=process") {
        Stage::Process
    } else {
        Stage::Inproc
    }
}

/// `known`: does a known-findings entry cover this failure? Only used while proptest shrinks
/// (`stats.frozen`): the evaluation then stops at the first failure that is not known, which
/// keeps a shrink step cheap; a normal evaluation always runs every stage.
pub fn check_project(p: &Project, transform_tape: &mut Tape, budget: &Budget, known: &dyn Fn(&Failure) -> bool, stats: &mut Stats) -> Vec<Failure> {
    let shrinking = stats.frozen;
    let fails = check_project_inner(p, transform_tape, budget, known, stats);
    if !shrinking {
        FOCUS.with(|c| c.set(fails.iter().find(|f| !known(f)).map(stage_of)));
    }
    fails
}

fn check_project_inner(p: &Project, transform_tape: &mut Tape, budget: &Budget, known: &dyn Fn(&Failure) -> bool, stats: &mut Stats) -> Vec<Failure> {
    let shrinking = stats.frozen;
    let mut fails = vec![];
    let rendered = render_project(p);
    let phash = stable_hash(p);
    let (nfiles, cmd_files, ntypes, _) = project_features(p);
    if cmd_files >= 2 && ntypes >= 2 {
        stats.nontrivial(&phash);
    }
    stats.distinct("projects", &phash);
    stats.label(&format!("mode={}", p.mode));
    stats.label(&format!("files={}", nfiles));
    stats.label(&format!("files_with_commands={}", cmd_files.min(4)));
    // while proptest shrinks (counters frozen) use more runs, so that an order-dependent failure
    // keeps reproducing
    let focus: Option<Stage> = if shrinking { FOCUS.with(|c| c.get()) } else { None };
    let r_in = match (shrinking, focus) {
        (false, _) => budget.inproc_runs,
        (true, Some(Stage::Process)) | (true, Some(Stage::Transform(_))) => 4,
        (true, _) => budget.inproc_runs.max(32),
    };
    let case_base = |extra: Value| json!({"mode": p.mode, "files": files_json(&rendered), "config": Cfg::mode(p.mode).to_json(), "detail": extra});

    // ---- (a) repeated in-process runs
    let mut outs: Vec<Result<Files, String>> = vec![];
    for _ in 0..r_in {
        outs.push(run_inproc(&rendered, p.mode, stats));
        if shrinking && outs.last() != outs.first() {
            break;
        }
    }
    let oks: Vec<&Files> = outs.iter().filter_map(|o| o.as_ref().ok()).collect();
    if oks.is_empty() {
        stats.label("project:all_runs_failed_not_checked");
        return fails;
    }
    if oks.len() != outs.len() {
        let err = outs.iter().find_map(|o| o.as_ref().err()).cloned().unwrap_or_default();
        fails.push(
            Failure::new("nondeterministic_content")
                .tags(base_tags(p))
                .tag("order_dependent")
                .tag("runs=inproc")
                .tag("some_runs_failed")
                .observed(format!("{} of {} in-process runs on identical input failed ({}), the others succeeded", outs.len() - oks.len(), outs.len(), crate::run::truncate(&err, 200)))
                .expected("identical results from identical sources and configuration")
                .case(case_base(json!({"api": "tauri_typegen::generate_from_config"}))),
        );
        return fails;
    }
    let base: &Files = oks[0];
    let mut orders = BTreeSet::new();
    let mut worst = Rel::Identical;
    let mut witness: Option<&Files> = None;
    for o in &oks {
        orders.insert(order_signature(o));
        match relate(base, o) {
            Rel::Identical => {}
            Rel::OrderOnly => {
                if worst == Rel::Identical {
                    worst = Rel::OrderOnly;
                    witness = Some(o);
                }
            }
            Rel::Content => {
                if worst != Rel::Content {
                    worst = Rel::Content;
                    witness = Some(o);
                }
            }
        }
    }
    for o in &orders {
        stats.distinct("orders", &(phash, o));
    }
    stats.label(&format!("orders_seen_in_{}_runs={}", budget.inproc_runs, orders.len().min(6)));
    let mut inproc_deterministic = true;
    if let Some(w) = witness {
        inproc_deterministic = false;
        let (diff, files) = describe_diff(base, w);
        let kind = if worst == Rel::Content { "nondeterministic_content" } else { "nondeterministic_order" };
        let mut f = Failure::new(kind).tags(base_tags(p)).tag("order_dependent").tag("runs=inproc");
        for fl in &files {
            f = f.tag(format!("differs={}", fl));
        }
        fails.push(
            f.observed(format!("{} distinct emission orders in {} in-process runs on identical input; first vs another run: {}", orders.len(), oks.len(), diff.join(" ;; ")))
                .expected("byte-identical files (apart from the `Generated at:` line) from identical sources and configuration")
                .case(case_base(json!({"api": "tauri_typegen::generate_from_config", "runs": oks.len(), "orders_seen": orders.iter().cloned().collect::<Vec<_>>(), "first_output": base, "another_output": w}))),
        );
        if worst == Rel::Content {
            // nothing below can be attributed while content itself varies
            stats.label("project:content_nondeterministic_transforms_skipped");
            return fails;
        }
    }
    if shrinking && fails.iter().any(|f| !known(f)) {
        return fails;
    }

    // ---- (a') fresh processes of the real binary
    if budget.process_runs > 0 && focus.map_or(true, |f| f == Stage::Process) {
        let dir = fresh_dir("c13p");
        let ws = dir.join("ws");
        let proj = ws.join("proj");
        std::fs::create_dir_all(&proj).unwrap_or_else(|e| crate::run::infra_exit(&format!("cannot create {}: {}", proj.display(), e)));
        tool::write_project(&proj, &rendered);
        let mut runs: Vec<(usize, Vec<String>, Files, Files)> = vec![]; // (variant, args, bindings, viz)
        let mut failed = 0;
        for k in 0..budget.process_runs {
            let variant = k % CLI_VARIANTS.len();
            let outname = format!("out{}", k);
            let mut args: Vec<String> = ["generate", "-p", "proj", "-o", &outname, "-v", p.mode].iter().map(|s| s.to_string()).collect();
            args.extend(CLI_VARIANTS[variant].iter().map(|s| s.to_string()));
            let a: Vec<&str> = args.iter().map(|s| s.as_str()).collect();
            stats.eval();
            let o = tool::run_cli(&a, &ws);
            if !o.ok() {
                failed += 1;
                continue;
            }
            let all = normalised(&tool::read_dir_files(&ws.join(&outname)));
            let (viz, bind): (Files, Files) = all.into_iter().partition(|(k, _)| k.starts_with("dependency-graph."));
            runs.push((variant, args, bind, viz));
        }
        let _ = std::fs::remove_dir_all(&dir);
        if failed > 0 && !runs.is_empty() {
            fails.push(
                Failure::new("nondeterministic_content")
                    .tags(base_tags(p))
                    .tag("order_dependent")
                    .tag("runs=process")
                    .tag("some_runs_failed")
                    .observed(format!("{} of {} process runs on identical input exited non-zero, the others succeeded", failed, budget.process_runs))
                    .expected("identical results from identical sources and configuration")
                    .case(case_base(json!({"command": "cargo-tauri-typegen tauri-typegen generate -p proj -o outK -v <mode> [--verbose] [--visualize-deps]"}))),
            );
        } else if runs.is_empty() {
            stats.label("project:all_process_runs_failed_not_checked");
        }
        // file sets: bindings as in-process; the visualisation adds exactly its two files
        for (variant, args, bind, viz) in &runs {
            let wants_viz = CLI_VARIANTS[*variant].contains(&"--visualize-deps");
            let bind_names: BTreeSet<&String> = bind.keys().collect();
            let base_names: BTreeSet<&String> = base.keys().collect();
            let viz_names: BTreeSet<&str> = viz.keys().map(|s| s.as_str()).collect();
            let expect_viz: BTreeSet<&str> = if wants_viz { ["dependency-graph.dot", "dependency-graph.txt"].into_iter().collect() } else { BTreeSet::new() };
            if bind_names != base_names || viz_names != expect_viz {
                fails.push(
                    Failure::new("wrong_file_set")
                        .tags(base_tags(p))
                        .tag("runs=process")
                        .tag(format!("viz={}", wants_viz))
                        .tag(format!("verbose={}", CLI_VARIANTS[*variant].contains(&"--verbose")))
                        .observed(format!("files written: {:?} + {:?}", bind_names, viz_names))
                        .expected(format!("{:?} + {:?}", base_names, expect_viz))
                        .case(case_base(json!({"command": format!("cargo-tauri-typegen tauri-typegen {}", args.join(" "))}))),
                );
                break;
            }
        }
        // bindings: every process run against the first in-process run
        let mut proc_worst = Rel::Identical;
        let mut proc_witness: Option<(&Vec<String>, &Files)> = None;
        for (_, args, bind, _) in &runs {
            orders.insert(order_signature(bind));
            stats.distinct("orders", &(phash, order_signature(bind)));
            let rel = relate(base, bind);
            if rel == Rel::Content && proc_worst != Rel::Content || rel == Rel::OrderOnly && proc_worst == Rel::Identical {
                proc_worst = rel;
                proc_witness = Some((args, bind));
            }
        }
        if let Some((args, w)) = proc_witness {
            // order-only differences are one root cause with the in-process finding: report once
            if proc_worst == Rel::Content || inproc_deterministic {
                let (diff, files) = describe_diff(base, w);
                let kind = if proc_worst == Rel::Content { "nondeterministic_content" } else { "nondeterministic_order" };
                let mut f = Failure::new(kind).tags(base_tags(p)).tag("order_dependent").tag("runs=process");
                for a in args.iter().filter(|a| a.starts_with("--")) {
                    f = f.tag(format!("flag={}", a));
                }
                for fl in &files {
                    f = f.tag(format!("differs={}", fl));
                }
                fails.push(
                    f.observed(format!("a fresh process produced different files than the in-process run on identical input: {}", diff.join(" ;; ")))
                        .expected("byte-identical files (apart from the `Generated at:` line), independent of process, --verbose and --visualize-deps")
                        .case(case_base(json!({"command": format!("cargo-tauri-typegen tauri-typegen {}", args.join(" ")), "process_output": w, "inprocess_output": base}))),
                );
                inproc_deterministic = false;
                if proc_worst == Rel::Content {
                    return fails;
                }
            }
        }
        // visualisation files: identical across the runs that requested them
        let viz_runs: Vec<&(usize, Vec<String>, Files, Files)> = runs.iter().filter(|r| !r.3.is_empty()).collect();
        if viz_runs.len() >= 2 {
            let first = &viz_runs[0].3;
            let mut vworst = Rel::Identical;
            let mut vw: Option<&Files> = None;
            for r in &viz_runs[1..] {
                let rel = relate(first, &r.3);
                if rel == Rel::Content && vworst != Rel::Content || rel == Rel::OrderOnly && vworst == Rel::Identical {
                    vworst = rel;
                    vw = Some(&r.3);
                }
            }
            if let Some(w) = vw {
                let (diff, files) = describe_diff(first, w);
                let kind = if vworst == Rel::Content { "nondeterministic_content" } else { "nondeterministic_order" };
                let mut f = Failure::new(kind).tags(base_tags(p)).tag("order_dependent").tag("runs=process").tag("viz_files");
                for fl in &files {
                    f = f.tag(format!("differs={}", fl));
                }
                fails.push(
                    f.observed(format!("two runs with --visualize-deps on identical input wrote different graph files: {}", crate::run::truncate(&diff.join(" ;; "), 600)))
                        .expected("identical dependency-graph.txt / dependency-graph.dot from identical sources and configuration")
                        .case(case_base(json!({"command": "cargo-tauri-typegen tauri-typegen generate -p proj -o outK -v <mode> --visualize-deps", "first": first, "another": w}))),
                );
            }
        }
    }

    if shrinking && fails.iter().any(|f| !known(f)) {
        return fails;
    }

    // ---- (b) metamorphic transforms
    type Tf = fn(&mut Tape, &Project) -> (Project, Vec<String>);
    let transforms: [(&str, Tf, bool); 5] = [("T1", t1_layout, true), ("T2", t2_decoys, true), ("T3", t3_reorder, false), ("T4", t4_move, false), ("T5", t5_rename, false)];
    for (ti, (name, tf, must_be_identical)) in transforms.into_iter().enumerate() {
        // the tape is consumed by every transform, also by those a shrink step does not execute
        let (q, ops) = tf(transform_tape, p);
        if focus.map_or(false, |f| f != Stage::Transform(ti)) {
            continue;
        }
        stats.label(&format!("transform={}", name));
        for op in &ops {
            stats.label(&format!("op={}:{}", name, op));
        }
        if ops.iter().all(|o| o == "noop") {
            continue;
        }
        let q_rendered = render_project(&q);
        let first = match run_inproc(&q_rendered, q.mode, stats) {
            Ok(f) => f,
            Err(e) => {
                fails.push(
                    Failure::new("transform_changed_content")
                        .tags(base_tags(p))
                        .tag(format!("transform={}", name))
                        .tags(ops.iter().map(|o| format!("op={}", o)))
                        .tag("transformed_run_failed")
                        .observed(format!("generation fails after the transform: {}", crate::run::truncate(&e, 300)))
                        .expected("the same output as before the transform")
                        .case(json!({"mode": p.mode, "files_before": files_json(&rendered), "files_after": files_json(&q_rendered), "transform": name, "ops": ops})),
                );
                continue;
            }
        };
        let rel = relate(base, &first);
        let acceptable = match rel {
            Rel::Identical => true,
            Rel::OrderOnly => !(must_be_identical && inproc_deterministic),
            Rel::Content => false,
        };
        if acceptable {
            continue;
        }
        // re-run both sides: is the difference tied to the transform, or to the hash seed?
        let extra = if shrinking { 4 } else { budget.inproc_runs.max(8) };
        let mut base_set: Vec<Files> = oks.iter().map(|f| (*f).clone()).collect();
        let mut tr_set: Vec<Files> = vec![first.clone()];
        for _ in 0..extra {
            if let Ok(f) = run_inproc(&rendered, p.mode, stats) {
                base_set.push(f);
            }
            if let Ok(f) = run_inproc(&q_rendered, q.mode, stats) {
                tr_set.push(f);
            }
        }
        let meets = |want: Rel| tr_set.iter().any(|t| base_set.iter().any(|b| { let r = relate(b, t); r == Rel::Identical || (want == Rel::OrderOnly && r == Rel::OrderOnly) }));
        let (diff, files) = describe_diff(base, &first);
        let case = json!({"mode": p.mode, "files_before": files_json(&rendered), "files_after": files_json(&q_rendered), "transform": name, "ops": ops, "output_before": base, "output_after": first, "differences": diff});
        let mk = |kind: &str| {
            let mut f = Failure::new(kind).tags(base_tags(p)).tag(format!("transform={}", name)).tags(ops.iter().map(|o| format!("op={}", o)));
            for fl in &files {
                f = f.tag(format!("differs={}", fl));
            }
            f
        };
        if rel == Rel::Content {
            if meets(Rel::OrderOnly) {
                // some run of the transformed project has the declarations of some base run:
                // content depends on the hash seed, not on the transform
                fails.push(
                    mk("nondeterministic_content")
                        .tag("order_dependent")
                        .tag("runs=inproc")
                        .tag("seen_via_transform")
                        .observed(format!("declarations vary between runs on identical input (seen while comparing {}): {}", name, diff.join(" ;; ")))
                        .expected("identical declarations from identical sources and configuration")
                        .case(case),
                );
            } else {
                fails.push(
                    mk("transform_changed_content")
                        .observed(format!("after {} ({}) in {} + {} runs no output has the declarations of the original: {}", name, ops.join(","), base_set.len(), tr_set.len(), diff.join(" ;; ")))
                        .expected(if must_be_identical { "output unchanged (comments, whitespace and items the generators ignore do not matter)" } else { "the same set of declarations with the same content (only their order may change)" })
                        .case(case),
                );
            }
        } else {
            // order-only difference under T1/T2 on a project that looked deterministic
            if meets(Rel::Identical) {
                fails.push(
                    mk("nondeterministic_order")
                        .tag("order_dependent")
                        .tag("runs=inproc")
                        .tag("seen_via_transform")
                        .observed(format!("declaration order varies between runs on identical input (seen while comparing {}): {}", name, diff.join(" ;; ")))
                        .expected("byte-identical files from identical sources and configuration")
                        .case(case),
                );
            } else {
                fails.push(
                    mk("transform_changed_order")
                        .observed(format!("after {} ({}) the declarations are the same but their order differs in all {} + {} runs: {}", name, ops.join(","), base_set.len(), tr_set.len(), diff.join(" ;; ")))
                        .expected("output unchanged (comments, whitespace and items the generators ignore do not matter)")
                        .case(case),
                );
            }
        }
    }
    stats.sample(|| {
        json!({"mode": p.mode, "files": files_json(&rendered), "orders_seen": orders.iter().cloned().collect::<Vec<_>>(), "first_output_files": base.keys().cloned().collect::<Vec<_>>(), "failures": fails.iter().map(|f| f.kind.clone()).collect::<Vec<_>>()})
    });
    fails
}

fn budget(ctx_tier_quick: bool) -> Budget {
    if ctx_tier_quick {
        Budget { inproc_runs: 8, process_runs: 4 }
    } else {
        Budget { inproc_runs: 16, process_runs: 16 }
    }
}

fn check_tape(tape: &mut Tape, b: &Budget, known: &dyn Fn(&Failure) -> bool, stats: &mut Stats) -> Vec<Failure> {
    let p = gen_project(tape);
    check_project(&p, tape, b, known, stats)
}

pub fn run(ctx: &Ctx) {
    let quick = ctx.tier == crate::run::Tier::Quick;
    let b = budget(quick);
    let cases = ctx.tier.pick(600u32, 10000u32);
    ctx.set_rule(&format!(
        "{} random projects of 2..6 files (plus generated mod.rs glue) with 2..7 commands, 2..7 shallow types (structs / unit enums, fields of primitives or Option/Vec of earlier types), 0..2 events per command, optional channel, mode none|zod, all names unique; plus one fixed 3-file project per mode. Per project: {} in-process runs of generate_from_config + {} fresh processes of the real binary cycling (plain, --verbose, --visualize-deps, both), all compared byte-wise after removing the `Generated at:` line (.typecache excluded); then T1 comments/whitespace, T2 decoy items, T3 reorder items, T4 move/split/merge, T5 rename files/dirs, each one in-process run compared with the original (T1,T2: bytes if the project was deterministic, else declaration maps; T3-T5: declaration maps); evaluation = one run of the tool; non-trivial = at least 2 files with commands and at least 2 types, distinct by project",
        cases, b.inproc_runs, b.process_runs
    ));
    ctx.set_exhaustive(false);
    ctx.assume("hash-seed schedules are sampled (fresh RandomState per map instance / per process), not enumerated; distinct_counts.orders / distinct_counts.projects says how many emission orders were seen");
    ctx.assume("declaration maps come from the harness's TypeScript-subset parser");
    for mode in ["none", "zod"] {
        ctx.single("c13.fixed", json!({"mode": mode}), |stats| {
            let p = fixed_project(mode);
            let mut t = Tape::new(vec![]);
            check_project(&p, &mut t, &b, &|_| false, stats)
        });
    }
    let known = |f: &Failure| ctx.known.iter().any(|k| k.matches(f));
    ctx.search("c13.random", cases, 400, |tape, stats| check_tape(tape, &b, &known, stats));
}

pub fn replay(check: &str, input: &Value, stats: &mut Stats) -> Option<Vec<Failure>> {
    let b = Budget { inproc_runs: 16, process_runs: 4 };
    // order-dependent failures: repeat the stored case up to 16 times (16 x 20 runs of the tool)
    for _ in 0..16 {
        let fails = match check {
            "c13.fixed" => {
                let mode = if input["mode"].as_str()? == "zod" { "zod" } else { "none" };
                let mut t = Tape::new(vec![]);
                check_project(&fixed_project(mode), &mut t, &b, &|_| false, stats)
            }
            "c13.random" => {
                let mut tape = Tape::new(super::tape_of(input));
                check_tape(&mut tape, &b, &|_| false, stats)
            }
            _ => return None,
        };
        if !fails.is_empty() {
            return Some(fails);
        }
    }
    Some(vec![])
}
