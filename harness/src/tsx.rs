//! Convenience layer over the TypeScript-subset parser: look declarations up by name, attribute
//! syntax errors to the declaration they occur in, walk expressions.

use crate::ts::ast::*;
use crate::ts::lex::TsError;
use crate::ts::parse::{parse_module, Module};

pub struct Parsed {
    pub src: String,
    pub module: Module,
}

pub enum Decl<'a> {
    Interface(&'a Interface),
    Alias(&'a Type),
    Const(&'a Expr),
    Function(&'a Function),
}

pub fn parse(src: &str) -> Parsed {
    Parsed { src: src.to_string(), module: parse_module(src, true) }
}

impl Parsed {
    pub fn errors(&self) -> &[TsError] {
        &self.module.errors
    }

    pub fn interface(&self, name: &str) -> Option<&Interface> {
        self.module.items.iter().find_map(|i| match &i.item {
            Item::Interface(x) if x.name == name => Some(x),
            _ => None,
        })
    }
    pub fn alias(&self, name: &str) -> Option<&Type> {
        self.module.items.iter().find_map(|i| match &i.item {
            Item::TypeAlias { name: n, ty, .. } if n == name => Some(ty),
            _ => None,
        })
    }
    pub fn konst(&self, name: &str) -> Option<&Expr> {
        self.module.items.iter().find_map(|i| match &i.item {
            Item::Const { name: n, init: Some(e), .. } if n == name => Some(e),
            _ => None,
        })
    }
    pub fn function(&self, name: &str) -> Option<&Function> {
        self.module.items.iter().find_map(|i| match &i.item {
            Item::Function(f) if f.name == name => Some(f),
            _ => None,
        })
    }
    pub fn functions(&self) -> Vec<&Function> {
        self.module.items.iter().filter_map(|i| match &i.item {
            Item::Function(f) => Some(f),
            _ => None,
        }).collect()
    }

    /// source text of the item declaring `name` (whitespace collapsed)
    pub fn src_of(&self, name: &str) -> Option<String> {
        self.module.items.iter().find_map(|i| {
            let n = match &i.item {
                Item::Interface(x) => &x.name,
                Item::TypeAlias { name, .. } => name,
                Item::Const { name, .. } => name,
                Item::Function(f) => &f.name,
                _ => return None,
            };
            if n == name {
                Some(collapse_ws(&self.src[i.start..i.end.min(self.src.len())]))
            } else {
                None
            }
        })
    }

    /// If the declaration that starts with `head` (e.g. "export interface Holder ") exists in the
    /// source but did not parse, return the syntax error that hit it together with its text.
    pub fn error_in_decl(&self, head: &str) -> Option<(TsError, String)> {
        let off = self.src.find(head)?;
        let line = self.src[..off].matches('\n').count() + 1;
        // end of the declaration region: next line starting with "export " after `off`
        let rest = &self.src[off + 1..];
        let end_off = rest.find("\nexport ").map(|x| off + 1 + x).unwrap_or(self.src.len());
        let end_line = self.src[..end_off].matches('\n').count() + 1;
        let e = self.module.errors.iter().find(|e| e.line >= line && e.line <= end_line)?;
        Some((e.clone(), collapse_ws(&self.src[off..end_off])))
    }

    /// names declared at top level, with the space they live in: (name, is_type, is_value, exported)
    pub fn declared(&self) -> Vec<(String, bool, bool, bool)> {
        let mut out = vec![];
        for i in &self.module.items {
            match &i.item {
                Item::Interface(x) => out.push((x.name.clone(), true, false, x.exported)),
                Item::TypeAlias { name, exported, .. } => out.push((name.clone(), true, false, *exported)),
                Item::Const { name, exported, .. } => out.push((name.clone(), false, true, *exported)),
                Item::Function(f) => out.push((f.name.clone(), false, true, f.exported)),
                _ => {}
            }
        }
        out
    }
}

pub fn collapse_ws(s: &str) -> String {
    s.split_whitespace().collect::<Vec<_>>().join(" ")
}

pub fn member_prop<'a>(members: &'a [Member], key: &str) -> Option<(&'a Key, bool, &'a Type)> {
    members.iter().find_map(|m| match m {
        Member::Prop { key: k, optional, ty, .. } if k.name() == key => Some((k, *optional, ty)),
        _ => None,
    })
}

pub fn prop_keys(members: &[Member]) -> Vec<(String, bool)> {
    members.iter().filter_map(|m| match m {
        Member::Prop { key, optional, .. } => Some((key.name(), *optional)),
        _ => None,
    }).collect()
}

/// visit every expression in a statement list (pre-order)
pub fn walk_stmts<'a>(stmts: &'a [Stmt], f: &mut dyn FnMut(&'a Expr)) {
    for s in stmts {
        walk_stmt(s, f);
    }
}

pub fn walk_stmt<'a>(s: &'a Stmt, f: &mut dyn FnMut(&'a Expr)) {
    match s {
        Stmt::Var { init, .. } => {
            if let Some(e) = init {
                walk_expr(e, f)
            }
        }
        Stmt::Return(Some(e)) | Stmt::Throw(e) | Stmt::Expr(e) => walk_expr(e, f),
        Stmt::Return(None) | Stmt::Empty => {}
        Stmt::If { cond, then, els } => {
            walk_expr(cond, f);
            walk_stmt(then, f);
            if let Some(e) = els {
                walk_stmt(e, f);
            }
        }
        Stmt::Try { block, catch, finally } => {
            walk_stmts(block, f);
            if let Some((_, b)) = catch {
                walk_stmts(b, f);
            }
            if let Some(b) = finally {
                walk_stmts(b, f);
            }
        }
        Stmt::Block(b) => walk_stmts(b, f),
    }
}

pub fn walk_expr<'a>(e: &'a Expr, f: &mut dyn FnMut(&'a Expr)) {
    f(e);
    match e {
        Expr::Member { obj, .. } => walk_expr(obj, f),
        Expr::Index { obj, index, .. } => {
            walk_expr(obj, f);
            walk_expr(index, f);
        }
        Expr::Call { callee, args, .. } | Expr::New { callee, args, .. } => {
            walk_expr(callee, f);
            args.iter().for_each(|a| walk_expr(a, f));
        }
        Expr::Object(props) => {
            for p in props {
                match p {
                    Prop::KeyValue(_, v) => walk_expr(v, f),
                    Prop::Spread(v) => walk_expr(v, f),
                    Prop::Shorthand(_) => {}
                }
            }
        }
        Expr::Array(v) => v.iter().for_each(|a| walk_expr(a, f)),
        Expr::Arrow { body, .. } => match body {
            ArrowBody::Expr(b) => walk_expr(b, f),
            ArrowBody::Block(b) => walk_stmts(b, f),
        },
        Expr::Unary { expr, .. } | Expr::Await(expr) | Expr::Paren(expr) | Expr::Spread(expr) | Expr::As(expr, _) | Expr::NonNull(expr) => walk_expr(expr, f),
        Expr::Binary { l, r, .. } | Expr::Assign { l, r, .. } => {
            walk_expr(l, f);
            walk_expr(r, f);
        }
        Expr::Cond { c, t, e } => {
            walk_expr(c, f);
            walk_expr(t, f);
            walk_expr(e, f);
        }
        Expr::Ident(_) | Expr::Str(_) | Expr::Num(_) | Expr::Bool(_) | Expr::Null => {}
    }
}

/// all `invoke(...)` / `invoke<T>(...)` calls in a function body: (command name literal, args)
pub fn invoke_calls(f: &Function) -> Vec<(Option<String>, &[Expr], &[Type])> {
    let mut out = vec![];
    walk_stmts(&f.body, &mut |e| {
        if let Expr::Call { callee, args, type_args, .. } = e {
            if matches!(&**callee, Expr::Ident(n) if n == "invoke") {
                let name = match args.first() {
                    Some(Expr::Str(s)) => Some(s.clone()),
                    _ => None,
                };
                out.push((name, args.as_slice(), type_args.as_slice()));
            }
        }
    });
    out
}

/// `Promise<T>` → T
pub fn promise_arg(t: &Type) -> Option<&Type> {
    match t {
        Type::Ref { name, args } if name.len() == 1 && name[0] == "Promise" && args.len() == 1 => Some(&args[0]),
        _ => None,
    }
}
