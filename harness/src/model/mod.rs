pub mod serde_names;
