pub mod denote_fixtures;
pub mod serde_names;
