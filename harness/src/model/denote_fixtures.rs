//! Validation of the denotation D(Ty) against real serde: compiled Rust values are serialised with
//! serde_json and must inhabit D of their type. A disagreement means the oracle is broken
//! (exit 2), never a violation.

use crate::gen::ty::Ty;
use crate::ts::shape::Shape;
use serde::Serialize;
use serde_json::Value;
use std::collections::{BTreeMap, BTreeSet, HashMap, HashSet};

#[derive(Serialize, Clone, PartialEq, Eq, Hash, PartialOrd, Ord)]
pub struct Item {
    pub id: i32,
}

#[derive(Serialize, Clone, Copy, PartialEq, Eq, Hash, PartialOrd, Ord)]
pub enum Kind {
    Alpha,
    Beta,
}

/// does the JSON value inhabit the shape? (`Ref` is resolved for the two fixture types)
pub fn inhabits(v: &Value, s: &Shape) -> bool {
    match s {
        Shape::Str => v.is_string(),
        Shape::Num => v.is_number(),
        Shape::Bool => v.is_boolean(),
        // serde writes `()` as null; the README table calls it void
        Shape::Void | Shape::Null => v.is_null(),
        Shape::Undefined | Shape::Never => false,
        Shape::Unknown | Shape::Any => true,
        Shape::Lit(l) => v.as_str() == Some(l),
        Shape::NumLit(_) | Shape::BoolLit(_) => false,
        Shape::Ref(n) if n == "Item" => v.as_object().map_or(false, |o| o.len() == 1 && o.get("id").map_or(false, |x| x.is_number())),
        Shape::Ref(n) if n == "Kind" => matches!(v.as_str(), Some("Alpha") | Some("Beta")),
        Shape::Ref(_) => false,
        Shape::Array(i) => v.as_array().map_or(false, |a| a.iter().all(|x| inhabits(x, i))),
        Shape::Tuple(items) => v.as_array().map_or(false, |a| a.len() == items.len() && a.iter().zip(items).all(|(x, s)| inhabits(x, s))),
        Shape::Record(k, val) => v.as_object().map_or(false, |o| {
            o.iter().all(|(key, x)| {
                let key_ok = match &**k {
                    Shape::Str => true,
                    Shape::Num => key.parse::<f64>().is_ok(),
                    Shape::Ref(n) if n == "Kind" => key == "Alpha" || key == "Beta",
                    _ => false,
                };
                key_ok && inhabits(x, val)
            })
        }),
        Shape::Obj(m) => v.as_object().map_or(false, |o| m.iter().all(|(k, (opt, s))| match o.get(k) {
            Some(x) => inhabits(x, s),
            None => *opt,
        })),
        Shape::Union(set) => set.iter().any(|x| inhabits(v, x)),
        Shape::Inter(v2) => v2.iter().all(|x| inhabits(v, x)),
        Shape::JsSet(_) | Shape::JsMap(..) | Shape::Other(_) => false,
    }
}

fn j<T: Serialize>(v: T) -> Value {
    serde_json::to_value(v).unwrap()
}

/// (Rust type as text, a serialised value of that type)
pub fn fixtures() -> Vec<(&'static str, Value)> {
    let item = || Item { id: 7 };
    let mut hm: HashMap<String, (u8, bool)> = HashMap::new();
    hm.insert("k".into(), (1, true));
    let mut bm: BTreeMap<i32, Vec<Option<String>>> = BTreeMap::new();
    bm.insert(3, vec![None, Some("x".into())]);
    let mut em: HashMap<Kind, i32> = HashMap::new();
    em.insert(Kind::Beta, 2);
    let mut hs: HashSet<String> = HashSet::new();
    hs.insert("a".into());
    let mut bs: BTreeSet<(i32, Kind)> = BTreeSet::new();
    bs.insert((1, Kind::Alpha));
    let ok: Result<i32, String> = Ok(1);
    let _ = ok;
    vec![
        ("String", j("s".to_string())),
        ("&str", j("s")),
        ("i8", j(-1i8)),
        ("u64", j(u64::MAX)),
        ("i128", j(-5i128)),
        ("f32", j(1.5f32)),
        ("f64", j(-2.25f64)),
        ("usize", j(3usize)),
        ("bool", j(true)),
        ("()", j(())),
        ("Item", j(item())),
        ("Kind", j(Kind::Alpha)),
        ("Option<String>", j(None::<String>)),
        ("Option<String>", j(Some("x".to_string()))),
        ("Option<Option<i32>>", j(Some(None::<i32>))),
        ("Vec<i32>", j(vec![1, 2])),
        ("Vec<Option<i32>>", j(vec![Some(1), None])),
        ("Option<Vec<Item>>", j(Some(vec![item()]))),
        ("Vec<Vec<String>>", j(vec![vec!["a".to_string()], vec![]])),
        ("HashSet<String>", j(hs)),
        ("BTreeSet<(i32, Kind)>", j(bs)),
        ("HashMap<String, (u8, bool)>", j(hm)),
        ("BTreeMap<i32, Vec<Option<String>>>", j(bm)),
        ("HashMap<Kind, i32>", j(em)),
        ("(i32, String)", j((1, "a".to_string()))),
        ("(bool, Item, String)", j((true, item(), "z".to_string()))),
        ("(i32, String, bool, Option<Kind>)", j((1, "a".to_string(), false, None::<Kind>))),
        ("((), f32)", j(((), 1.0f32))),
        ("Vec<(Item, i32)>", j(vec![(item(), 1)])),
        ("Option<(String, Vec<u8>)>", j(Some(("a".to_string(), vec![1u8, 2])))),
        ("(String, HashMap<String, Item>)", j(("a".to_string(), {
            let mut m = HashMap::new();
            m.insert("k".to_string(), item());
            m
        }))),
        ("HashMap<String, BTreeMap<i32, Kind>>", j({
            let mut m = HashMap::new();
            let mut inner = BTreeMap::new();
            inner.insert(1, Kind::Beta);
            m.insert("k".to_string(), inner);
            m
        })),
        ("&Option<Vec<&str>>", j(&Some(vec!["a", "b"]))),
        ("Vec<()>", j(vec![(), ()])),
    ]
}

/// returns the number of fixtures validated
pub fn validate() -> usize {
    let fx = fixtures();
    for (ty_text, value) in &fx {
        let ty: Ty = crate::props::c05::ty_from_json(&Value::String(ty_text.to_string())).unwrap_or_else(|| crate::run::infra_exit(&format!("fixture type {} does not parse", ty_text)));
        let d = ty.d();
        if !inhabits(value, &d) {
            crate::run::infra_exit(&format!("denotation model disagrees with serde: {} serialises to {} which does not inhabit {}", ty_text, value, d));
        }
    }
    fx.len()
}
