#![allow(dead_code, non_snake_case)]
//! serde's renaming rules (a port of serde_derive/src/internals/case.rs, field rule and variant
//! rule kept apart) and the precedence rename > rename_all > identity. Validated at start-up
//! against types compiled with the real serde_derive (`validate()`).

pub const RULES: &[&str] = &["lowercase", "UPPERCASE", "PascalCase", "camelCase", "snake_case", "SCREAMING_SNAKE_CASE", "kebab-case", "SCREAMING-KEBAB-CASE"];

pub fn apply_to_variant(rule: &str, variant: &str) -> String {
    match rule {
        "PascalCase" => variant.to_string(),
        "lowercase" => variant.to_ascii_lowercase(),
        "UPPERCASE" => variant.to_ascii_uppercase(),
        "camelCase" => variant[..1].to_ascii_lowercase() + &variant[1..],
        "snake_case" => {
            let mut snake = String::new();
            for (i, ch) in variant.char_indices() {
                if i > 0 && ch.is_uppercase() {
                    snake.push('_');
                }
                snake.push(ch.to_ascii_lowercase());
            }
            snake
        }
        "SCREAMING_SNAKE_CASE" => apply_to_variant("snake_case", variant).to_ascii_uppercase(),
        "kebab-case" => apply_to_variant("snake_case", variant).replace('_', "-"),
        "SCREAMING-KEBAB-CASE" => apply_to_variant("SCREAMING_SNAKE_CASE", variant).replace('_', "-"),
        _ => variant.to_string(),
    }
}

pub fn apply_to_field(rule: &str, field: &str) -> String {
    match rule {
        "lowercase" | "snake_case" => field.to_string(),
        "UPPERCASE" | "SCREAMING_SNAKE_CASE" => field.to_ascii_uppercase(),
        "PascalCase" => {
            let mut pascal = String::new();
            let mut capitalize = true;
            for ch in field.chars() {
                if ch == '_' {
                    capitalize = true;
                } else if capitalize {
                    pascal.push(ch.to_ascii_uppercase());
                    capitalize = false;
                } else {
                    pascal.push(ch);
                }
            }
            pascal
        }
        "camelCase" => {
            let pascal = apply_to_field("PascalCase", field);
            if pascal.is_empty() {
                pascal
            } else {
                pascal[..1].to_ascii_lowercase() + &pascal[1..]
            }
        }
        "kebab-case" => field.replace('_', "-"),
        "SCREAMING-KEBAB-CASE" => apply_to_field("SCREAMING_SNAKE_CASE", field).replace('_', "-"),
        _ => field.to_string(),
    }
}

/// wire name of an item: rename > container rename_all (rule for the item's kind) > Rust name
/// (raw-identifier prefix removed, as serde does)
pub fn wire_name(ident: &str, is_variant: bool, rename: Option<&str>, rename_all: Option<&str>) -> String {
    if let Some(r) = rename {
        return r.to_string();
    }
    let base = ident.strip_prefix("r#").unwrap_or(ident);
    match rename_all {
        Some(rule) => {
            if is_variant {
                apply_to_variant(rule, base)
            } else {
                apply_to_field(rule, base)
            }
        }
        None => base.to_string(),
    }
}

// ---------------------------------------------------------------------------------------------
// validation against the real serde_derive

macro_rules! fixture {
    ($modname:ident, $rule:literal) => {
        mod $modname {
            use serde::Serialize;
            #[derive(Serialize, Default)]
            #[serde(rename_all = $rule)]
            pub struct S {
                pub id: i32,
                pub user_id: i32,
                pub first_name_2: i32,
                pub a: i32,
                pub x1: i32,
                pub http_server: i32,
                pub v2: i32,
                pub a_b_c: i32,
                pub item__no: i32,
                pub _private: i32,
                pub name_: i32,
                pub r#type: i32,
                pub user2_name: i32,
                pub is_ok: i32,
                #[serde(rename = "explicit-Name")]
                pub renamed_field: i32,
                #[serde(skip)]
                pub skipped_field: i32,
                #[serde(default, skip_serializing_if = "skip_never")]
                pub cond_field: i32,
            }
            pub fn skip_never(_: &i32) -> bool {
                false
            }
            #[derive(Serialize, Clone, Copy)]
            #[serde(rename_all = $rule)]
            #[allow(clippy::upper_case_acronyms)]
            pub enum E {
                Active,
                InProgress,
                HTTPServer,
                V2,
                A,
                UserId2,
                X1Y2,
                IOError,
                Ab,
                ABC,
                UserID,
                MyV2Thing,
                Done,
                NotFound,
                #[serde(rename = "explicit-Name")]
                RenamedVariant,
            }
            pub const ALL: &[E] = &[E::Active, E::InProgress, E::HTTPServer, E::V2, E::A, E::UserId2, E::X1Y2, E::IOError, E::Ab, E::ABC, E::UserID, E::MyV2Thing, E::Done, E::NotFound, E::RenamedVariant];
        }
    };
}

fixture!(f_lower, "lowercase");
fixture!(f_upper, "UPPERCASE");
fixture!(f_pascal, "PascalCase");
fixture!(f_camel, "camelCase");
fixture!(f_snake, "snake_case");
fixture!(f_ssnake, "SCREAMING_SNAKE_CASE");
fixture!(f_kebab, "kebab-case");
fixture!(f_skebab, "SCREAMING-KEBAB-CASE");

mod f_none {
    use serde::Serialize;
    #[derive(Serialize, Default)]
    pub struct S {
        pub id: i32,
        pub user_id: i32,
        pub r#type: i32,
        #[serde(rename = "explicit-Name")]
        pub renamed_field: i32,
        #[serde(skip)]
        pub skipped_field: i32,
    }
    #[derive(Serialize, Clone, Copy)]
    pub enum E {
        Active,
        InProgress,
        #[serde(rename = "explicit-Name")]
        RenamedVariant,
    }
}

pub const FIELD_IDENTS: &[&str] = &["id", "user_id", "first_name_2", "a", "x1", "http_server", "v2", "a_b_c", "item__no", "_private", "name_", "r#type", "user2_name", "is_ok"];
pub const VARIANT_IDENTS: &[&str] = &["Active", "InProgress", "HTTPServer", "V2", "A", "UserId2", "X1Y2", "IOError", "Ab", "ABC", "UserID", "MyV2Thing", "Done", "NotFound"];

/// returns the number of names compared; a disagreement is a broken oracle (exit 2)
pub fn validate() -> usize {
    let mut n = 0;
    macro_rules! check {
        ($m:ident, $rule:literal) => {{
            let v = serde_json::to_value($m::S::default()).unwrap();
            let keys: Vec<String> = {
                // serde_json (without preserve_order) sorts keys; compare as sets
                v.as_object().unwrap().keys().cloned().collect()
            };
            let mut expected: Vec<String> = FIELD_IDENTS.iter().map(|f| wire_name(f, false, None, Some($rule))).collect();
            expected.push(wire_name("renamed_field", false, Some("explicit-Name"), Some($rule)));
            expected.push(wire_name("cond_field", false, None, Some($rule)));
            let mut a = keys.clone();
            a.sort();
            expected.sort();
            if a != expected {
                crate::run::infra_exit(&format!("serde naming model disagrees with serde_derive for fields under {}: model {:?} vs serde {:?}", $rule, expected, a));
            }
            n += expected.len();
            for (i, e) in $m::ALL.iter().enumerate() {
                let got = serde_json::to_value(e).unwrap().as_str().unwrap().to_string();
                let exp = if i < VARIANT_IDENTS.len() { wire_name(VARIANT_IDENTS[i], true, None, Some($rule)) } else { "explicit-Name".to_string() };
                if got != exp {
                    crate::run::infra_exit(&format!("serde naming model disagrees with serde_derive for variant {} under {}: model {:?} vs serde {:?}", i, $rule, exp, got));
                }
                n += 1;
            }
        }};
    }
    check!(f_lower, "lowercase");
    check!(f_upper, "UPPERCASE");
    check!(f_pascal, "PascalCase");
    check!(f_camel, "camelCase");
    check!(f_snake, "snake_case");
    check!(f_ssnake, "SCREAMING_SNAKE_CASE");
    check!(f_kebab, "kebab-case");
    check!(f_skebab, "SCREAMING-KEBAB-CASE");
    let v = serde_json::to_value(f_none::S::default()).unwrap();
    let mut keys: Vec<String> = v.as_object().unwrap().keys().cloned().collect();
    keys.sort();
    let mut exp = vec!["id".to_string(), "user_id".into(), "type".into(), "explicit-Name".into()];
    exp.sort();
    if keys != exp {
        crate::run::infra_exit("serde naming model disagrees with serde_derive without rename_all");
    }
    n += 4;
    for (e, exp) in [(f_none::E::Active, "Active"), (f_none::E::InProgress, "InProgress"), (f_none::E::RenamedVariant, "explicit-Name")] {
        if serde_json::to_value(e).unwrap().as_str().unwrap() != exp {
            crate::run::infra_exit("serde naming model disagrees with serde_derive for variants without rename_all");
        }
        n += 1;
    }
    n
}
