//! Engine: tiers, seeds, statistics, proptest-driven search over tapes, bounded enumeration,
//! known-findings matching, replay files, evidence files, exit-code contract.

use crate::tape::Tape;
use proptest::test_runner::{Config, RngAlgorithm, TestCaseError, TestError, TestRng, TestRunner};
use regex::Regex;
use serde_json::{json, Value};
use std::collections::{BTreeMap, HashSet};
use std::hash::{Hash, Hasher};
use std::path::PathBuf;
use std::sync::atomic::{AtomicBool, Ordering};
use std::sync::Mutex;
use std::time::Instant;

#[derive(Clone, Copy, Debug, PartialEq, Eq)]
pub enum Tier {
    Quick,
    Thorough,
}

impl Tier {
    pub fn name(self) -> &'static str {
        match self {
            Tier::Quick => "quick",
            Tier::Thorough => "thorough",
        }
    }
    /// pick by tier
    pub fn pick<T>(self, quick: T, thorough: T) -> T {
        match self {
            Tier::Quick => quick,
            Tier::Thorough => thorough,
        }
    }
}

pub fn stable_hash<H: Hash>(h: &H) -> u64 {
    // SipHash with fixed keys: deterministic across runs and processes
    #[allow(deprecated)]
    let mut s = std::hash::SipHasher::new_with_keys(0x7474_6776, 0x2026);
    h.hash(&mut s);
    s.finish()
}

/// One observed disagreement between the tool and an oracle.
#[derive(Clone, Debug)]
pub struct Failure {
    /// failure mode, from a closed vocabulary per property (`syntax_error`, `shape_mismatch`, ...)
    pub kind: String,
    /// features of the *input* (`site=field`, `mode=zod`, `path=seq>option`, ...)
    pub tags: Vec<String>,
    /// what the tool produced (matched by known-finding regexes)
    pub observed: String,
    pub expected: String,
    /// rendered case for the human reader / the replay file
    pub case: Value,
}

impl Failure {
    pub fn new(kind: &str) -> Self {
        Failure { kind: kind.to_string(), tags: vec![], observed: String::new(), expected: String::new(), case: Value::Null }
    }
    pub fn tag(mut self, t: impl Into<String>) -> Self {
        self.tags.push(t.into());
        self
    }
    pub fn tags(mut self, ts: impl IntoIterator<Item = String>) -> Self {
        self.tags.extend(ts);
        self
    }
    pub fn observed(mut self, s: impl Into<String>) -> Self {
        self.observed = s.into();
        self
    }
    pub fn expected(mut self, s: impl Into<String>) -> Self {
        self.expected = s.into();
        self
    }
    pub fn case(mut self, v: Value) -> Self {
        self.case = v;
        self
    }
    pub fn to_json(&self) -> Value {
        json!({"kind": self.kind, "tags": self.tags, "observed": self.observed, "expected": self.expected, "case": self.case})
    }
}

#[derive(Debug)]
pub struct KnownFinding {
    pub id: String,
    pub property: String,
    /// "known" or "fixed"
    pub status: String,
    pub what: String,
    pub commit: Option<String>,
    pub kind: String,
    pub tags_all: Vec<String>,
    pub tags_none: Vec<String>,
    pub observed_regex: Option<Regex>,
    pub expected_regex: Option<Regex>,
    pub example: Option<Value>,
}

impl KnownFinding {
    pub fn matches(&self, f: &Failure) -> bool {
        self.status == "known"
            && self.kind == f.kind
            && self.tags_all.iter().all(|t| f.tags.iter().any(|x| x == t))
            && !self.tags_none.iter().any(|t| f.tags.iter().any(|x| x == t))
            && self.observed_regex.as_ref().map_or(true, |r| r.is_match(&f.observed))
            && self.expected_regex.as_ref().map_or(true, |r| r.is_match(&f.expected))
    }
}

pub fn load_known_findings(root: &PathBuf, property: &str) -> Vec<KnownFinding> {
    let path = root.join("known_findings.json");
    let Ok(text) = std::fs::read_to_string(&path) else { return vec![] };
    let v: Value = match serde_json::from_str(&text) {
        Ok(v) => v,
        Err(e) => infra_exit(&format!("known_findings.json does not parse: {}", e)),
    };
    let mut out = vec![];
    for e in v.as_array().cloned().unwrap_or_default() {
        if e["property"].as_str() != Some(property) {
            continue;
        }
        let m = &e["match"];
        let strs = |v: &Value| -> Vec<String> { v.as_array().map(|a| a.iter().filter_map(|x| x.as_str().map(String::from)).collect()).unwrap_or_default() };
        let rx = |v: &Value| -> Option<Regex> {
            v.as_str().map(|s| Regex::new(s).unwrap_or_else(|err| infra_exit(&format!("bad regex in known_findings.json: {}", err))))
        };
        out.push(KnownFinding {
            id: e["id"].as_str().unwrap_or("?").to_string(),
            property: property.to_string(),
            status: e["status"].as_str().unwrap_or("known").to_string(),
            what: e["what"].as_str().unwrap_or("").to_string(),
            commit: e["commit"].as_str().map(String::from),
            kind: m["kind"].as_str().unwrap_or("").to_string(),
            tags_all: strs(&m["tags_all"]),
            tags_none: strs(&m["tags_none"]),
            observed_regex: rx(&m["observed_regex"]),
            expected_regex: rx(&m["expected_regex"]),
            example: if e["example"].is_null() { None } else { Some(e["example"].clone()) },
        });
    }
    out
}

/// Per-worker statistics, merged at the end.
#[derive(Default, Debug)]
pub struct Stats {
    pub evaluations: u64,
    pub nontrivial: HashSet<u64>,
    pub labels: BTreeMap<String, u64>,
    pub samples: Vec<Value>,
    pub known_hits: BTreeMap<String, u64>,
    pub excluded_known: u64,
    pub counters: BTreeMap<String, u64>,
    pub sets: BTreeMap<String, HashSet<u64>>,
    /// set while proptest shrinks: counters stop
    pub frozen: bool,
    sample_next: u64,
}

impl Stats {
    pub fn eval(&mut self) {
        if !self.frozen {
            self.evaluations += 1;
        }
    }
    pub fn evals(&mut self, n: u64) {
        if !self.frozen {
            self.evaluations += n;
        }
    }
    pub fn nontrivial<H: Hash>(&mut self, h: &H) {
        if !self.frozen {
            self.nontrivial.insert(stable_hash(h));
        }
    }
    pub fn label(&mut self, l: &str) {
        if !self.frozen {
            *self.labels.entry(l.to_string()).or_insert(0) += 1;
        }
    }
    pub fn count(&mut self, c: &str, n: u64) {
        if !self.frozen {
            *self.counters.entry(c.to_string()).or_insert(0) += n;
        }
    }
    /// count distinct values of something (orders seen, grid cells hit, ...)
    pub fn distinct<H: Hash>(&mut self, set: &str, h: &H) {
        if !self.frozen {
            self.sets.entry(set.to_string()).or_default().insert(stable_hash(h));
        }
    }
    /// keep a few rendered cases, spread over the run
    pub fn sample(&mut self, make: impl FnOnce() -> Value) {
        if self.frozen {
            return;
        }
        if self.evaluations >= self.sample_next && self.samples.len() < 5 {
            self.samples.push(make());
            self.sample_next = self.evaluations.max(1) * 7;
        }
    }
    pub fn merge(&mut self, o: Stats) {
        self.evaluations += o.evaluations;
        self.nontrivial.extend(o.nontrivial);
        for (k, v) in o.labels {
            *self.labels.entry(k).or_insert(0) += v;
        }
        for (k, v) in o.known_hits {
            *self.known_hits.entry(k).or_insert(0) += v;
        }
        for (k, v) in o.counters {
            *self.counters.entry(k).or_insert(0) += v;
        }
        for (k, v) in o.sets {
            self.sets.entry(k).or_default().extend(v);
        }
        self.excluded_known += o.excluded_known;
        for s in o.samples {
            if self.samples.len() < 8 {
                self.samples.push(s);
            }
        }
    }
}

pub struct Violation {
    pub check: String,
    pub input: Value,
    pub failure: Failure,
}

pub struct Ctx {
    pub property: String,
    pub tier: Tier,
    pub seed: u64,
    pub root: PathBuf,
    pub known: Vec<KnownFinding>,
    pub stats: Mutex<Stats>,
    pub violations: Mutex<Vec<Violation>>,
    pub start: Instant,
    pub level: String,
    pub rule: Mutex<String>,
    pub exhaustive: Mutex<Option<bool>>,
    pub assumptions: Mutex<Vec<String>>,
    pub notes: Mutex<BTreeMap<String, Value>>,
    pub workers: usize,
    /// development aid (TTGV_SURVEY=1): collect every unknown failure instead of stopping
    pub survey: Option<Mutex<BTreeMap<String, (u64, Vec<Failure>)>>>,
}

pub fn infra_exit(msg: &str) -> ! {
    eprintln!("ttgv: INCONCLUSIVE (harness/infrastructure problem, not a violation): {}", msg);
    println!("INCONCLUSIVE {}", msg);
    std::process::exit(2);
}

pub fn verif_root() -> PathBuf {
    if let Ok(r) = std::env::var("VERIF_ROOT") {
        return PathBuf::from(r);
    }
    PathBuf::from("/verif")
}

impl Ctx {
    pub fn new(property: &str, tier: Tier, seed: u64, level: &str) -> Self {
        let root = verif_root();
        let known = load_known_findings(&root, property);
        let workers = std::env::var("VERIF_WORKERS").ok().and_then(|s| s.parse().ok()).unwrap_or_else(|| {
            std::thread::available_parallelism().map(|n| n.get()).unwrap_or(4).min(16)
        });
        Ctx {
            property: property.to_string(),
            tier,
            seed,
            root,
            known,
            stats: Mutex::new(Stats::default()),
            violations: Mutex::new(vec![]),
            start: Instant::now(),
            level: level.to_string(),
            rule: Mutex::new(String::new()),
            exhaustive: Mutex::new(None),
            assumptions: Mutex::new(vec![]),
            notes: Mutex::new(BTreeMap::new()),
            workers,
            survey: if std::env::var("TTGV_SURVEY").is_ok() { Some(Mutex::new(BTreeMap::new())) } else { None },
        }
    }

    pub fn set_rule(&self, r: &str) {
        *self.rule.lock().unwrap() = r.to_string();
    }
    pub fn set_exhaustive(&self, e: bool) {
        *self.exhaustive.lock().unwrap() = Some(e);
    }
    pub fn assume(&self, a: &str) {
        self.assumptions.lock().unwrap().push(a.to_string());
    }
    pub fn note(&self, k: &str, v: Value) {
        self.notes.lock().unwrap().insert(k.to_string(), v);
    }

    /// Split failures into unknown ones (returned) and known ones (counted).
    pub fn triage(&self, fails: Vec<Failure>, stats: &mut Stats) -> Vec<Failure> {
        let mut unknown = vec![];
        for f in fails {
            if let Some(k) = self.known.iter().find(|k| k.matches(&f)) {
                if !stats.frozen {
                    *stats.known_hits.entry(k.id.clone()).or_insert(0) += 1;
                }
            } else if let Some(sv) = &self.survey {
                if !stats.frozen {
                    let pick = |p: &str| f.tags.iter().filter(|t| t.starts_with(p)).cloned().collect::<Vec<_>>().join(",");
                    let groups = std::env::var("TTGV_SURVEY").unwrap_or_default();
                    let mut key = f.kind.clone();
                    for g in groups.split(',').filter(|g| !g.is_empty() && *g != "1") {
                        key.push_str(" | ");
                        key.push_str(&pick(g));
                    }
                    let mut m = sv.lock().unwrap();
                    let e = m.entry(key).or_insert((0, vec![]));
                    e.0 += 1;
                    e.1.push(f);
                    e.1.sort_by_key(|x| x.case.to_string().len());
                    e.1.truncate(2);
                }
            } else {
                unknown.push(f);
            }
        }
        unknown
    }

    pub fn record_violation(&self, check: &str, input: Value, failure: Failure) {
        let mut v = self.violations.lock().unwrap();
        // one violation per (check, kind, first tag set) is enough
        if v.iter().any(|x| x.check == check && x.failure.kind == failure.kind && x.failure.tags == failure.tags) {
            return;
        }
        v.push(Violation { check: check.to_string(), input, failure });
    }

    pub fn has_violation(&self) -> bool {
        !self.violations.lock().unwrap().is_empty()
    }

    /// Random search: proptest generates and shrinks tapes; `f` decodes a tape into a case,
    /// runs the tool and returns every disagreement with the oracle.
    pub fn search<F>(&self, check: &str, cases: u32, max_tape: usize, f: F)
    where
        F: Fn(&mut Tape, &mut Stats) -> Vec<Failure> + Sync,
    {
        let workers = self.workers.min(((cases / 8) as usize).max(1));
        let per = (cases as usize + workers - 1) / workers;
        let stop = AtomicBool::new(false);
        std::thread::scope(|sc| {
            let mut handles = vec![];
            for w in 0..workers {
                let f = &f;
                let stop = &stop;
                handles.push(sc.spawn(move || {
                    let mut stats = Stats::default();
                    let mut seed_bytes = [0u8; 32];
                    let h = stable_hash(&(self.seed, check, w as u64, &self.property));
                    let h2 = stable_hash(&(h, 0x5eedu64));
                    seed_bytes[..8].copy_from_slice(&h.to_le_bytes());
                    seed_bytes[8..16].copy_from_slice(&h2.to_le_bytes());
                    seed_bytes[16..24].copy_from_slice(&self.seed.to_le_bytes());
                    let rng = TestRng::from_seed(RngAlgorithm::ChaCha, &seed_bytes);
                    let config = Config {
                        cases: per as u32,
                        failure_persistence: None,
                        max_shrink_iters: 1500,
                        max_global_rejects: 1,
                        ..Config::default()
                    };
                    let mut runner = TestRunner::new_with_rng(config, rng);
                    let strat = proptest::collection::vec(proptest::num::u32::ANY, 0..max_tape);
                    let cell = std::cell::RefCell::new(&mut stats);
                    let failed = std::cell::Cell::new(false);
                    let failed_at: std::cell::Cell<Option<Instant>> = std::cell::Cell::new(None);
                    let shrink_budget = std::time::Duration::from_secs(std::env::var("TTGV_SHRINK_SECS").ok().and_then(|s| s.parse().ok()).unwrap_or(45));
                    let res = runner.run(&strat, |tape_data| {
                        if stop.load(Ordering::Relaxed) && !failed.get() {
                            return Ok(());
                        }
                        // shrinking is time-boxed: after the budget every further candidate
                        // "passes", so the last failing tape found so far is what gets reported
                        if let Some(t0) = failed_at.get() {
                            if t0.elapsed() > shrink_budget {
                                return Ok(());
                            }
                        }
                        let mut st = cell.borrow_mut();
                        let mut tape = Tape::new(tape_data);
                        let fails = f(&mut tape, &mut st);
                        let unknown = self.triage(fails, &mut st);
                        if let Some(first) = unknown.first() {
                            st.frozen = true;
                            failed.set(true);
                            if failed_at.get().is_none() {
                                failed_at.set(Some(Instant::now()));
                            }
                            stop.store(true, Ordering::Relaxed);
                            return Err(TestCaseError::fail(first.kind.clone()));
                        }
                        Ok(())
                    });
                    drop(cell);
                    let mut found = None;
                    match res {
                        Ok(()) => {}
                        Err(TestError::Fail(_, min_tape)) => {
                            // re-evaluate the minimal tape to get the failure itself
                            let mut scratch = Stats { frozen: true, ..Stats::default() };
                            let mut tape = Tape::new(min_tape.clone());
                            let fails = f(&mut tape, &mut scratch);
                            let unknown = self.triage(fails, &mut scratch);
                            if let Some(first) = unknown.into_iter().next() {
                                found = Some((min_tape, first));
                            } else {
                                // not reproducible on re-run (order-dependent): report what we can
                                found = Some((min_tape, Failure::new("flaky_failure").observed("failure did not reproduce when the shrunk tape was re-evaluated")));
                            }
                        }
                        Err(TestError::Abort(r)) => infra_exit(&format!("proptest aborted: {}", r)),
                    }
                    stats.frozen = false;
                    (stats, found)
                }));
            }
            for h in handles {
                match h.join() {
                    Ok((stats, found)) => {
                        self.stats.lock().unwrap().merge(stats);
                        if let Some((tape, failure)) = found {
                            self.record_violation(check, json!({"tape": tape}), failure);
                        }
                    }
                    Err(_) => infra_exit("a worker thread of the harness panicked"),
                }
            }
        });
    }

    /// Bounded enumeration in the caller's order; `f` is evaluated for every key in parallel.
    /// The first unknown failure *in enumeration order* is reported (already minimal when the
    /// enumeration is in size order).
    pub fn enumerate<K, F>(&self, check: &str, keys: &[K], to_input: impl Fn(&K) -> Value + Sync, f: F)
    where
        K: Sync,
        F: Fn(&K, &mut Stats) -> Vec<Failure> + Sync,
    {
        let workers = self.workers.min(keys.len().max(1));
        let best: Mutex<Option<(usize, Failure)>> = Mutex::new(None);
        let next = std::sync::atomic::AtomicUsize::new(0);
        std::thread::scope(|sc| {
            let mut handles = vec![];
            for _ in 0..workers {
                let f = &f;
                let best = &best;
                let next = &next;
                handles.push(sc.spawn(move || {
                    let mut stats = Stats::default();
                    loop {
                        let i = next.fetch_add(1, Ordering::Relaxed);
                        if i >= keys.len() {
                            break;
                        }
                        let fails = f(&keys[i], &mut stats);
                        let unknown = self.triage(fails, &mut stats);
                        if let Some(first) = unknown.into_iter().next() {
                            let mut b = best.lock().unwrap();
                            if b.as_ref().map_or(true, |(j, _)| i < *j) {
                                *b = Some((i, first));
                            }
                        }
                    }
                    stats
                }));
            }
            for h in handles {
                match h.join() {
                    Ok(stats) => self.stats.lock().unwrap().merge(stats),
                    Err(_) => infra_exit("a worker thread of the harness panicked"),
                }
            }
        });
        if let Some((i, failure)) = best.into_inner().unwrap() {
            self.record_violation(check, to_input(&keys[i]), failure);
        }
    }

    /// Run a single, sequential evaluation (regression cases, fixed grids).
    pub fn single(&self, check: &str, input: Value, f: impl FnOnce(&mut Stats) -> Vec<Failure>) {
        let mut stats = Stats::default();
        let fails = f(&mut stats);
        let unknown = self.triage(fails, &mut stats);
        self.stats.lock().unwrap().merge(stats);
        if let Some(first) = unknown.into_iter().next() {
            self.record_violation(check, input, first);
        }
    }

    /// Replay the example of every known-findings entry of this property.
    /// `known`: print KNOWN-FINDING while it still fails that way. `fixed`: must pass.
    pub fn replay_known(&self, replay: &dyn Fn(&str, &Value, &mut Stats) -> Option<Vec<Failure>>) {
        for k in &self.known {
            let Some(ex) = &k.example else {
                if k.status == "known" {
                    println!("KNOWN-FINDING: property={} {} — {}", self.property, k.id, k.what);
                }
                continue;
            };
            let check = ex["check"].as_str().unwrap_or("");
            let mut stats = Stats::default();
            let Some(fails) = replay(check, &ex["input"], &mut stats) else {
                infra_exit(&format!("known_findings.json entry {} names unknown check {}", k.id, check));
            };
            if k.status == "known" {
                if fails.iter().any(|f| k.matches(f)) {
                    println!("KNOWN-FINDING: property={} {} — {}", self.property, k.id, k.what);
                    *self.stats.lock().unwrap().known_hits.entry(k.id.clone()).or_insert(0) += 0;
                } else {
                    println!("NOTE: known finding {} no longer reproduces on its canonical example (fixed upstream?)", k.id);
                }
                // anything else the example shows is triaged like any other failure
                let unknown = self.triage(fails, &mut stats);
                if let Some(first) = unknown.into_iter().next() {
                    self.record_violation(check, ex["input"].clone(), first);
                }
            } else {
                // fixed: ordinary regression case, nothing suppressed
                let mut st2 = Stats::default();
                let unknown = self.triage(fails, &mut st2);
                if let Some(first) = unknown.into_iter().next() {
                    self.record_violation(check, ex["input"].clone(), first.tag(format!("regression_of={}", k.id)));
                }
                self.stats.lock().unwrap().count("fixed_entries_replayed", 1);
            }
        }
    }

    /// Replay every stored regression case of this property (`regress/<id>/*.json`: shrunk
    /// failures found earlier, most of them repaired by `fix:` commits since). They are ordinary
    /// cases: anything that fails and is not a listed known finding is a violation.
    pub fn replay_regress(&self, replay: &dyn Fn(&str, &Value, &mut Stats) -> Option<Vec<Failure>>) {
        let dir = self.root.join("regress").join(&self.property);
        let Ok(rd) = std::fs::read_dir(&dir) else { return };
        let mut files: Vec<PathBuf> = rd.flatten().map(|e| e.path()).filter(|p| p.extension().map_or(false, |e| e == "json")).collect();
        files.sort();
        for f in files {
            let Ok(text) = std::fs::read_to_string(&f) else { continue };
            let Ok(v) = serde_json::from_str::<Value>(&text) else { infra_exit(&format!("regress file {} does not parse", f.display())) };
            let check = v["check"].as_str().unwrap_or("").to_string();
            let mut stats = Stats::default();
            let Some(fails) = replay(&check, &v["input"], &mut stats) else {
                infra_exit(&format!("regress file {} names unknown check {}", f.display(), check));
            };
            let unknown = self.triage(fails, &mut stats);
            stats.count("regress_replayed", 1);
            self.stats.lock().unwrap().merge(stats);
            if let Some(first) = unknown.into_iter().next() {
                self.record_violation(&check, v["input"].clone(), first.tag(format!("regress_file={}", f.file_name().unwrap().to_string_lossy())));
            }
        }
    }

    /// Write evidence, print VIOLATION lines, return the exit code.
    pub fn finish(&self) -> i32 {
        if let Some(sv) = &self.survey {
            for (k, (n, exs)) in sv.lock().unwrap().iter() {
                println!("SURVEY {:>7}  {}", n, k);
                for f in exs {
                    println!("          case={} tags={:?}\n            expected={}\n            observed={}", f.case, f.tags, truncate(&f.expected, 200), truncate(&f.observed, 300));
                }
            }
        }
        let stats = self.stats.lock().unwrap();
        let violations = self.violations.lock().unwrap();
        let wall = self.start.elapsed().as_secs_f64();
        let replay_dir = self.root.join("replays");
        let mut vio_json = vec![];
        for v in violations.iter() {
            let _ = std::fs::create_dir_all(&replay_dir);
            let body = json!({
                "property": self.property,
                "check": v.check,
                "tier": self.tier.name(),
                "seed": self.seed,
                "input": v.input,
                "failure": v.failure.to_json(),
            });
            let h = stable_hash(&body.to_string());
            let path = replay_dir.join(format!("{}-{:08x}.json", self.property, h as u32));
            let _ = std::fs::write(&path, serde_json::to_string_pretty(&body).unwrap());
            println!("VIOLATION property={} replay={}", self.property, path.display());
            println!("  check={} kind={} tags={:?}", v.check, v.failure.kind, v.failure.tags);
            println!("  expected: {}", truncate(&v.failure.expected, 400));
            println!("  observed: {}", truncate(&v.failure.observed, 400));
            vio_json.push(json!({"check": v.check, "kind": v.failure.kind, "tags": v.failure.tags, "replay": path.display().to_string()}));
        }
        let mut coverage = serde_json::Map::new();
        coverage.insert("evaluations".into(), json!(stats.evaluations));
        coverage.insert("distinct_nontrivial".into(), json!(stats.nontrivial.len()));
        coverage.insert("rule".into(), json!(*self.rule.lock().unwrap()));
        let samples: Vec<Value> = if stats.samples.is_empty() { vec![json!("(no sample recorded)")] } else { stats.samples.clone() };
        coverage.insert("samples".into(), json!(samples));
        if let Some(e) = *self.exhaustive.lock().unwrap() {
            coverage.insert("exhaustive".into(), json!(e));
        }
        coverage.insert("classes".into(), json!(stats.labels));
        coverage.insert("counters".into(), json!(stats.counters));
        let sets: BTreeMap<String, usize> = stats.sets.iter().map(|(k, v)| (k.clone(), v.len())).collect();
        coverage.insert("distinct_counts".into(), json!(sets));
        coverage.insert("known_findings_hit".into(), json!(stats.known_hits));
        coverage.insert("excluded_known".into(), json!(stats.excluded_known));
        coverage.insert("workers".into(), json!(self.workers));
        for (k, v) in self.notes.lock().unwrap().iter() {
            coverage.insert(k.clone(), v.clone());
        }
        coverage.insert("violation_list".into(), json!(vio_json));
        let ev = json!({
            "property_id": self.property,
            "tier": self.tier.name(),
            "seed": self.seed,
            "level": self.level,
            "coverage": Value::Object(coverage),
            "assumptions": *self.assumptions.lock().unwrap(),
            "wall_s": (wall * 1000.0).round() / 1000.0,
            "violations": violations.len(),
        });
        let evdir = self.root.join("evidence");
        let _ = std::fs::create_dir_all(&evdir);
        let path = evdir.join(format!("{}.json", self.property));
        if let Err(e) = std::fs::write(&path, serde_json::to_string_pretty(&ev).unwrap()) {
            infra_exit(&format!("cannot write evidence {}: {}", path.display(), e));
        }
        println!(
            "{} {} seed={} evaluations={} distinct_nontrivial={} known_hits={:?} violations={} wall={:.1}s",
            self.property,
            self.tier.name(),
            self.seed,
            stats.evaluations,
            stats.nontrivial.len(),
            stats.known_hits,
            violations.len(),
            wall
        );
        if violations.is_empty() {
            0
        } else {
            1
        }
    }
}

pub fn truncate(s: &str, n: usize) -> String {
    if s.chars().count() <= n {
        s.to_string()
    } else {
        let t: String = s.chars().take(n).collect();
        format!("{}…", t)
    }
}
