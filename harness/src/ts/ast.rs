//! AST of the TypeScript subset.

#[derive(Clone, Debug, PartialEq)]
pub enum Key {
    Ident(String),
    Str(String),
    Num(String),
    Computed,
}

impl Key {
    /// the property name this key denotes
    pub fn name(&self) -> String {
        match self {
            Key::Ident(s) | Key::Str(s) | Key::Num(s) => s.clone(),
            Key::Computed => "[computed]".into(),
        }
    }
}

#[derive(Clone, Debug, PartialEq)]
pub enum Member {
    Prop { key: Key, optional: bool, readonly: bool, ty: Type },
    Index { param: String, key_ty: Type, ty: Type },
    Method { key: Key, optional: bool, params: Vec<Param>, ret: Option<Type> },
}

#[derive(Clone, Debug, PartialEq)]
pub struct Param {
    pub name: String,
    pub optional: bool,
    pub rest: bool,
    pub ty: Option<Type>,
}

#[derive(Clone, Debug, PartialEq)]
pub enum Type {
    /// `string`, `User`, `types.User`, `Array<T>`, `Record<K, V>` ...
    Ref { name: Vec<String>, args: Vec<Type> },
    Array(Box<Type>),
    Tuple(Vec<Type>),
    Union(Vec<Type>),
    Inter(Vec<Type>),
    LitStr(String),
    LitNum(String),
    LitBool(bool),
    Object(Vec<Member>),
    Func { params: Vec<Param>, ret: Box<Type> },
    Typeof(Vec<String>),
    Keyof(Box<Type>),
    Indexed(Box<Type>, Box<Type>),
    Paren(Box<Type>),
}

#[derive(Clone, Debug, PartialEq)]
pub enum Prop {
    KeyValue(Key, Expr),
    Shorthand(String),
    Spread(Expr),
}

#[derive(Clone, Debug, PartialEq)]
pub enum ArrowBody {
    Expr(Box<Expr>),
    Block(Vec<Stmt>),
}

#[derive(Clone, Debug, PartialEq)]
pub enum Expr {
    Ident(String),
    Str(String),
    Num(String),
    Bool(bool),
    Null,
    Member { obj: Box<Expr>, prop: String, optional: bool },
    Index { obj: Box<Expr>, index: Box<Expr>, optional: bool },
    Call { callee: Box<Expr>, type_args: Vec<Type>, args: Vec<Expr>, optional: bool },
    New { callee: Box<Expr>, type_args: Vec<Type>, args: Vec<Expr> },
    Object(Vec<Prop>),
    Array(Vec<Expr>),
    Arrow { is_async: bool, params: Vec<Param>, ret: Option<Type>, body: ArrowBody },
    Unary { op: &'static str, expr: Box<Expr> },
    Binary { op: &'static str, l: Box<Expr>, r: Box<Expr> },
    Cond { c: Box<Expr>, t: Box<Expr>, e: Box<Expr> },
    Assign { op: &'static str, l: Box<Expr>, r: Box<Expr> },
    Await(Box<Expr>),
    Paren(Box<Expr>),
    Spread(Box<Expr>),
    As(Box<Expr>, Type),
    NonNull(Box<Expr>),
}

#[derive(Clone, Debug, PartialEq)]
pub enum Stmt {
    Var { kind: String, name: String, ty: Option<Type>, init: Option<Expr> },
    Return(Option<Expr>),
    If { cond: Expr, then: Box<Stmt>, els: Option<Box<Stmt>> },
    Throw(Expr),
    Try { block: Vec<Stmt>, catch: Option<(Option<String>, Vec<Stmt>)>, finally: Option<Vec<Stmt>> },
    Block(Vec<Stmt>),
    Expr(Expr),
    Empty,
}

#[derive(Clone, Debug, PartialEq)]
pub struct ImportName {
    pub name: String,
    pub alias: Option<String>,
    pub type_only: bool,
}

#[derive(Clone, Debug, PartialEq)]
pub struct Function {
    pub exported: bool,
    pub is_async: bool,
    pub name: String,
    pub type_params: Vec<String>,
    pub params: Vec<Param>,
    pub ret: Option<Type>,
    pub body: Vec<Stmt>,
}

#[derive(Clone, Debug, PartialEq)]
pub struct Interface {
    pub exported: bool,
    pub name: String,
    pub type_params: Vec<String>,
    pub extends: Vec<Type>,
    pub members: Vec<Member>,
}

#[derive(Clone, Debug, PartialEq)]
pub enum Item {
    Import { type_only: bool, default: Option<String>, namespace: Option<String>, names: Vec<ImportName>, from: String },
    ExportAll { from: String },
    ExportNamed { names: Vec<ImportName>, from: Option<String> },
    Interface(Interface),
    TypeAlias { exported: bool, name: String, type_params: Vec<String>, ty: Type },
    Const { exported: bool, kind: String, name: String, ty: Option<Type>, init: Option<Expr> },
    Function(Function),
    Stmt(Stmt),
}

#[derive(Clone, Debug)]
pub struct ItemSpan {
    pub item: Item,
    /// byte range in the source
    pub start: usize,
    pub end: usize,
}
