//! Recursive-descent parser for the TypeScript subset. Never stricter than tsc on the fragment the
//! templates can emit (plus a margin); two error kinds (see lex::ErrKind).

use super::ast::*;
use super::lex::*;

pub struct Parser<'a> {
    src: &'a str,
    toks: Vec<Token>,
    pos: usize,
    /// checks of binding names against reserved words
    strict_names: bool,
}

type R<T> = Result<T, TsError>;

pub struct Module {
    pub items: Vec<ItemSpan>,
    /// errors of declarations that were skipped by recovery (first error per skipped region)
    pub errors: Vec<TsError>,
}

/// Parse a whole module. With `recover`, a syntax error inside one top-level declaration is
/// recorded and parsing resumes at the next line that starts a top-level declaration; without it,
/// the first error is returned alone.
pub fn parse_module(src: &str, recover: bool) -> Module {
    let toks = match lex(src) {
        Ok(t) => t,
        Err(e) => {
            if !recover {
                return Module { items: vec![], errors: vec![e] };
            }
            // lexing failed somewhere: lex line-group by line-group so that the rest of the file
            // stays observable. Cut the source at top-level declaration starts.
            return parse_by_chunks(src);
        }
    };
    let mut p = Parser { src, toks, pos: 0, strict_names: true };
    let mut items = Vec::new();
    let mut errors = Vec::new();
    while !p.at_eof() {
        let start_pos = p.pos;
        let start = p.toks[p.pos].off;
        match p.item() {
            Ok(item) => {
                let end = if p.pos > 0 { p.toks[p.pos].off } else { start };
                items.push(ItemSpan { item, start, end });
            }
            Err(e) => {
                errors.push(e);
                if !recover {
                    break;
                }
                // resync: next token at column 1 that starts a declaration, after the failing start
                p.pos = start_pos + 1;
                while !p.at_eof() {
                    let t = &p.toks[p.pos];
                    if t.col == 1 && t.nl_before {
                        if let Tok::Ident(s) = &t.tok {
                            if matches!(s.as_str(), "export" | "import" | "interface" | "type" | "const" | "function" | "async") {
                                break;
                            }
                        }
                    }
                    p.pos += 1;
                }
            }
        }
    }
    Module { items, errors }
}

fn parse_by_chunks(src: &str) -> Module {
    // split at lines beginning with `export ` / `import ` (column 1)
    let mut starts = vec![0usize];
    let mut off = 0usize;
    for line in src.split_inclusive('\n') {
        if off != 0 && (line.starts_with("export ") || line.starts_with("import ")) {
            starts.push(off);
        }
        off += line.len();
    }
    starts.push(src.len());
    let mut items = Vec::new();
    let mut errors = Vec::new();
    for w in starts.windows(2) {
        let chunk = &src[w[0]..w[1]];
        if chunk.trim().is_empty() {
            continue;
        }
        let m = {
            match lex(chunk) {
                Ok(toks) => {
                    let mut p = Parser { src: chunk, toks, pos: 0, strict_names: true };
                    let mut its = Vec::new();
                    let mut errs = Vec::new();
                    while !p.at_eof() {
                        let start = p.toks[p.pos].off;
                        match p.item() {
                            Ok(item) => {
                                let end = p.toks[p.pos].off;
                                its.push(ItemSpan { item, start: w[0] + start, end: w[0] + end });
                            }
                            Err(e) => {
                                errs.push(e);
                                break;
                            }
                        }
                    }
                    Module { items: its, errors: errs }
                }
                Err(e) => Module { items: vec![], errors: vec![e] },
            }
        };
        // line numbers of chunk errors are relative; shift them
        let line_shift = src[..w[0]].matches('\n').count();
        for mut e in m.errors {
            e.line += line_shift;
            errors.push(e);
        }
        items.extend(m.items);
    }
    Module { items, errors }
}

pub fn parse_type_str(src: &str) -> R<Type> {
    let toks = lex(src)?;
    let mut p = Parser { src, toks, pos: 0, strict_names: true };
    let t = p.ty()?;
    if !p.at_eof() {
        return Err(p.err_here(ErrKind::Syntax, "trailing tokens after type"));
    }
    Ok(t)
}

pub fn parse_expr_str(src: &str) -> R<Expr> {
    let toks = lex(src)?;
    let mut p = Parser { src, toks, pos: 0, strict_names: true };
    let e = p.expr()?;
    if !p.at_eof() {
        return Err(p.err_here(ErrKind::Syntax, "trailing tokens after expression"));
    }
    Ok(e)
}

const UNMODELLED_KEYWORDS: &[&str] = &["class", "enum", "namespace", "module", "declare", "abstract"];

impl<'a> Parser<'a> {
    fn peek(&self) -> &Tok {
        &self.toks[self.pos].tok
    }
    fn peek_at(&self, k: usize) -> &Tok {
        let i = (self.pos + k).min(self.toks.len() - 1);
        &self.toks[i].tok
    }
    fn nl_before(&self) -> bool {
        self.toks[self.pos].nl_before
    }
    fn at_eof(&self) -> bool {
        matches!(self.peek(), Tok::Eof)
    }
    fn bump(&mut self) -> Tok {
        let t = self.toks[self.pos].tok.clone();
        if self.pos < self.toks.len() - 1 {
            self.pos += 1;
        }
        t
    }
    fn err_here(&self, kind: ErrKind, msg: &str) -> TsError {
        let t = &self.toks[self.pos];
        let found = match &t.tok {
            Tok::Ident(s) => format!("identifier `{}`", s),
            Tok::Str(s) => format!("string {:?}", s),
            Tok::Num(s) => format!("number {}", s),
            Tok::Punct(p) => format!("`{}`", p),
            Tok::Eof => "end of file".to_string(),
        };
        let line_text = self.src.lines().nth(t.line.saturating_sub(1)).unwrap_or("");
        let mut lt: String = line_text.chars().take(160).collect();
        if line_text.chars().count() > 160 {
            lt.push('…');
        }
        TsError { kind, msg: format!("{} (found {}) in line: {}", msg, found, lt.trim()), line: t.line, col: t.col }
    }
    fn is_punct(&self, p: &str) -> bool {
        matches!(self.peek(), Tok::Punct(q) if *q == p)
    }
    fn is_punct_at(&self, k: usize, p: &str) -> bool {
        matches!(self.peek_at(k), Tok::Punct(q) if *q == p)
    }
    fn is_word(&self, w: &str) -> bool {
        matches!(self.peek(), Tok::Ident(s) if s == w)
    }
    fn is_word_at(&self, k: usize, w: &str) -> bool {
        matches!(self.peek_at(k), Tok::Ident(s) if s == w)
    }
    fn eat_punct(&mut self, p: &str) -> bool {
        if self.is_punct(p) {
            self.bump();
            true
        } else {
            false
        }
    }
    fn eat_word(&mut self, w: &str) -> bool {
        if self.is_word(w) {
            self.bump();
            true
        } else {
            false
        }
    }
    fn expect_punct(&mut self, p: &str) -> R<()> {
        if self.eat_punct(p) {
            Ok(())
        } else {
            Err(self.err_here(ErrKind::Syntax, &format!("expected `{}`", p)))
        }
    }
    fn expect_word(&mut self, w: &str) -> R<()> {
        if self.eat_word(w) {
            Ok(())
        } else {
            Err(self.err_here(ErrKind::Syntax, &format!("expected `{}`", w)))
        }
    }
    /// any IdentifierName (reserved words allowed), e.g. after `.` or as a property key
    fn ident_name(&mut self) -> R<String> {
        match self.peek().clone() {
            Tok::Ident(s) => {
                self.bump();
                Ok(s)
            }
            _ => Err(self.err_here(ErrKind::Syntax, "expected identifier")),
        }
    }
    /// a binding identifier: not a reserved word
    fn binding_ident(&mut self, what: &str) -> R<String> {
        match self.peek().clone() {
            Tok::Ident(s) => {
                if self.strict_names && is_reserved(&s) {
                    return Err(self.err_here(ErrKind::Syntax, &format!("reserved word `{}` used as {} name", s, what)));
                }
                self.bump();
                Ok(s)
            }
            _ => Err(self.err_here(ErrKind::Syntax, &format!("expected {} name", what))),
        }
    }
    fn type_decl_name(&mut self, what: &str) -> R<String> {
        let name = self.binding_ident(what)?;
        if PREDEFINED_TYPE_NAMES.contains(&name.as_str()) {
            self.pos -= 1;
            let e = self.err_here(ErrKind::Syntax, &format!("{} name cannot be the predefined type `{}`", what, name));
            self.pos += 1;
            return Err(e);
        }
        Ok(name)
    }
    fn semi(&mut self) -> R<()> {
        if self.eat_punct(";") {
            return Ok(());
        }
        if self.is_punct("}") || self.at_eof() || self.nl_before() {
            return Ok(()); // ASI
        }
        Err(self.err_here(ErrKind::Syntax, "expected `;`"))
    }
    fn string_lit(&mut self) -> R<String> {
        match self.peek().clone() {
            Tok::Str(s) => {
                self.bump();
                Ok(s)
            }
            _ => Err(self.err_here(ErrKind::Syntax, "expected string literal")),
        }
    }

    // ---------------------------------------------------------------- items

    fn item(&mut self) -> R<Item> {
        if let Tok::Ident(w) = self.peek().clone() {
            if UNMODELLED_KEYWORDS.contains(&w.as_str()) && matches!(self.peek_at(1), Tok::Ident(_)) {
                return Err(self.err_here(ErrKind::Unmodelled, "declaration kind outside the modelled TypeScript subset"));
            }
            match w.as_str() {
                "import" if !self.is_punct_at(1, "(") && !self.is_punct_at(1, ".") => return self.import(),
                "export" => {
                    self.bump();
                    if self.eat_punct("*") {
                        if self.eat_word("as") {
                            self.ident_name()?;
                        }
                        self.expect_word("from")?;
                        let from = self.string_lit()?;
                        self.semi()?;
                        return Ok(Item::ExportAll { from });
                    }
                    if self.is_punct("{") {
                        let names = self.import_names()?;
                        let from = if self.eat_word("from") { Some(self.string_lit()?) } else { None };
                        self.semi()?;
                        return Ok(Item::ExportNamed { names, from });
                    }
                    if self.is_word("default") {
                        return Err(self.err_here(ErrKind::Unmodelled, "export default"));
                    }
                    if let Tok::Ident(w2) = self.peek().clone() {
                        if UNMODELLED_KEYWORDS.contains(&w2.as_str()) {
                            return Err(self.err_here(ErrKind::Unmodelled, "declaration kind outside the modelled TypeScript subset"));
                        }
                    }
                    return self.declaration(true);
                }
                "interface" | "type" | "const" | "let" | "var" | "function" | "async" => {
                    // `type` / `async` may also be ordinary identifiers in expression statements
                    let is_decl = match w.as_str() {
                        "type" | "interface" => matches!(self.peek_at(1), Tok::Ident(_)) && !self.toks[self.pos + 1].nl_before,
                        "async" => self.is_word_at(1, "function"),
                        _ => true,
                    };
                    if is_decl {
                        return self.declaration(false);
                    }
                }
                _ => {}
            }
        }
        Ok(Item::Stmt(self.stmt()?))
    }

    fn import(&mut self) -> R<Item> {
        self.expect_word("import")?;
        if let Tok::Str(from) = self.peek().clone() {
            self.bump();
            self.semi()?;
            return Ok(Item::Import { type_only: false, default: None, namespace: None, names: vec![], from });
        }
        let mut type_only = false;
        if self.is_word("type") && (self.is_punct_at(1, "{") || self.is_punct_at(1, "*") || (matches!(self.peek_at(1), Tok::Ident(s) if s != "from"))) {
            self.bump();
            type_only = true;
        }
        let mut default = None;
        let mut namespace = None;
        let mut names = vec![];
        if matches!(self.peek(), Tok::Ident(_)) {
            default = Some(self.binding_ident("import")?);
            if !self.eat_punct(",") {
                self.expect_word("from")?;
                let from = self.string_lit()?;
                self.semi()?;
                return Ok(Item::Import { type_only, default, namespace, names, from });
            }
        }
        if self.eat_punct("*") {
            self.expect_word("as")?;
            namespace = Some(self.binding_ident("namespace import")?);
        } else {
            names = self.import_names()?;
        }
        self.expect_word("from")?;
        let from = self.string_lit()?;
        self.semi()?;
        Ok(Item::Import { type_only, default, namespace, names, from })
    }

    fn import_names(&mut self) -> R<Vec<ImportName>> {
        self.expect_punct("{")?;
        let mut names = vec![];
        while !self.is_punct("}") {
            let mut type_only = false;
            if self.is_word("type") && matches!(self.peek_at(1), Tok::Ident(s) if s != "as") {
                self.bump();
                type_only = true;
            }
            let name = self.ident_name()?;
            let alias = if self.eat_word("as") { Some(self.ident_name()?) } else { None };
            names.push(ImportName { name, alias, type_only });
            if !self.eat_punct(",") {
                break;
            }
        }
        self.expect_punct("}")?;
        Ok(names)
    }

    fn type_params(&mut self) -> R<Vec<String>> {
        let mut out = vec![];
        if self.eat_punct("<") {
            loop {
                let n = self.type_decl_name("type parameter")?;
                if self.eat_word("extends") {
                    self.ty()?;
                }
                if self.eat_punct("=") {
                    self.ty()?;
                }
                out.push(n);
                if !self.eat_punct(",") {
                    break;
                }
            }
            self.expect_punct(">")?;
        }
        Ok(out)
    }

    fn declaration(&mut self, exported: bool) -> R<Item> {
        if self.eat_word("interface") {
            let name = self.type_decl_name("interface")?;
            let type_params = self.type_params()?;
            let mut extends = vec![];
            if self.eat_word("extends") {
                loop {
                    extends.push(self.type_ref_or_primary()?);
                    if !self.eat_punct(",") {
                        break;
                    }
                }
            }
            let members = self.members()?;
            return Ok(Item::Interface(Interface { exported, name, type_params, extends, members }));
        }
        if self.is_word("type") {
            self.bump();
            let name = self.type_decl_name("type alias")?;
            let type_params = self.type_params()?;
            self.expect_punct("=")?;
            let ty = self.ty()?;
            self.semi()?;
            return Ok(Item::TypeAlias { exported, name, type_params, ty });
        }
        if self.is_word("const") || self.is_word("let") || self.is_word("var") {
            let kind = self.ident_name()?;
            if self.is_word("enum") {
                return Err(self.err_here(ErrKind::Unmodelled, "const enum"));
            }
            let name = self.binding_ident("variable")?;
            let ty = if self.eat_punct(":") { Some(self.ty()?) } else { None };
            let init = if self.eat_punct("=") { Some(self.assign()?) } else { None };
            if self.is_punct(",") {
                return Err(self.err_here(ErrKind::Unmodelled, "multiple declarators"));
            }
            if kind == "const" && init.is_none() {
                return Err(self.err_here(ErrKind::Syntax, "const declaration without initialiser"));
            }
            self.semi()?;
            return Ok(Item::Const { exported, kind, name, ty, init });
        }
        let is_async = if self.is_word("async") && self.is_word_at(1, "function") {
            self.bump();
            true
        } else {
            false
        };
        if self.eat_word("function") {
            if self.is_punct("*") {
                return Err(self.err_here(ErrKind::Unmodelled, "generator function"));
            }
            let name = self.binding_ident("function")?;
            let type_params = self.type_params()?;
            let params = self.params()?;
            let ret = if self.eat_punct(":") { Some(self.ty()?) } else { None };
            let body = self.block()?;
            return Ok(Item::Function(Function { exported, is_async, name, type_params, params, ret, body }));
        }
        Err(self.err_here(ErrKind::Syntax, "expected a declaration"))
    }

    fn params(&mut self) -> R<Vec<Param>> {
        self.expect_punct("(")?;
        let mut out = vec![];
        while !self.is_punct(")") {
            let rest = self.eat_punct("...");
            if self.is_punct("{") || self.is_punct("[") {
                return Err(self.err_here(ErrKind::Unmodelled, "destructuring parameter"));
            }
            // accessibility modifiers etc. are not modelled
            let name = self.binding_ident("parameter")?;
            let optional = self.eat_punct("?");
            let ty = if self.eat_punct(":") { Some(self.ty()?) } else { None };
            if self.eat_punct("=") {
                self.assign()?;
            }
            out.push(Param { name, optional, rest, ty });
            if !self.eat_punct(",") {
                break;
            }
        }
        self.expect_punct(")")?;
        Ok(out)
    }

    fn property_key(&mut self) -> R<Key> {
        match self.peek().clone() {
            Tok::Ident(s) => {
                self.bump();
                Ok(Key::Ident(s))
            }
            Tok::Str(s) => {
                self.bump();
                Ok(Key::Str(s))
            }
            Tok::Num(s) => {
                self.bump();
                Ok(Key::Num(s))
            }
            _ => Err(self.err_here(ErrKind::Syntax, "expected property name (identifier, string or number)")),
        }
    }

    fn members(&mut self) -> R<Vec<Member>> {
        self.expect_punct("{")?;
        let mut out = vec![];
        while !self.is_punct("}") {
            if self.at_eof() {
                return Err(self.err_here(ErrKind::Syntax, "unterminated member list"));
            }
            let mut readonly = false;
            if self.is_word("readonly") && !(self.is_punct_at(1, ":") || self.is_punct_at(1, "?") || self.is_punct_at(1, "(")) {
                self.bump();
                readonly = true;
            }
            if self.is_punct("[") {
                // index signature `[k: string]: T` (computed keys are not modelled)
                self.bump();
                let param = self.binding_ident("index parameter")?;
                if !self.is_punct(":") {
                    return Err(self.err_here(ErrKind::Unmodelled, "computed property name / mapped type"));
                }
                self.bump();
                let key_ty = self.ty()?;
                self.expect_punct("]")?;
                self.expect_punct(":")?;
                let ty = self.ty()?;
                out.push(Member::Index { param, key_ty, ty });
            } else if self.is_punct("(") || self.is_punct("<") {
                return Err(self.err_here(ErrKind::Unmodelled, "call signature"));
            } else {
                let key = self.property_key()?;
                let optional = self.eat_punct("?");
                if self.is_punct("(") || self.is_punct("<") {
                    self.type_params()?;
                    let params = self.params()?;
                    let ret = if self.eat_punct(":") { Some(self.ty()?) } else { None };
                    out.push(Member::Method { key, optional, params, ret });
                } else {
                    self.expect_punct(":")?;
                    let ty = self.ty()?;
                    out.push(Member::Prop { key, optional, readonly, ty });
                }
            }
            // separator: `;` `,` or a line break
            if self.eat_punct(";") || self.eat_punct(",") {
                continue;
            }
            if self.is_punct("}") || self.nl_before() {
                continue;
            }
            return Err(self.err_here(ErrKind::Syntax, "expected `;`, `,` or `}` after member"));
        }
        self.expect_punct("}")?;
        Ok(out)
    }

    // ---------------------------------------------------------------- types

    pub fn ty(&mut self) -> R<Type> {
        // function type?
        if self.is_punct("(") {
            let save = self.pos;
            if let Ok(f) = self.try_function_type() {
                return Ok(f);
            }
            self.pos = save;
        }
        if self.is_punct("<") {
            return Err(self.err_here(ErrKind::Unmodelled, "generic function type"));
        }
        if self.is_word("new") && self.is_punct_at(1, "(") {
            return Err(self.err_here(ErrKind::Unmodelled, "constructor type"));
        }
        let t = self.union_ty()?;
        if self.is_word("extends") && !self.nl_before() {
            return Err(self.err_here(ErrKind::Unmodelled, "conditional type"));
        }
        Ok(t)
    }

    fn try_function_type(&mut self) -> R<Type> {
        let params = self.params()?;
        self.expect_punct("=>")?;
        let ret = self.ty()?;
        Ok(Type::Func { params, ret: Box::new(ret) })
    }

    fn union_ty(&mut self) -> R<Type> {
        self.eat_punct("|");
        let first = self.inter_ty()?;
        if !self.is_punct("|") {
            return Ok(first);
        }
        let mut v = vec![first];
        while self.eat_punct("|") {
            v.push(self.inter_ty()?);
        }
        Ok(Type::Union(v))
    }

    fn inter_ty(&mut self) -> R<Type> {
        self.eat_punct("&");
        let first = self.postfix_ty()?;
        if !self.is_punct("&") {
            return Ok(first);
        }
        let mut v = vec![first];
        while self.eat_punct("&") {
            v.push(self.postfix_ty()?);
        }
        Ok(Type::Inter(v))
    }

    fn postfix_ty(&mut self) -> R<Type> {
        if self.is_word("keyof") && !self.is_punct_at(1, ".") {
            self.bump();
            let t = self.postfix_ty()?;
            return Ok(Type::Keyof(Box::new(t)));
        }
        if self.is_word("readonly") && (self.is_punct_at(1, "[") || matches!(self.peek_at(1), Tok::Ident(_))) {
            self.bump();
            return self.postfix_ty();
        }
        if self.is_word("infer") || self.is_word("unique") || self.is_word("asserts") {
            if matches!(self.peek_at(1), Tok::Ident(_)) {
                return Err(self.err_here(ErrKind::Unmodelled, "type operator"));
            }
        }
        let mut t = self.primary_ty()?;
        loop {
            if self.is_punct("[") && !self.nl_before() {
                self.bump();
                if self.eat_punct("]") {
                    t = Type::Array(Box::new(t));
                } else {
                    let idx = self.ty()?;
                    self.expect_punct("]")?;
                    t = Type::Indexed(Box::new(t), Box::new(idx));
                }
            } else {
                break;
            }
        }
        Ok(t)
    }

    fn entity_name(&mut self) -> R<Vec<String>> {
        let mut name = vec![self.ident_name()?];
        while self.is_punct(".") {
            self.bump();
            name.push(self.ident_name()?);
        }
        Ok(name)
    }

    fn type_ref_or_primary(&mut self) -> R<Type> {
        self.postfix_ty()
    }

    fn primary_ty(&mut self) -> R<Type> {
        match self.peek().clone() {
            Tok::Punct("(") => {
                self.bump();
                let t = self.ty()?;
                self.expect_punct(")")?;
                Ok(Type::Paren(Box::new(t)))
            }
            Tok::Punct("[") => {
                self.bump();
                let mut v = vec![];
                while !self.is_punct("]") {
                    if self.eat_punct("...") {
                        // rest element
                    }
                    // named tuple member `name: T` / `name?: T`
                    if matches!(self.peek(), Tok::Ident(_)) && (self.is_punct_at(1, ":") || (self.is_punct_at(1, "?") && self.is_punct_at(2, ":"))) {
                        self.bump();
                        self.eat_punct("?");
                        self.bump();
                    }
                    let t = self.ty()?;
                    self.eat_punct("?");
                    v.push(t);
                    if !self.eat_punct(",") {
                        break;
                    }
                }
                self.expect_punct("]")?;
                Ok(Type::Tuple(v))
            }
            Tok::Punct("{") => {
                let m = self.members()?;
                Ok(Type::Object(m))
            }
            Tok::Str(s) => {
                self.bump();
                Ok(Type::LitStr(s))
            }
            Tok::Num(s) => {
                self.bump();
                Ok(Type::LitNum(s))
            }
            Tok::Punct("-") if matches!(self.peek_at(1), Tok::Num(_)) => {
                self.bump();
                if let Tok::Num(s) = self.bump() {
                    Ok(Type::LitNum(format!("-{}", s)))
                } else {
                    unreachable!()
                }
            }
            Tok::Ident(w) => {
                match w.as_str() {
                    "true" => {
                        self.bump();
                        return Ok(Type::LitBool(true));
                    }
                    "false" => {
                        self.bump();
                        return Ok(Type::LitBool(false));
                    }
                    "typeof" => {
                        self.bump();
                        if self.is_word("import") {
                            return Err(self.err_here(ErrKind::Unmodelled, "typeof import"));
                        }
                        let n = self.entity_name()?;
                        return Ok(Type::Typeof(n));
                    }
                    "import" => return Err(self.err_here(ErrKind::Unmodelled, "import type")),
                    // `void`, `null`, `undefined`, `this` are keywords usable as types
                    "void" | "null" | "undefined" | "this" => {
                        self.bump();
                        return Ok(Type::Ref { name: vec![w], args: vec![] });
                    }
                    _ => {}
                }
                if is_reserved(&w) {
                    return Err(self.err_here(ErrKind::Syntax, "reserved word where a type was expected"));
                }
                let name = self.entity_name()?;
                let mut args = vec![];
                if self.is_punct("<") && !self.nl_before() {
                    self.bump();
                    loop {
                        args.push(self.ty()?);
                        if !self.eat_punct(",") {
                            break;
                        }
                    }
                    self.expect_punct(">")?;
                }
                Ok(Type::Ref { name, args })
            }
            _ => Err(self.err_here(ErrKind::Syntax, "expected a type")),
        }
    }

    // ---------------------------------------------------------------- statements

    fn block(&mut self) -> R<Vec<Stmt>> {
        self.expect_punct("{")?;
        let mut out = vec![];
        while !self.is_punct("}") {
            if self.at_eof() {
                return Err(self.err_here(ErrKind::Syntax, "unterminated block"));
            }
            out.push(self.stmt()?);
        }
        self.expect_punct("}")?;
        Ok(out)
    }

    fn stmt(&mut self) -> R<Stmt> {
        if self.eat_punct(";") {
            return Ok(Stmt::Empty);
        }
        if self.is_punct("{") {
            return Ok(Stmt::Block(self.block()?));
        }
        if let Tok::Ident(w) = self.peek().clone() {
            match w.as_str() {
                "const" | "let" | "var" if matches!(self.peek_at(1), Tok::Ident(_)) || self.is_punct_at(1, "{") || self.is_punct_at(1, "[") => {
                    self.bump();
                    if self.is_punct("{") || self.is_punct("[") {
                        return Err(self.err_here(ErrKind::Unmodelled, "destructuring declaration"));
                    }
                    let name = self.binding_ident("variable")?;
                    let ty = if self.eat_punct(":") { Some(self.ty()?) } else { None };
                    let init = if self.eat_punct("=") { Some(self.assign()?) } else { None };
                    if self.is_punct(",") {
                        return Err(self.err_here(ErrKind::Unmodelled, "multiple declarators"));
                    }
                    if w == "const" && init.is_none() {
                        return Err(self.err_here(ErrKind::Syntax, "const declaration without initialiser"));
                    }
                    self.semi()?;
                    return Ok(Stmt::Var { kind: w, name, ty, init });
                }
                "return" => {
                    self.bump();
                    if self.is_punct(";") || self.is_punct("}") || self.nl_before() || self.at_eof() {
                        self.semi()?;
                        return Ok(Stmt::Return(None));
                    }
                    let e = self.expr()?;
                    self.semi()?;
                    return Ok(Stmt::Return(Some(e)));
                }
                "throw" => {
                    self.bump();
                    if self.nl_before() {
                        return Err(self.err_here(ErrKind::Syntax, "line break after throw"));
                    }
                    let e = self.expr()?;
                    self.semi()?;
                    return Ok(Stmt::Throw(e));
                }
                "if" => {
                    self.bump();
                    self.expect_punct("(")?;
                    let cond = self.expr()?;
                    self.expect_punct(")")?;
                    let then = Box::new(self.stmt()?);
                    let els = if self.eat_word("else") { Some(Box::new(self.stmt()?)) } else { None };
                    return Ok(Stmt::If { cond, then, els });
                }
                "try" => {
                    self.bump();
                    let block = self.block()?;
                    let mut catch = None;
                    let mut finally = None;
                    if self.eat_word("catch") {
                        let mut binding = None;
                        if self.eat_punct("(") {
                            binding = Some(self.binding_ident("catch binding")?);
                            if self.eat_punct(":") {
                                self.ty()?;
                            }
                            self.expect_punct(")")?;
                        }
                        catch = Some((binding, self.block()?));
                    }
                    if self.eat_word("finally") {
                        finally = Some(self.block()?);
                    }
                    if catch.is_none() && finally.is_none() {
                        return Err(self.err_here(ErrKind::Syntax, "try without catch or finally"));
                    }
                    return Ok(Stmt::Try { block, catch, finally });
                }
                "for" | "while" | "do" | "switch" | "with" | "break" | "continue" | "debugger" | "class" | "enum" => {
                    return Err(self.err_here(ErrKind::Unmodelled, "statement kind outside the modelled subset"));
                }
                "function" => return Err(self.err_here(ErrKind::Unmodelled, "nested function declaration")),
                "async" if self.is_word_at(1, "function") => {
                    return Err(self.err_here(ErrKind::Unmodelled, "nested function declaration"));
                }
                "import" | "export" if !self.is_punct_at(1, "(") && !self.is_punct_at(1, ".") => {
                    return Err(self.err_here(ErrKind::Syntax, "import/export inside a block"));
                }
                _ => {}
            }
        }
        let e = self.expr()?;
        self.semi()?;
        Ok(Stmt::Expr(e))
    }

    // ---------------------------------------------------------------- expressions

    pub fn expr(&mut self) -> R<Expr> {
        let e = self.assign()?;
        if self.is_punct(",") {
            // comma operator: not emitted by anything we model
            return Ok(e);
        }
        Ok(e)
    }

    fn assign(&mut self) -> R<Expr> {
        // arrow functions
        if let Some(a) = self.try_arrow()? {
            return Ok(a);
        }
        let l = self.cond()?;
        const AOPS: &[&str] = &["=", "+=", "-=", "*=", "/=", "%=", "&=", "|=", "^=", "**=", "<<=", "&&=", "||=", "??="];
        if let Tok::Punct(p) = self.peek().clone() {
            if AOPS.contains(&p) {
                match strip_paren(&l) {
                    Expr::Ident(_) | Expr::Member { .. } | Expr::Index { .. } => {}
                    _ => return Err(self.err_here(ErrKind::Syntax, "invalid assignment target")),
                }
                self.bump();
                let r = self.assign()?;
                return Ok(Expr::Assign { op: p, l: Box::new(l), r: Box::new(r) });
            }
        }
        Ok(l)
    }

    fn try_arrow(&mut self) -> R<Option<Expr>> {
        let save = self.pos;
        let mut is_async = false;
        if self.is_word("async") && !self.toks[self.pos + 1].nl_before && (self.is_punct_at(1, "(") || matches!(self.peek_at(1), Tok::Ident(_))) {
            // `async (x) => ..` / `async x => ..`
            self.bump();
            is_async = true;
        }
        if let Tok::Ident(name) = self.peek().clone() {
            if self.is_punct_at(1, "=>") {
                if is_reserved(&name) {
                    return Err(self.err_here(ErrKind::Syntax, "reserved word used as parameter name"));
                }
                self.bump();
                self.bump();
                let body = self.arrow_body()?;
                return Ok(Some(Expr::Arrow { is_async, params: vec![Param { name, optional: false, rest: false, ty: None }], ret: None, body }));
            }
        }
        if self.is_punct("(") {
            // scan: parse params, optional return type, then `=>`
            let attempt = (|| -> R<(Vec<Param>, Option<Type>)> {
                let params = self.params()?;
                let ret = if self.eat_punct(":") { Some(self.ty()?) } else { None };
                if !self.is_punct("=>") {
                    return Err(self.err_here(ErrKind::Syntax, "not an arrow function"));
                }
                Ok((params, ret))
            })();
            match attempt {
                Ok((params, ret)) => {
                    self.bump(); // =>
                    let body = self.arrow_body()?;
                    return Ok(Some(Expr::Arrow { is_async, params, ret, body }));
                }
                Err(e) => {
                    if e.kind == ErrKind::Unmodelled && self.is_punct("=>") {
                        return Err(e);
                    }
                    self.pos = save;
                    return Ok(None);
                }
            }
        }
        self.pos = save;
        Ok(None)
    }

    fn arrow_body(&mut self) -> R<ArrowBody> {
        if self.is_punct("{") {
            Ok(ArrowBody::Block(self.block()?))
        } else {
            Ok(ArrowBody::Expr(Box::new(self.assign()?)))
        }
    }

    fn cond(&mut self) -> R<Expr> {
        let c = self.binary(0)?;
        if self.is_punct("?") {
            self.bump();
            let t = self.assign()?;
            self.expect_punct(":")?;
            let e = self.assign()?;
            return Ok(Expr::Cond { c: Box::new(c), t: Box::new(t), e: Box::new(e) });
        }
        Ok(c)
    }

    fn bin_op(&self) -> Option<(&'static str, u8)> {
        match self.peek() {
            Tok::Punct(p) => {
                let prec = match *p {
                    "??" => 1,
                    "||" => 2,
                    "&&" => 3,
                    "|" => 4,
                    "^" => 5,
                    "&" => 6,
                    "==" | "!=" | "===" | "!==" => 7,
                    "<" | ">" | "<=" | ">=" => 8,
                    "<<" => 9,
                    "+" | "-" => 10,
                    "*" | "/" | "%" => 11,
                    "**" => 12,
                    _ => return None,
                };
                Some((p, prec))
            }
            Tok::Ident(w) if w == "instanceof" => Some(("instanceof", 8)),
            Tok::Ident(w) if w == "in" => Some(("in", 8)),
            _ => None,
        }
    }

    fn binary(&mut self, min_prec: u8) -> R<Expr> {
        let mut l = self.unary()?;
        loop {
            // `as` / `satisfies`
            if self.is_word("as") && !self.nl_before() {
                self.bump();
                let t = if self.eat_word("const") { Type::Ref { name: vec!["const".into()], args: vec![] } } else { self.ty()? };
                l = Expr::As(Box::new(l), t);
                continue;
            }
            if self.is_word("satisfies") && !self.nl_before() {
                return Err(self.err_here(ErrKind::Unmodelled, "satisfies operator"));
            }
            let Some((op, prec)) = self.bin_op() else { break };
            if prec < min_prec {
                break;
            }
            self.bump();
            let r = self.binary(prec + 1)?;
            l = Expr::Binary { op, l: Box::new(l), r: Box::new(r) };
        }
        Ok(l)
    }

    fn unary(&mut self) -> R<Expr> {
        match self.peek().clone() {
            Tok::Punct(p @ ("!" | "-" | "+" | "~" | "++" | "--")) => {
                self.bump();
                let e = self.unary()?;
                Ok(Expr::Unary { op: p, expr: Box::new(e) })
            }
            Tok::Ident(w) if w == "typeof" || w == "void" || w == "delete" => {
                self.bump();
                let e = self.unary()?;
                let op = match w.as_str() {
                    "typeof" => "typeof",
                    "void" => "void",
                    _ => "delete",
                };
                Ok(Expr::Unary { op, expr: Box::new(e) })
            }
            Tok::Ident(w) if w == "await" => {
                self.bump();
                let e = self.unary()?;
                Ok(Expr::Await(Box::new(e)))
            }
            Tok::Punct("<") => Err(self.err_here(ErrKind::Unmodelled, "type assertion / JSX")),
            _ => self.postfix(),
        }
    }

    fn args(&mut self) -> R<Vec<Expr>> {
        self.expect_punct("(")?;
        let mut out = vec![];
        while !self.is_punct(")") {
            if self.eat_punct("...") {
                let e = self.assign()?;
                out.push(Expr::Spread(Box::new(e)));
            } else {
                out.push(self.assign()?);
            }
            if !self.eat_punct(",") {
                break;
            }
        }
        self.expect_punct(")")?;
        Ok(out)
    }

    fn try_type_args_call(&mut self) -> Option<Vec<Type>> {
        // at `<`: type arguments followed by `(`
        let save = self.pos;
        let r = (|| -> R<Vec<Type>> {
            self.expect_punct("<")?;
            let mut v = vec![];
            loop {
                v.push(self.ty()?);
                if !self.eat_punct(",") {
                    break;
                }
            }
            self.expect_punct(">")?;
            if !self.is_punct("(") {
                return Err(self.err_here(ErrKind::Syntax, "no call after type arguments"));
            }
            Ok(v)
        })();
        match r {
            Ok(v) => Some(v),
            Err(_) => {
                self.pos = save;
                None
            }
        }
    }

    fn postfix(&mut self) -> R<Expr> {
        let mut e = self.primary()?;
        loop {
            match self.peek().clone() {
                Tok::Punct(".") => {
                    self.bump();
                    let prop = self.ident_name()?;
                    e = Expr::Member { obj: Box::new(e), prop, optional: false };
                }
                Tok::Punct("?.") => {
                    self.bump();
                    if self.is_punct("(") {
                        let args = self.args()?;
                        e = Expr::Call { callee: Box::new(e), type_args: vec![], args, optional: true };
                    } else if self.eat_punct("[") {
                        let idx = self.expr()?;
                        self.expect_punct("]")?;
                        e = Expr::Index { obj: Box::new(e), index: Box::new(idx), optional: true };
                    } else {
                        let prop = self.ident_name()?;
                        e = Expr::Member { obj: Box::new(e), prop, optional: true };
                    }
                }
                Tok::Punct("[") if !self.nl_before() => {
                    self.bump();
                    let idx = self.expr()?;
                    self.expect_punct("]")?;
                    e = Expr::Index { obj: Box::new(e), index: Box::new(idx), optional: false };
                }
                Tok::Punct("(") => {
                    let args = self.args()?;
                    e = Expr::Call { callee: Box::new(e), type_args: vec![], args, optional: false };
                }
                Tok::Punct("<") => {
                    if let Some(type_args) = self.try_type_args_call() {
                        let args = self.args()?;
                        e = Expr::Call { callee: Box::new(e), type_args, args, optional: false };
                    } else {
                        break;
                    }
                }
                Tok::Punct("!") if !self.nl_before() && !self.is_punct_at(1, "=") => {
                    self.bump();
                    e = Expr::NonNull(Box::new(e));
                }
                Tok::Punct("++") | Tok::Punct("--") if !self.nl_before() => {
                    self.bump();
                }
                _ => break,
            }
        }
        Ok(e)
    }

    fn primary(&mut self) -> R<Expr> {
        match self.peek().clone() {
            Tok::Str(s) => {
                self.bump();
                Ok(Expr::Str(s))
            }
            Tok::Num(s) => {
                self.bump();
                Ok(Expr::Num(s))
            }
            Tok::Punct("(") => {
                self.bump();
                let e = self.expr()?;
                self.expect_punct(")")?;
                Ok(Expr::Paren(Box::new(e)))
            }
            Tok::Punct("[") => {
                self.bump();
                let mut v = vec![];
                while !self.is_punct("]") {
                    if self.is_punct(",") {
                        self.bump();
                        continue;
                    }
                    if self.eat_punct("...") {
                        let e = self.assign()?;
                        v.push(Expr::Spread(Box::new(e)));
                    } else {
                        v.push(self.assign()?);
                    }
                    if !self.eat_punct(",") {
                        break;
                    }
                }
                self.expect_punct("]")?;
                Ok(Expr::Array(v))
            }
            Tok::Punct("{") => self.object_lit(),
            Tok::Punct("/") | Tok::Punct("/=") => Err(self.err_here(ErrKind::Unmodelled, "regular expression literal")),
            Tok::Ident(w) => {
                match w.as_str() {
                    "true" => {
                        self.bump();
                        return Ok(Expr::Bool(true));
                    }
                    "false" => {
                        self.bump();
                        return Ok(Expr::Bool(false));
                    }
                    "null" => {
                        self.bump();
                        return Ok(Expr::Null);
                    }
                    "this" | "super" => {
                        self.bump();
                        return Ok(Expr::Ident(w));
                    }
                    "new" => {
                        self.bump();
                        let mut callee = Expr::Ident(self.binding_ident("constructor")?);
                        while self.eat_punct(".") {
                            let prop = self.ident_name()?;
                            callee = Expr::Member { obj: Box::new(callee), prop, optional: false };
                        }
                        let type_args = if self.is_punct("<") { self.try_type_args_call().unwrap_or_default() } else { vec![] };
                        let args = if self.is_punct("(") { self.args()? } else { vec![] };
                        return Ok(Expr::New { callee: Box::new(callee), type_args, args });
                    }
                    "function" | "class" => return Err(self.err_here(ErrKind::Unmodelled, "function/class expression")),
                    "import" => {
                        self.bump();
                        return Ok(Expr::Ident("import".into()));
                    }
                    _ => {}
                }
                if is_reserved(&w) {
                    return Err(self.err_here(ErrKind::Syntax, "reserved word where an expression was expected"));
                }
                self.bump();
                Ok(Expr::Ident(w))
            }
            _ => Err(self.err_here(ErrKind::Syntax, "expected an expression")),
        }
    }

    fn object_lit(&mut self) -> R<Expr> {
        self.expect_punct("{")?;
        let mut props = vec![];
        while !self.is_punct("}") {
            if self.at_eof() {
                return Err(self.err_here(ErrKind::Syntax, "unterminated object literal"));
            }
            if self.eat_punct("...") {
                let e = self.assign()?;
                props.push(Prop::Spread(e));
            } else if self.is_punct("[") {
                self.bump();
                self.assign()?;
                self.expect_punct("]")?;
                self.expect_punct(":")?;
                let v = self.assign()?;
                props.push(Prop::KeyValue(Key::Computed, v));
            } else {
                let key = self.property_key()?;
                if self.eat_punct(":") {
                    let v = self.assign()?;
                    props.push(Prop::KeyValue(key, v));
                } else if self.is_punct("(") {
                    return Err(self.err_here(ErrKind::Unmodelled, "method in object literal"));
                } else {
                    // shorthand: must be an identifier reference
                    match key {
                        Key::Ident(n) => {
                            if is_reserved(&n) {
                                self.pos -= 1;
                                let e = self.err_here(ErrKind::Syntax, "reserved word as shorthand property");
                                self.pos += 1;
                                return Err(e);
                            }
                            if !(self.is_punct(",") || self.is_punct("}")) {
                                return Err(self.err_here(ErrKind::Syntax, "expected `:`, `,` or `}` after property name"));
                            }
                            props.push(Prop::Shorthand(n));
                        }
                        _ => return Err(self.err_here(ErrKind::Syntax, "expected `:` after property name")),
                    }
                }
            }
            if !self.eat_punct(",") {
                break;
            }
        }
        self.expect_punct("}")?;
        Ok(Expr::Object(props))
    }
}

pub fn strip_paren(e: &Expr) -> &Expr {
    match e {
        Expr::Paren(i) => strip_paren(i),
        Expr::NonNull(i) => strip_paren(i),
        other => other,
    }
}
