pub mod ast;
pub mod lex;
pub mod parse;
pub mod resolve;
pub mod shape;
