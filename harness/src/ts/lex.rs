//! Lexer for the TypeScript subset (see DESIGN.md §2.4 and Appendix A).

#[derive(Clone, Debug, PartialEq, Eq)]
pub enum ErrKind {
    /// input that cannot continue any production of the grammar: a C01 violation
    Syntax,
    /// recognisable TypeScript that the harness does not model: inconclusive (exit 2)
    Unmodelled,
}

#[derive(Clone, Debug)]
pub struct TsError {
    pub kind: ErrKind,
    pub msg: String,
    pub line: usize,
    pub col: usize,
}

impl std::fmt::Display for TsError {
    fn fmt(&self, f: &mut std::fmt::Formatter<'_>) -> std::fmt::Result {
        write!(f, "{}:{}: {}", self.line, self.col, self.msg)
    }
}

#[derive(Clone, Debug, PartialEq)]
pub enum Tok {
    Ident(String),
    /// decoded value
    Str(String),
    Num(String),
    Punct(&'static str),
    Eof,
}

#[derive(Clone, Debug)]
pub struct Token {
    pub tok: Tok,
    pub line: usize,
    pub col: usize,
    /// a line terminator occurs between the previous token and this one
    pub nl_before: bool,
    /// byte offset of the token start in the source
    pub off: usize,
}

const PUNCTS: &[&str] = &[
    "...", "===", "!==", "**=", "<<=", "&&=", "||=", "??=", "=>", "==", "!=", "<=", ">=", "&&", "||",
    "??", "?.", "++", "--", "+=", "-=", "*=", "/=", "%=", "&=", "|=", "^=", "**", "<<", "{", "}", "(",
    ")", "[", "]", ";", ",", "<", ">", "+", "-", "*", "/", "%", "&", "|", "^", "!", "~", "?", ":", "=",
    ".", "@", "#", "`",
];

pub fn is_id_start(c: char) -> bool {
    c == '_' || c == '$' || c.is_alphabetic()
}
pub fn is_id_continue(c: char) -> bool {
    c == '_' || c == '$' || c.is_alphanumeric() || c == '\u{200c}' || c == '\u{200d}'
}

pub fn is_identifier_name(s: &str) -> bool {
    let mut it = s.chars();
    match it.next() {
        Some(c) if is_id_start(c) => {}
        _ => return false,
    }
    it.all(is_id_continue)
}

pub fn lex(src: &str) -> Result<Vec<Token>, TsError> {
    let cs: Vec<(usize, char)> = src.char_indices().collect();
    let n = cs.len();
    let mut i = 0;
    let mut line = 1usize;
    let mut col = 1usize;
    let mut nl = false;
    let mut out = Vec::new();
    macro_rules! err {
        ($k:expr, $($a:tt)*) => {
            return Err(TsError { kind: $k, msg: format!($($a)*), line, col })
        };
    }
    while i < n {
        let (off, c) = cs[i];
        // whitespace
        if c == '\n' || c == '\u{2028}' || c == '\u{2029}' {
            nl = true;
            line += 1;
            col = 1;
            i += 1;
            continue;
        }
        if c == '\r' {
            nl = true;
            i += 1;
            continue;
        }
        if c == ' ' || c == '\t' || c == '\u{feff}' || c == '\u{a0}' || c == '\u{b}' || c == '\u{c}' || (c.is_whitespace()) {
            i += 1;
            col += 1;
            continue;
        }
        // comments
        if c == '/' && i + 1 < n && cs[i + 1].1 == '/' {
            while i < n && cs[i].1 != '\n' {
                i += 1;
            }
            continue;
        }
        if c == '/' && i + 1 < n && cs[i + 1].1 == '*' {
            let (sl, sc) = (line, col);
            i += 2;
            col += 2;
            let mut closed = false;
            while i < n {
                if cs[i].1 == '*' && i + 1 < n && cs[i + 1].1 == '/' {
                    i += 2;
                    col += 2;
                    closed = true;
                    break;
                }
                if cs[i].1 == '\n' {
                    line += 1;
                    col = 1;
                    nl = true;
                } else {
                    col += 1;
                }
                i += 1;
            }
            if !closed {
                return Err(TsError { kind: ErrKind::Syntax, msg: "unterminated block comment".into(), line: sl, col: sc });
            }
            continue;
        }
        let (tl, tc) = (line, col);
        // identifiers
        if is_id_start(c) {
            let s = i;
            while i < n && is_id_continue(cs[i].1) {
                i += 1;
            }
            let text: String = cs[s..i].iter().map(|x| x.1).collect();
            col += i - s;
            out.push(Token { tok: Tok::Ident(text), line: tl, col: tc, nl_before: nl, off });
            nl = false;
            continue;
        }
        // numbers
        if c.is_ascii_digit() || (c == '.' && i + 1 < n && cs[i + 1].1.is_ascii_digit()) {
            let s = i;
            if c == '0' && i + 1 < n && matches!(cs[i + 1].1, 'x' | 'X' | 'b' | 'B' | 'o' | 'O') {
                i += 2;
                while i < n && (cs[i].1.is_ascii_alphanumeric() || cs[i].1 == '_') {
                    i += 1;
                }
            } else {
                while i < n && (cs[i].1.is_ascii_digit() || cs[i].1 == '_') {
                    i += 1;
                }
                if i < n && cs[i].1 == '.' {
                    i += 1;
                    while i < n && (cs[i].1.is_ascii_digit() || cs[i].1 == '_') {
                        i += 1;
                    }
                }
                if i < n && (cs[i].1 == 'e' || cs[i].1 == 'E') {
                    let save = i;
                    i += 1;
                    if i < n && (cs[i].1 == '+' || cs[i].1 == '-') {
                        i += 1;
                    }
                    if i < n && cs[i].1.is_ascii_digit() {
                        while i < n && cs[i].1.is_ascii_digit() {
                            i += 1;
                        }
                    } else {
                        i = save;
                        col += i - s;
                        err!(ErrKind::Syntax, "malformed exponent in numeric literal");
                    }
                }
                if i < n && cs[i].1 == 'n' {
                    i += 1;
                }
            }
            let text: String = cs[s..i].iter().map(|x| x.1).collect();
            col += i - s;
            // an identifier start directly after a numeric literal is a syntax error (`1abc`)
            if i < n && is_id_start(cs[i].1) {
                err!(ErrKind::Syntax, "identifier directly after numeric literal `{}`", text);
            }
            out.push(Token { tok: Tok::Num(text), line: tl, col: tc, nl_before: nl, off });
            nl = false;
            continue;
        }
        // strings
        if c == '"' || c == '\'' {
            let q = c;
            i += 1;
            col += 1;
            let mut val = String::new();
            let mut closed = false;
            while i < n {
                let ch = cs[i].1;
                if ch == q {
                    i += 1;
                    col += 1;
                    closed = true;
                    break;
                }
                if ch == '\n' || ch == '\r' {
                    break;
                }
                if ch == '\\' {
                    i += 1;
                    col += 1;
                    if i >= n {
                        break;
                    }
                    let e = cs[i].1;
                    i += 1;
                    col += 1;
                    match e {
                        'n' => val.push('\n'),
                        'r' => val.push('\r'),
                        't' => val.push('\t'),
                        'b' => val.push('\u{8}'),
                        'f' => val.push('\u{c}'),
                        'v' => val.push('\u{b}'),
                        '0' if !(i < n && cs[i].1.is_ascii_digit()) => val.push('\0'),
                        '0'..='9' => err!(ErrKind::Syntax, "octal / decimal escape sequence in string literal"),
                        'x' => {
                            let mut v = 0u32;
                            for _ in 0..2 {
                                if i < n && cs[i].1.is_ascii_hexdigit() {
                                    v = v * 16 + cs[i].1.to_digit(16).unwrap();
                                    i += 1;
                                    col += 1;
                                } else {
                                    err!(ErrKind::Syntax, "malformed \\x escape");
                                }
                            }
                            val.push(char::from_u32(v).unwrap());
                        }
                        'u' => {
                            let mut v = 0u32;
                            if i < n && cs[i].1 == '{' {
                                i += 1;
                                col += 1;
                                let mut digits = 0;
                                while i < n && cs[i].1.is_ascii_hexdigit() {
                                    v = v.saturating_mul(16).saturating_add(cs[i].1.to_digit(16).unwrap());
                                    i += 1;
                                    col += 1;
                                    digits += 1;
                                }
                                if digits == 0 || i >= n || cs[i].1 != '}' || v > 0x10ffff {
                                    err!(ErrKind::Syntax, "malformed \\u{{}} escape");
                                }
                                i += 1;
                                col += 1;
                            } else {
                                for _ in 0..4 {
                                    if i < n && cs[i].1.is_ascii_hexdigit() {
                                        v = v * 16 + cs[i].1.to_digit(16).unwrap();
                                        i += 1;
                                        col += 1;
                                    } else {
                                        err!(ErrKind::Syntax, "malformed \\u escape");
                                    }
                                }
                            }
                            // lone surrogates are representable in JS strings; keep a marker
                            val.push(char::from_u32(v).unwrap_or('\u{fffd}'));
                        }
                        '\n' => {
                            line += 1;
                            col = 1;
                        }
                        '\r' => {
                            if i < n && cs[i].1 == '\n' {
                                i += 1;
                            }
                            line += 1;
                            col = 1;
                        }
                        other => val.push(other),
                    }
                    continue;
                }
                val.push(ch);
                i += 1;
                col += 1;
            }
            if !closed {
                return Err(TsError { kind: ErrKind::Syntax, msg: "unterminated string literal".into(), line: tl, col: tc });
            }
            out.push(Token { tok: Tok::Str(val), line: tl, col: tc, nl_before: nl, off });
            nl = false;
            continue;
        }
        // punctuation
        let mut matched = None;
        for p in PUNCTS {
            let pl = p.chars().count();
            if i + pl <= n && cs[i..i + pl].iter().map(|x| x.1).eq(p.chars()) {
                matched = Some(*p);
                break;
            }
        }
        match matched {
            Some("`") => err!(ErrKind::Unmodelled, "template literal"),
            Some("@") => err!(ErrKind::Unmodelled, "decorator"),
            Some("#") => err!(ErrKind::Syntax, "unexpected character '#'"),
            Some(p) => {
                let pl = p.chars().count();
                i += pl;
                col += pl;
                out.push(Token { tok: Tok::Punct(p), line: tl, col: tc, nl_before: nl, off });
                nl = false;
            }
            None => err!(ErrKind::Syntax, "unexpected character {:?}", c),
        }
    }
    out.push(Token { tok: Tok::Eof, line, col, nl_before: nl, off: src.len() });
    Ok(out)
}

/// words that can never be used as a binding identifier in a (strict-mode) module
pub const RESERVED: &[&str] = &[
    "break", "case", "catch", "class", "const", "continue", "debugger", "default", "delete", "do", "else",
    "enum", "export", "extends", "false", "finally", "for", "function", "if", "import", "in", "instanceof",
    "new", "null", "return", "super", "switch", "this", "throw", "true", "try", "typeof", "var", "void",
    "while", "with", "implements", "interface", "let", "package", "private", "protected", "public", "static",
    "yield", "await",
];

/// names TypeScript refuses as the name of a type declaration (in addition to RESERVED)
pub const PREDEFINED_TYPE_NAMES: &[&str] = &[
    "any", "unknown", "never", "number", "bigint", "boolean", "string", "symbol", "void", "object", "undefined",
    "null",
];

pub fn is_reserved(s: &str) -> bool {
    RESERVED.contains(&s)
}
