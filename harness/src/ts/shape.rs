//! Shape algebra: normal form of TypeScript type expressions (DESIGN.md §2.4).

use super::ast::{Key, Member, Type};
use std::collections::{BTreeMap, BTreeSet};

#[derive(Clone, Debug, PartialEq, Eq, PartialOrd, Ord, Hash)]
pub enum Shape {
    Str,
    Num,
    Bool,
    Void,
    Null,
    Undefined,
    Unknown,
    Any,
    Never,
    Lit(String),
    NumLit(String),
    BoolLit(bool),
    /// reference to a declared type (namespace prefix `types.` removed)
    Ref(String),
    Array(Box<Shape>),
    Tuple(Vec<Shape>),
    Record(Box<Shape>, Box<Shape>),
    Obj(BTreeMap<String, (bool, Shape)>),
    Union(BTreeSet<Shape>),
    Inter(Vec<Shape>),
    /// JS Set<T> / Map<K,V>: not JSON
    JsSet(Box<Shape>),
    JsMap(Box<Shape>, Box<Shape>),
    /// anything else, kept as text
    Other(String),
}

impl Shape {
    pub fn union(parts: impl IntoIterator<Item = Shape>) -> Shape {
        let mut set = BTreeSet::new();
        for p in parts {
            match p {
                Shape::Union(inner) => set.extend(inner),
                other => {
                    set.insert(other);
                }
            }
        }
        if set.len() == 1 {
            set.into_iter().next().unwrap()
        } else {
            Shape::Union(set)
        }
    }
    pub fn nullable(inner: Shape) -> Shape {
        Shape::union([inner, Shape::Null])
    }
    pub fn arr(inner: Shape) -> Shape {
        Shape::Array(Box::new(inner))
    }
    pub fn rec(k: Shape, v: Shape) -> Shape {
        Shape::Record(Box::new(k), Box::new(v))
    }
    /// remove `undefined` from every union (used where "may additionally admit undefined" is allowed)
    pub fn without_undefined(&self) -> Shape {
        match self {
            Shape::Union(s) => Shape::union(s.iter().filter(|x| **x != Shape::Undefined).map(|x| x.without_undefined())),
            Shape::Array(i) => Shape::arr(i.without_undefined()),
            Shape::Tuple(v) => Shape::Tuple(v.iter().map(|x| x.without_undefined()).collect()),
            Shape::Record(k, v) => Shape::rec(k.without_undefined(), v.without_undefined()),
            Shape::Obj(m) => Shape::Obj(m.iter().map(|(k, (o, s))| (k.clone(), (*o, s.without_undefined()))).collect()),
            other => other.clone(),
        }
    }
    pub fn refs(&self, out: &mut BTreeSet<String>) {
        match self {
            Shape::Ref(n) => {
                out.insert(n.clone());
            }
            Shape::Array(i) | Shape::JsSet(i) => i.refs(out),
            Shape::Tuple(v) | Shape::Inter(v) => v.iter().for_each(|x| x.refs(out)),
            Shape::Record(k, v) | Shape::JsMap(k, v) => {
                k.refs(out);
                v.refs(out);
            }
            Shape::Obj(m) => m.values().for_each(|(_, s)| s.refs(out)),
            Shape::Union(s) => s.iter().for_each(|x| x.refs(out)),
            _ => {}
        }
    }
}

impl std::fmt::Display for Shape {
    fn fmt(&self, f: &mut std::fmt::Formatter<'_>) -> std::fmt::Result {
        match self {
            Shape::Str => write!(f, "Str"),
            Shape::Num => write!(f, "Num"),
            Shape::Bool => write!(f, "Bool"),
            Shape::Void => write!(f, "Void"),
            Shape::Null => write!(f, "Null"),
            Shape::Undefined => write!(f, "Undefined"),
            Shape::Unknown => write!(f, "Unknown"),
            Shape::Any => write!(f, "Any"),
            Shape::Never => write!(f, "Never"),
            Shape::Lit(s) => write!(f, "Lit({:?})", s),
            Shape::NumLit(s) => write!(f, "NumLit({})", s),
            Shape::BoolLit(b) => write!(f, "BoolLit({})", b),
            Shape::Ref(n) => write!(f, "Ref({})", n),
            Shape::Array(i) => write!(f, "Array({})", i),
            Shape::JsSet(i) => write!(f, "JsSet({})", i),
            Shape::Tuple(v) => {
                write!(f, "Tuple[")?;
                for (i, x) in v.iter().enumerate() {
                    if i > 0 {
                        write!(f, ", ")?;
                    }
                    write!(f, "{}", x)?;
                }
                write!(f, "]")
            }
            Shape::Inter(v) => {
                write!(f, "Inter[")?;
                for (i, x) in v.iter().enumerate() {
                    if i > 0 {
                        write!(f, " & ")?;
                    }
                    write!(f, "{}", x)?;
                }
                write!(f, "]")
            }
            Shape::Record(k, v) => write!(f, "Record({}, {})", k, v),
            Shape::JsMap(k, v) => write!(f, "JsMap({}, {})", k, v),
            Shape::Obj(m) => {
                write!(f, "Obj{{")?;
                for (i, (k, (o, s))) in m.iter().enumerate() {
                    if i > 0 {
                        write!(f, ", ")?;
                    }
                    write!(f, "{:?}{}: {}", k, if *o { "?" } else { "" }, s)?;
                }
                write!(f, "}}")
            }
            Shape::Union(s) => {
                write!(f, "Union{{")?;
                for (i, x) in s.iter().enumerate() {
                    if i > 0 {
                        write!(f, " | ")?;
                    }
                    write!(f, "{}", x)?;
                }
                write!(f, "}}")
            }
            Shape::Other(s) => write!(f, "Other({})", s),
        }
    }
}

pub fn members_to_obj(members: &[Member]) -> BTreeMap<String, (bool, Shape)> {
    let mut m = BTreeMap::new();
    for mem in members {
        match mem {
            Member::Prop { key, optional, ty, .. } => {
                m.insert(key.name(), (*optional, normalise(ty)));
            }
            Member::Index { .. } => {}
            Member::Method { key, optional, .. } => {
                m.insert(key.name(), (*optional, Shape::Other("method".into())));
            }
        }
    }
    m
}

pub fn key_is_quoted(k: &Key) -> bool {
    matches!(k, Key::Str(_))
}

/// Normal form of a type AST.
pub fn normalise(t: &Type) -> Shape {
    match t {
        Type::Paren(i) => normalise(i),
        Type::Array(i) => Shape::arr(normalise(i)),
        Type::Tuple(v) => Shape::Tuple(v.iter().map(normalise).collect()),
        Type::Union(v) => Shape::union(v.iter().map(normalise)),
        Type::Inter(v) => Shape::Inter(v.iter().map(normalise).collect()),
        Type::LitStr(s) => Shape::Lit(s.clone()),
        Type::LitNum(s) => Shape::NumLit(s.clone()),
        Type::LitBool(b) => Shape::BoolLit(*b),
        Type::Object(m) => Shape::Obj(members_to_obj(m)),
        Type::Func { .. } => Shape::Other("function".into()),
        Type::Typeof(n) => Shape::Other(format!("typeof {}", n.join("."))),
        Type::Keyof(_) => Shape::Other("keyof".into()),
        Type::Indexed(..) => Shape::Other("indexed".into()),
        Type::Ref { name, args } => {
            let mut name = name.clone();
            if name.len() == 2 && name[0] == "types" {
                name.remove(0);
            }
            if name.len() == 1 {
                let n = name[0].as_str();
                match (n, args.len()) {
                    ("string", 0) => return Shape::Str,
                    ("number", 0) => return Shape::Num,
                    ("boolean", 0) => return Shape::Bool,
                    ("void", 0) => return Shape::Void,
                    ("null", 0) => return Shape::Null,
                    ("undefined", 0) => return Shape::Undefined,
                    ("unknown", 0) => return Shape::Unknown,
                    ("any", 0) => return Shape::Any,
                    ("never", 0) => return Shape::Never,
                    ("Array", 1) | ("ReadonlyArray", 1) => return Shape::arr(normalise(&args[0])),
                    ("Record", 2) => return Shape::rec(normalise(&args[0]), normalise(&args[1])),
                    ("Set", 1) => return Shape::JsSet(Box::new(normalise(&args[0]))),
                    ("Map", 2) => return Shape::JsMap(Box::new(normalise(&args[0])), Box::new(normalise(&args[1]))),
                    (_, 0) => return Shape::Ref(n.to_string()),
                    _ => {}
                }
            }
            let a: Vec<String> = args.iter().map(|x| format!("{}", normalise(x))).collect();
            Shape::Other(format!("{}<{}>", name.join("."), a.join(", ")))
        }
    }
}
