//! Name resolution over parsed modules: which names does a module reference, in which space.

use super::ast::*;
use std::collections::BTreeSet;

#[derive(Clone, Debug, PartialEq, Eq, PartialOrd, Ord)]
pub struct NameRef {
    /// `["types", "User"]`, `["User"]`, `["z", "infer"]`
    pub path: Vec<String>,
    /// true = referenced as a type, false = as a value
    pub type_space: bool,
    /// declaration (top-level item name) in which the reference occurs
    pub in_decl: String,
    /// enclosing type constructors, outermost first (`Promise>Record`, `Array>Union`)
    pub ctx: String,
}

pub struct Scope {
    stack: Vec<BTreeSet<String>>,
}

impl Scope {
    fn new() -> Self {
        Scope { stack: vec![BTreeSet::new()] }
    }
    fn push(&mut self) {
        self.stack.push(BTreeSet::new());
    }
    fn pop(&mut self) {
        self.stack.pop();
    }
    fn declare(&mut self, n: &str) {
        self.stack.last_mut().unwrap().insert(n.to_string());
    }
    fn has(&self, n: &str) -> bool {
        self.stack.iter().any(|s| s.contains(n))
    }
}

pub struct Collector {
    pub refs: Vec<NameRef>,
    decl: String,
    type_params: BTreeSet<String>,
    ctx: Vec<String>,
}

impl Collector {
    fn type_ref(&mut self, path: &[String]) {
        if path.len() == 1 && self.type_params.contains(&path[0]) {
            return;
        }
        self.refs.push(NameRef { path: path.to_vec(), type_space: true, in_decl: self.decl.clone(), ctx: self.ctx.join(">") });
    }
    fn value_ref(&mut self, path: Vec<String>) {
        self.refs.push(NameRef { path, type_space: false, in_decl: self.decl.clone(), ctx: self.ctx.join(">") });
    }

    pub fn ty(&mut self, t: &Type) {
        match t {
            Type::Ref { name, args } => {
                self.type_ref(name);
                self.ctx.push(name.join("."));
                args.iter().for_each(|a| self.ty(a));
                self.ctx.pop();
            }
            Type::Array(i) => {
                self.ctx.push("Array".into());
                self.ty(i);
                self.ctx.pop();
            }
            Type::Paren(i) | Type::Keyof(i) => self.ty(i),
            Type::Tuple(v) => {
                self.ctx.push("Tuple".into());
                v.iter().for_each(|x| self.ty(x));
                self.ctx.pop();
            }
            Type::Union(v) | Type::Inter(v) => {
                self.ctx.push("Union".into());
                v.iter().for_each(|x| self.ty(x));
                self.ctx.pop();
            }
            Type::Object(m) => self.members(m),
            Type::Func { params, ret } => {
                for p in params {
                    if let Some(t) = &p.ty {
                        self.ty(t);
                    }
                }
                self.ty(ret);
            }
            Type::Typeof(n) => self.value_ref(n.clone()),
            Type::Indexed(a, b) => {
                self.ty(a);
                self.ty(b);
            }
            Type::LitStr(_) | Type::LitNum(_) | Type::LitBool(_) => {}
        }
    }

    fn members(&mut self, m: &[Member]) {
        for mem in m {
            match mem {
                Member::Prop { ty, .. } => self.ty(ty),
                Member::Index { key_ty, ty, .. } => {
                    self.ty(key_ty);
                    self.ty(ty);
                }
                Member::Method { params, ret, .. } => {
                    for p in params {
                        if let Some(t) = &p.ty {
                            self.ty(t);
                        }
                    }
                    if let Some(r) = ret {
                        self.ty(r);
                    }
                }
            }
        }
    }

    fn member_path(e: &Expr) -> Option<Vec<String>> {
        match e {
            Expr::Ident(n) => Some(vec![n.clone()]),
            Expr::Member { obj, prop, .. } => {
                let mut p = Self::member_path(obj)?;
                p.push(prop.clone());
                Some(p)
            }
            Expr::Paren(i) | Expr::NonNull(i) => Self::member_path(i),
            _ => None,
        }
    }

    pub fn expr(&mut self, e: &Expr, sc: &mut Scope) {
        match e {
            Expr::Ident(n) => {
                if !sc.has(n) {
                    self.value_ref(vec![n.clone()]);
                }
            }
            Expr::Member { obj, .. } => {
                // record `ns.name` paths whose root is free; otherwise just resolve the object
                if let Some(path) = Self::member_path(e) {
                    if !sc.has(&path[0]) {
                        // only the first two segments matter for namespace imports
                        self.value_ref(path.into_iter().take(2).collect());
                        return;
                    }
                    return;
                }
                self.expr(obj, sc);
            }
            Expr::Index { obj, index, .. } => {
                self.expr(obj, sc);
                self.expr(index, sc);
            }
            Expr::Call { callee, type_args, args, .. } | Expr::New { callee, type_args, args } => {
                self.expr(callee, sc);
                type_args.iter().for_each(|t| self.ty(t));
                args.iter().for_each(|a| self.expr(a, sc));
            }
            Expr::Object(props) => {
                for p in props {
                    match p {
                        Prop::KeyValue(_, v) => self.expr(v, sc),
                        Prop::Spread(v) => self.expr(v, sc),
                        Prop::Shorthand(n) => {
                            if !sc.has(n) {
                                self.value_ref(vec![n.clone()]);
                            }
                        }
                    }
                }
            }
            Expr::Array(v) => v.iter().for_each(|x| self.expr(x, sc)),
            Expr::Arrow { params, ret, body, .. } => {
                sc.push();
                for p in params {
                    sc.declare(&p.name);
                    if let Some(t) = &p.ty {
                        self.ty(t);
                    }
                }
                if let Some(r) = ret {
                    self.ty(r);
                }
                match body {
                    ArrowBody::Expr(b) => self.expr(b, sc),
                    ArrowBody::Block(b) => self.stmts(b, sc),
                }
                sc.pop();
            }
            Expr::Unary { expr, .. } | Expr::Await(expr) | Expr::Paren(expr) | Expr::Spread(expr) | Expr::NonNull(expr) => self.expr(expr, sc),
            Expr::As(expr, t) => {
                self.expr(expr, sc);
                self.ty(t);
            }
            Expr::Binary { op, l, r } => {
                self.expr(l, sc);
                if *op == "instanceof" {
                    self.expr(r, sc);
                } else {
                    self.expr(r, sc);
                }
            }
            Expr::Assign { l, r, .. } => {
                self.expr(l, sc);
                self.expr(r, sc);
            }
            Expr::Cond { c, t, e } => {
                self.expr(c, sc);
                self.expr(t, sc);
                self.expr(e, sc);
            }
            Expr::Str(_) | Expr::Num(_) | Expr::Bool(_) | Expr::Null => {}
        }
    }

    pub fn stmts(&mut self, stmts: &[Stmt], sc: &mut Scope) {
        sc.push();
        // `const`/`let` are block scoped; declare up front (use-before-define is a TDZ matter,
        // not a resolution matter)
        for s in stmts {
            if let Stmt::Var { name, .. } = s {
                sc.declare(name);
            }
        }
        for s in stmts {
            self.stmt(s, sc);
        }
        sc.pop();
    }

    fn stmt(&mut self, s: &Stmt, sc: &mut Scope) {
        match s {
            Stmt::Var { ty, init, .. } => {
                if let Some(t) = ty {
                    self.ty(t);
                }
                if let Some(e) = init {
                    self.expr(e, sc);
                }
            }
            Stmt::Return(Some(e)) | Stmt::Throw(e) | Stmt::Expr(e) => self.expr(e, sc),
            Stmt::Return(None) | Stmt::Empty => {}
            Stmt::If { cond, then, els } => {
                self.expr(cond, sc);
                self.stmt(then, sc);
                if let Some(e) = els {
                    self.stmt(e, sc);
                }
            }
            Stmt::Try { block, catch, finally } => {
                self.stmts(block, sc);
                if let Some((b, body)) = catch {
                    sc.push();
                    if let Some(n) = b {
                        sc.declare(n);
                    }
                    self.stmts(body, sc);
                    sc.pop();
                }
                if let Some(f) = finally {
                    self.stmts(f, sc);
                }
            }
            Stmt::Block(b) => self.stmts(b, sc),
        }
    }
}

/// every free reference of a module
pub fn module_refs(items: &[ItemSpan]) -> Vec<NameRef> {
    let mut c = Collector { refs: vec![], decl: String::new(), type_params: BTreeSet::new(), ctx: vec![] };
    for it in items {
        match &it.item {
            Item::Interface(i) => {
                c.decl = i.name.clone();
                c.type_params = i.type_params.iter().cloned().collect();
                i.extends.iter().for_each(|t| c.ty(t));
                c.members(&i.members);
            }
            Item::TypeAlias { name, type_params, ty, .. } => {
                c.decl = name.clone();
                c.type_params = type_params.iter().cloned().collect();
                c.ty(ty);
            }
            Item::Const { name, ty, init, .. } => {
                c.decl = name.clone();
                c.type_params.clear();
                if let Some(t) = ty {
                    c.ty(t);
                }
                if let Some(e) = init {
                    let mut sc = Scope::new();
                    c.expr(e, &mut sc);
                }
            }
            Item::Function(f) => {
                c.decl = f.name.clone();
                c.type_params = f.type_params.iter().cloned().collect();
                let mut sc = Scope::new();
                for p in &f.params {
                    sc.declare(&p.name);
                    if let Some(t) = &p.ty {
                        c.ty(t);
                    }
                }
                if let Some(r) = &f.ret {
                    c.ty(r);
                }
                c.stmts(&f.body, &mut sc);
            }
            Item::Stmt(s) => {
                c.decl = "<statement>".into();
                c.type_params.clear();
                let mut sc = Scope::new();
                c.stmts(std::slice::from_ref(s), &mut sc);
            }
            Item::Import { .. } | Item::ExportAll { .. } | Item::ExportNamed { .. } => {}
        }
    }
    c.refs
}

pub const GLOBAL_TYPES: &[&str] = &[
    "string", "number", "boolean", "void", "null", "undefined", "unknown", "any", "never", "object", "bigint", "symbol", "Promise", "Record", "Array", "ReadonlyArray", "Partial", "Required", "Readonly",
    "Pick", "Omit", "Map", "Set", "Date", "Error", "Uint8Array", "this",
];
pub const GLOBAL_VALUES: &[&str] = &["undefined", "Promise", "Error", "console", "JSON", "Object", "Array", "String", "Number", "Boolean", "Math", "Date", "Symbol", "globalThis", "NaN", "Infinity", "this"];
