//! Driving the code under test: in-process `generate_from_config`, and the real binaries as
//! subprocesses. Scratch space lives in /dev/shm/ttgv-<pid>/ (never below a `/target/` path,
//! which the tool's own walker excludes).

use std::cell::RefCell;
use std::collections::{BTreeMap, HashMap};
use std::path::{Path, PathBuf};
use std::sync::atomic::{AtomicU64, Ordering};
use std::sync::Once;

static COUNTER: AtomicU64 = AtomicU64::new(0);
static HOOK: Once = Once::new();

thread_local! {
    static LAST_PANIC: RefCell<Option<String>> = const { RefCell::new(None) };
    static IN_TOOL: RefCell<bool> = const { RefCell::new(false) };
}

pub fn scratch_root() -> PathBuf {
    let base = if Path::new("/dev/shm").is_dir() { PathBuf::from("/dev/shm") } else { std::env::temp_dir() };
    base.join(format!("ttgv-{}", std::process::id()))
}

pub fn fresh_dir(prefix: &str) -> PathBuf {
    let n = COUNTER.fetch_add(1, Ordering::Relaxed);
    let d = scratch_root().join(format!("{}{}", prefix, n));
    std::fs::create_dir_all(&d).unwrap_or_else(|e| crate::run::infra_exit(&format!("cannot create scratch dir {}: {}", d.display(), e)));
    d
}

pub fn cleanup_scratch() {
    let _ = std::fs::remove_dir_all(scratch_root());
}

/// Panics of the tool (inside `catch_unwind`) are recorded silently; panics of the harness itself
/// keep the default report.
pub fn install_panic_hook() {
    HOOK.call_once(|| {
        let default = std::panic::take_hook();
        std::panic::set_hook(Box::new(move |info| {
            let in_tool = IN_TOOL.with(|c| *c.borrow());
            if in_tool {
                let loc = info.location().map(|l| format!("{}:{}", l.file(), l.line())).unwrap_or_default();
                let msg = if let Some(s) = info.payload().downcast_ref::<&str>() {
                    s.to_string()
                } else if let Some(s) = info.payload().downcast_ref::<String>() {
                    s.clone()
                } else {
                    "panic".to_string()
                };
                LAST_PANIC.with(|c| *c.borrow_mut() = Some(format!("{} at {}", msg, loc)));
            } else {
                default(info);
            }
        }));
    });
}

/// Run `f` (code under test) catching panics; Err carries "message at file:line".
pub fn guarded<T>(f: impl FnOnce() -> T) -> Result<T, String> {
    install_panic_hook();
    IN_TOOL.with(|c| *c.borrow_mut() = true);
    let r = std::panic::catch_unwind(std::panic::AssertUnwindSafe(f));
    IN_TOOL.with(|c| *c.borrow_mut() = false);
    match r {
        Ok(v) => Ok(v),
        Err(_) => Err(LAST_PANIC.with(|c| c.borrow_mut().take()).unwrap_or_else(|| "panic".to_string())),
    }
}

#[derive(Clone, Debug, Default, PartialEq, Eq, Hash)]
pub struct Cfg {
    /// "none" | "zod"
    pub mode: String,
    pub type_mappings: Vec<(String, String)>,
    pub param_case: Option<String>,
    pub field_case: Option<String>,
    /// how the settings reach the generator: "" = the configuration value as built;
    /// "tauri_conf" = written to and read back from the typegen entry of a tauri.conf.json;
    /// "file" = written to and read back from a stand-alone configuration file
    pub route: String,
}

impl Cfg {
    pub fn mode(m: &str) -> Self {
        Cfg { mode: m.to_string(), ..Default::default() }
    }
    pub fn to_json(&self) -> serde_json::Value {
        serde_json::json!({"validation_library": self.mode, "type_mappings": self.type_mappings, "default_parameter_case": self.param_case, "default_field_case": self.field_case})
    }
}

#[derive(Debug, Clone)]
pub struct GenOut {
    /// Ok(list of file names the tool says it generated) / Err(error text)
    pub result: Result<Vec<String>, String>,
    pub panic: Option<String>,
    /// every file found in the output directory afterwards
    pub files: BTreeMap<String, String>,
}

impl GenOut {
    pub fn file(&self, name: &str) -> Option<&str> {
        self.files.get(name).map(|s| s.as_str())
    }
}

/// a file whose content starts with this line is written next to the project directory and
/// linked into it (a `.rs` file that is a symbolic link to a regular file)
pub const SYMLINK_MARK: &str = "// @ttgv-symlink: this file is a symbolic link to a file outside the project path\n";

pub fn write_project(dir: &Path, files: &[(String, String)]) {
    for (rel, content) in files {
        let p = dir.join(rel);
        if let Some(parent) = p.parent() {
            std::fs::create_dir_all(parent).unwrap();
        }
        if content.starts_with(SYMLINK_MARK) {
            let store = dir.parent().unwrap_or(dir).join(format!("{}-linked", dir.file_name().and_then(|n| n.to_str()).unwrap_or("proj")));
            std::fs::create_dir_all(&store).unwrap();
            let target = store.join(rel.replace('/', "__"));
            std::fs::write(&target, content).unwrap();
            let _ = std::fs::remove_file(&p);
            std::os::unix::fs::symlink(&target, &p).unwrap();
            continue;
        }
        std::fs::write(&p, content).unwrap();
    }
}

pub fn read_dir_files(dir: &Path) -> BTreeMap<String, String> {
    let mut out = BTreeMap::new();
    if let Ok(rd) = std::fs::read_dir(dir) {
        for e in rd.flatten() {
            let p = e.path();
            if p.is_file() {
                if let Ok(s) = std::fs::read_to_string(&p) {
                    out.insert(e.file_name().to_string_lossy().to_string(), s);
                }
            }
        }
    }
    out
}

pub fn make_config(project: &Path, out: &Path, cfg: &Cfg) -> tauri_typegen::GenerateConfig {
    let mut c = tauri_typegen::GenerateConfig::default();
    c.project_path = project.to_string_lossy().to_string();
    c.output_path = out.to_string_lossy().to_string();
    c.validation_library = if cfg.mode.is_empty() { "none".into() } else { cfg.mode.clone() };
    if !cfg.type_mappings.is_empty() {
        let m: HashMap<String, String> = cfg.type_mappings.iter().cloned().collect();
        c.type_mappings = Some(m);
    }
    if let Some(p) = &cfg.param_case {
        c.default_parameter_case = p.clone();
    }
    if let Some(p) = &cfg.field_case {
        c.default_field_case = p.clone();
    }
    c
}

/// One in-process run of analysis + generation on a fresh copy of the project.
pub fn generate(files: &[(String, String)], cfg: &Cfg) -> GenOut {
    let dir = fresh_dir("g");
    let proj = dir.join("proj");
    let out = dir.join("out");
    std::fs::create_dir_all(&proj).unwrap();
    write_project(&proj, files);
    let r = generate_at(&proj, &out, cfg);
    let _ = std::fs::remove_dir_all(&dir);
    r
}

pub fn generate_at(proj: &Path, out: &Path, cfg: &Cfg) -> GenOut {
    let mut config = make_config(proj, out, cfg);
    if !cfg.route.is_empty() {
        // the settings take the route a user's settings take: a file the tool wrote and reads back
        let holder = fresh_dir("cfgroute");
        let loaded = guarded(|| -> Result<tauri_typegen::GenerateConfig, String> {
            if cfg.route == "tauri_conf" {
                let f = holder.join("tauri.conf.json");
                std::fs::write(&f, "{\n  \"productName\": \"app\",\n  \"plugins\": {}\n}\n").map_err(|e| e.to_string())?;
                config.save_to_tauri_config(&f).map_err(|e| e.to_string())?;
                tauri_typegen::GenerateConfig::from_tauri_config(&f).map_err(|e| e.to_string())?.ok_or_else(|| "no typegen entry read back".to_string())
            } else {
                let f = holder.join("typegen.json");
                config.save_to_file(&f).map_err(|e| e.to_string())?;
                tauri_typegen::GenerateConfig::from_file(&f).map_err(|e| e.to_string())
            }
        });
        let _ = std::fs::remove_dir_all(&holder);
        match loaded {
            Ok(Ok(c)) => config = c,
            Ok(Err(e)) => return GenOut { result: Err(format!("configuration route {}: {}", cfg.route, e)), panic: None, files: BTreeMap::new() },
            Err(p) => return GenOut { result: Err(format!("panic: {}", p)), panic: Some(p), files: BTreeMap::new() },
        }
    }
    let res = guarded(|| tauri_typegen::generate_from_config(&config).map_err(|e| e.to_string()));
    let files = read_dir_files(out);
    match res {
        Ok(r) => GenOut { result: r, panic: None, files },
        Err(p) => GenOut { result: Err(format!("panic: {}", p)), panic: Some(p), files },
    }
}

// ------------------------------------------------------------------------------------------
// subprocesses

#[derive(Debug, Clone)]
pub struct ProcOut {
    pub status: Option<i32>,
    pub signal: Option<i32>,
    pub stdout: String,
    pub stderr: String,
    pub timed_out: bool,
}

impl ProcOut {
    pub fn ok(&self) -> bool {
        self.status == Some(0)
    }
}

pub fn bin_dir() -> PathBuf {
    // the harness binary lives in <root>/harness/target/release/; the real CLI is built into
    // <root>/harness/target/repo/release/
    let exe = std::env::current_exe().unwrap();
    exe.parent().unwrap().to_path_buf()
}

pub fn cli_path() -> PathBuf {
    if let Ok(p) = std::env::var("TTGV_CLI") {
        return PathBuf::from(p);
    }
    bin_dir().parent().unwrap().join("repo").join("release").join("cargo-tauri-typegen")
}

pub fn buildrs_driver_path() -> PathBuf {
    bin_dir().join("buildrs_driver")
}

pub fn run_proc(exe: &Path, args: &[&str], cwd: &Path, timeout_s: u64) -> ProcOut {
    use std::io::Read;
    use std::os::unix::process::ExitStatusExt;
    use std::process::{Command, Stdio};
    let mut cmd = Command::new(exe);
    cmd.args(args).current_dir(cwd).stdin(Stdio::null()).stdout(Stdio::piped()).stderr(Stdio::piped());
    cmd.env("NO_COLOR", "1");
    let mut child = match cmd.spawn() {
        Ok(c) => c,
        Err(e) => crate::run::infra_exit(&format!("cannot spawn {}: {}", exe.display(), e)),
    };
    let mut so = child.stdout.take().unwrap();
    let mut se = child.stderr.take().unwrap();
    let t1 = std::thread::spawn(move || {
        let mut s = Vec::new();
        let _ = so.read_to_end(&mut s);
        String::from_utf8_lossy(&s).to_string()
    });
    let t2 = std::thread::spawn(move || {
        let mut s = Vec::new();
        let _ = se.read_to_end(&mut s);
        String::from_utf8_lossy(&s).to_string()
    });
    let start = std::time::Instant::now();
    let mut timed_out = false;
    let status = loop {
        match child.try_wait() {
            Ok(Some(st)) => break Some(st),
            Ok(None) => {
                if start.elapsed().as_secs() >= timeout_s {
                    let _ = child.kill();
                    timed_out = true;
                    break child.wait().ok();
                }
                std::thread::sleep(std::time::Duration::from_micros(300));
            }
            Err(_) => break None,
        }
    };
    let stdout = t1.join().unwrap_or_default();
    let stderr = t2.join().unwrap_or_default();
    ProcOut { status: status.and_then(|s| s.code()), signal: status.and_then(|s| s.signal()), stdout, stderr, timed_out }
}

/// `cargo-tauri-typegen tauri-typegen <args…>` in `cwd`
pub fn run_cli(args: &[&str], cwd: &Path) -> ProcOut {
    let mut full = vec!["tauri-typegen"];
    full.extend_from_slice(args);
    let out = run_proc(&cli_path(), &full, cwd, 60);
    if out.timed_out {
        crate::run::infra_exit("the CLI did not finish within 60 s (inconclusive)");
    }
    out
}

pub fn run_buildrs(cwd: &Path) -> ProcOut {
    let out = run_proc(&buildrs_driver_path(), &[], cwd, 60);
    if out.timed_out {
        crate::run::infra_exit("the build-script driver did not finish within 60 s (inconclusive)");
    }
    out
}

/// remove the only legitimately varying line
pub fn strip_timestamp(s: &str) -> String {
    s.lines().filter(|l| !l.trim_start().starts_with("* Generated at:")).collect::<Vec<_>>().join("\n")
}
